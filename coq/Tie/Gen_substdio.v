(* The output side of substdio (substdo.c: allwrite, substdio_flush, substdio_bput, substdio_put, substdio_putflush) as generated from
   today's source by tools/c2gallina.py (gen/CGen.v: C_allwrite, C_substdio_flush, C_substdio_bput, C_substdio_put, C_substdio_putflush and
   the K_ variants in which every array access records in v__oob whether it was inside its array) simulates the model Mem/Substdio.v
   (o_flush, o_bput, o_put, o_putflush), of which Mem/SubstdioProofs.v proves: the descriptor receives exactly the concatenation of
   the data of the successful operations, in order, and no copy leaves the buffer.
   The call through the function pointer s->op is the write oracle: its k-th call answers from element k of the run parameter
   g_wr__script_ (e >= 0: min(e+1,len) bytes accepted and appended to g_wr__out_; -1: EINTR; <= -2: error; exhausted: everything
   accepted), v_wr__n counts the calls.  The buffer s->x is the array a_s__x, s->p and s->n are v_s__p and v_s__n.
   REQUIRED statements must be proved exactly as stated. *)
From Coq Require Import ZArith NArith List Lia Bool Arith.
From NQ Require Import Base.MiniC Base.Bytes Mem.Substdio Mem.SubstdioProofs gen.CGen Tie.GenCommon Tie.GenAux Tie.Gen_strings Tie.Gen_safety.
Import ListNotations.
Local Open Scope Z_scope.

Definition enc (w : wres) : Z := match w with WOk k => Z.of_nat k | WIntr => -1 | WErr => -2 end.
(* the C state (buffer x, s->p = p, oracle script / call counter n / accepted bytes out) represents the model state b *)
Definition Rep (b : obuf) (x : list Z) (p : Z) (script : list Z) (n : Z) (out : list Z) : Prop :=
  length x = o_cap b /\ (length (o_pend b) <= o_cap b)%nat /\ p = Z.of_nat (length (o_pend b)) /\
  firstn (length (o_pend b)) x = zs (o_pend b) /\ 0 <= n /\ skipn (Z.to_nat n) script = map enc (o_scr b) /\ out = zs (o_out b).
Definition good (b : obuf) (data : bytes) : Prop :=
  bytes_ok data /\ bytes_ok (o_pend b) /\ (0 < o_cap b)%nat /\ Z.of_nat (o_cap b) < 2 ^ 30 /\ Z.of_nat (length data) < 2 ^ 30.
Definition ret (ok : bool) : Z := if ok then 0 else -1.
Definition enough (fuel : nat) (b : obuf) (script : list Z) (data : bytes) : Prop := (length script + length data + o_cap b + 4 <= fuel)%nat.


(* Proof conventions.  Nothing below mentions a name invented by the translator: only the field names of the generated records and
   the generated constants run/body/loop1.
   - allwrite (aw_loop): induction on the rest of the script, the fuel of the model and of the C loop generalised; the data written is
     described by  at_ buf off data  (the length data cells of buf at off are data).
   - callers: the results of the callees are stated with explicit record literals (aw_run, fl_run, write_rep, copy_rep), the body of a
     caller is run one let at a time on a goal  post (program): sd_let_red reduces the arguments of the next call, the call is rewritten
     to its result, sd_lets substitutes the copy-back lets (integers by their value, states by a local definition St := literal, so that
     the rest of the program stays small), the continuations of obind are hidden as local definitions (hide_all/show_next).
     The goal is changed with change_no_check: the kernel checks everything at Qed, where every conversion between two forms of the
     rest of a program zeta-expands its lets (exponential in the number of copy-backs after a call), so the number of such steps is
     kept small (pick_else/pick_then decide a conditional by a lemma instead of a conversion, call_by proves the call equation apart).
     The one-step unfolding of K_substdio_bput.loop1 is what makes kbl_loop slow (the kernel compares the body of the fixpoint with itself
     once for every recursive occurrence).
   - the k... lemmas are the same proofs on the checked variants K_...; the field v__oob stays 0 (kbcp_loop: every access of the
     checked byte_copy is inside, and it writes the same cells as the unchecked one). *)

(* ---------------------------------------------------------------- *)

Lemma skipn_cons_nth {A} (d : A) : forall n (l : list A) a t, skipn n l = a :: t -> nth n l d = a /\ skipn (S n) l = t /\ (n < length l)%nat.
Proof.
  induction n as [|n IH]; intros l a t H; destruct l as [|x l]; cbn [skipn] in H; try discriminate.
  - injection H as -> ->. cbn. repeat split. lia.
  - destruct (IH l a t H) as (H1 & H2 & H3). cbn [nth length]. repeat split; [exact H1|exact H2|lia].
Qed.
Lemma skipn_nil_len {A} : forall n (l : list A), skipn n l = [] -> (length l <= n)%nat.
Proof. induction n; intros l H; destruct l; cbn in *; try discriminate; try lia. apply IHn in H. lia. Qed.

Lemma skipn_plus {A} : forall b a (l : list A), skipn (a + b) l = skipn a (skipn b l).
Proof.
  induction b as [|b IH]; intros a l; [rewrite Nat.add_0_r; reflexivity|].
  destruct l as [|x l]; [rewrite !skipn_nil; reflexivity|]. rewrite Nat.add_succ_r. cbn [skipn]. apply IH.
Qed.
Definition at_ (buf : list Z) (off : Z) (data : bytes) : Prop := 0 <= off /\ firstn (length data) (skipn (Z.to_nat off) buf) = zs data.
Lemma at_firstn buf off data w : at_ buf off data -> (w <= length data)%nat -> firstn w (skipn (Z.to_nat off) buf) = zs (firstn w data).
Proof.
  intros [_ H] Hw. unfold zs. rewrite <- firstn_map. fold (zs data). rewrite <- H, firstn_firstn. f_equal. lia.
Qed.
Lemma at_skipn buf off data w : at_ buf off data -> (w <= length data)%nat -> at_ buf (off + Z.of_nat w) (skipn w data).
Proof.
  intros [H0 H] Hw. split; [lia|].
  replace (Z.to_nat (off + Z.of_nat w)) with (w + Z.to_nat off)%nat by lia.
  rewrite skipn_plus, firstn_skipn_comm, skipn_length.
  replace (w + (length data - w))%nat with (length data) by lia. rewrite H. unfold zs. apply skipn_map.
Qed.
Lemma at_all buf off data : at_ buf off data -> firstn (length data) (skipn (Z.to_nat off) buf) = zs data.
Proof. intros [_ H]; exact H. Qed.

(* ---------------------------------------------------------------- *)

Ltac aw_simpl := cbv beta iota zeta delta [C_allwrite.set_v_fd C_allwrite.set_v_buf C_allwrite.set_v_len C_allwrite.set_v_w C_allwrite.set_v_wr__n C_allwrite.set_v_errno
  C_allwrite.set_a_buf C_allwrite.set_a_wr__script C_allwrite.set_a_wr__out
  C_allwrite.v_fd C_allwrite.v_buf C_allwrite.v_len C_allwrite.v_w C_allwrite.v_wr__n C_allwrite.v_errno C_allwrite.a_buf C_allwrite.a_wr__script C_allwrite.a_wr__out].

Definition aw_out (ok : bool) (st : C_allwrite.st) : outcome C_allwrite.st := if ok then ONormal st else OReturn (-1) st.

Lemma m1_64 : wraps 64 (wraps 32 (- (1))) = -1. Proof. reflexivity. Qed.
Lemma m1_32 : wraps 32 (- (1)) = -1. Proof. reflexivity. Qed.
Lemma p62 : 2 ^ 62 = 4611686018427387904. Proof. reflexivity. Qed.
Lemma p30 : 2 ^ 30 = 1073741824. Proof. reflexivity. Qed.
Lemma sub64 a b : 0 <= b <= a -> a < 2 ^ 62 -> wrapu 64 (wrapu 64 (wrapu 64 a - wrapu 64 b)) = a - b.
Proof. intros H1 H2. rewrite p62 in H2. rewrite (wrapu64_small a), (wrapu64_small b), (wrapu64_small (a - b)), (wrapu64_small (a - b)) by lia. reflexivity. Qed.

Lemma script_head (script : list Z) (n : Z) (r : wres) (scr : wscript) : 0 <= n -> skipn (Z.to_nat n) script = map enc (r :: scr) ->
  (n <? alen script) = true /\ MiniC.rd script n = enc r /\ skipn (Z.to_nat (n + 1)) script = map enc scr.
Proof.
  intros Hn H. cbn [map] in H. destruct (skipn_cons_nth 0 _ _ _ _ H) as (H1 & H2 & H3).
  split; [apply Z.ltb_lt; unfold alen; lia|]. split.
  - unfold MiniC.rd. destruct (Z.ltb_spec n 0); [lia|exact H1].
  - replace (Z.to_nat (n + 1)) with (S (Z.to_nat n)) by lia. exact H2.
Qed.
Lemma script_end (script : list Z) (n : Z) : 0 <= n -> skipn (Z.to_nat n) script = [] ->
  (n <? alen script) = false /\ skipn (Z.to_nat (n + 1)) script = [].
Proof.
  intros Hn H. pose proof (skipn_nil_len _ _ H) as HL. split; [apply Z.ltb_ge; unfold alen; lia|].
  apply skipn_all2. lia.
Qed.

Lemma aw_done f0 fuel s : C_allwrite.v_len s = 0 -> C_allwrite.loop1 f0 (S fuel) s = ONormal s.
Proof. intros H. cbn [C_allwrite.loop1]. rewrite H. reflexivity. Qed.

Lemma aw_loop (f0 : nat) (fd : Z) (buf script : list Z) :
  forall (scr : wscript) (mf : nat) (data : bytes) (fuel : nat) (off w n errno : Z) (out : list Z) ok acc scr',
  (length scr < mf)%nat -> (length scr + 2 <= fuel)%nat -> 0 <= n -> skipn (Z.to_nat n) script = map enc scr ->
  at_ buf off data -> Z.of_nat (length data) < 2 ^ 62 ->
  allwrite mf scr data = (ok, acc, scr') ->
  exists off' len' w' n' errno',
  C_allwrite.loop1 f0 fuel {| C_allwrite.v_fd := fd; C_allwrite.v_buf := off; C_allwrite.v_len := Z.of_nat (length data); C_allwrite.v_w := w;
     C_allwrite.v_wr__n := n; C_allwrite.v_errno := errno; C_allwrite.a_buf := buf; C_allwrite.a_wr__script := script; C_allwrite.a_wr__out := out |}
  = aw_out ok {| C_allwrite.v_fd := fd; C_allwrite.v_buf := off'; C_allwrite.v_len := len'; C_allwrite.v_w := w';
     C_allwrite.v_wr__n := n'; C_allwrite.v_errno := errno'; C_allwrite.a_buf := buf; C_allwrite.a_wr__script := script; C_allwrite.a_wr__out := out ++ zs acc |}
  /\ 0 <= n' /\ skipn (Z.to_nat n') script = map enc scr'.
Proof.
  induction scr as [|r scr IH]; intros mf data fuel off w n errno out ok acc scr' Hmf Hfuel Hn Hscr Hat Hlen Hm;
    (destruct fuel as [|fuel]; [cbn [length] in Hfuel; lia|]); (destruct mf as [|mf]; [cbn [length] in Hmf; lia|]);
    (destruct data as [|c d];
     [ cbn [allwrite] in Hm; injection Hm as <- <- <-; cbn [C_allwrite.loop1]; aw_simpl; cbn [length Z.of_nat]; change (0 =? 0) with true; cbv iota;
       exists off, 0, w, n, errno; cbn [zs map aw_out]; rewrite app_nil_r; repeat split; assumption | ]);
    rewrite allwrite_S in Hm by discriminate; remember (c :: d) as data eqn:Ed;
    assert (Hpos : 0 < Z.of_nat (length data)) by (subst data; cbn [length]; lia); clear Ed c d;
    cbn [C_allwrite.loop1]; aw_simpl;
    (destruct (Z.eqb_spec (Z.of_nat (length data)) 0) as [E0|_]; [lia|]).
  - (* script exhausted *)
    injection Hm as <- <- <-. cbn [map] in Hscr. destruct (script_end script n Hn Hscr) as [Hlt Hnext].
    rewrite Hlt.
    destruct (Z.ltb_spec (Z.of_nat (length data) - 1) 0) as [Hneg|_]; [lia|].
    replace (Z.of_nat (length data) - 1 + 1) with (Z.of_nat (length data)) by lia. rewrite Z.min_id, m1_64.
    destruct (Z.eqb_spec (Z.of_nat (length data)) (-1)) as [E1|_]; [lia|]. cbn [b2z]. change (0 =? 0) with true. cbv iota. cbn [obind]. aw_simpl.
    rewrite sub64 by lia. rewrite Z.sub_diag.
    destruct fuel as [|fuel]; [cbn [length] in Hfuel; lia|]. rewrite aw_done by reflexivity.
    rewrite Nat2Z.id, (at_all _ _ _ Hat).
    eexists _, _, _, _, _. split; [reflexivity|]. split; [lia|exact Hnext].
  - destruct (script_head script n r scr Hn Hscr) as (Hlt & Hrd & Hnext). rewrite Hlt, Hrd.
    cbn [length] in Hmf, Hfuel.
    destruct r as [k| |]; cbn [enc].
    + (* WOk k *)
      destruct (Z.ltb_spec (Z.of_nat k) 0) as [Hneg|_]; [lia|].
      replace (Z.of_nat k + 1) with (Z.of_nat (S k)) by lia. rewrite <- Nat2Z.inj_min, m1_64. set (wn := Nat.min (S k) (length data)) in *.
      destruct (Z.eqb_spec (Z.of_nat wn) (-1)) as [E1|_]; [lia|]. cbn [b2z]. change (0 =? 0) with true. cbv iota. cbn [obind]. aw_simpl.
      assert (Hwn : (wn <= length data)%nat) by (subst wn; lia).
      rewrite sub64 by lia. rewrite Nat2Z.id, (at_firstn _ _ _ _ Hat Hwn).
      replace (Z.of_nat (length data) - Z.of_nat wn) with (Z.of_nat (length (skipn wn data))) by (rewrite skipn_length; lia).
      cbv zeta in Hm. destruct (allwrite mf scr (skipn wn data)) as [[ok1 more] scr1] eqn:E. injection Hm as <- <- <-.
      destruct (IH mf (skipn wn data) fuel (off + Z.of_nat wn) (Z.of_nat wn) (n + 1) errno (out ++ zs (firstn wn data)) ok1 more scr1)
        as (off' & len' & w' & n' & errno' & HL & Hn' & Hs'); try lia; try assumption.
      * apply at_skipn; assumption.
      * rewrite skipn_length. lia.
      * rewrite HL. rewrite zs_app, app_assoc. eexists _, _, _, _, _. split; [reflexivity|]. split; assumption.
    + (* EINTR *)
      change (-1 <? 0) with true. cbv iota. rewrite m1_64. change (-1 =? -1) with true. cbn [b2z]. change (1 =? 0) with false. cbv iota.
      change (4 =? 4) with true. cbn [b2z]. change (1 =? 0) with false. cbv iota. cbn [obind].
      change (Z.to_nat (-1)) with 0%nat. cbn [firstn]. rewrite app_nil_r.
      destruct (IH mf data fuel off (-1) (n + 1) 4 out ok acc scr') as (off' & len' & w' & n' & errno' & HL & Hn' & Hs'); try lia; try assumption.
      rewrite HL. eexists _, _, _, _, _. split; [reflexivity|]. split; assumption.
    + (* error *)
      injection Hm as <- <- <-.
      change (-2 <? 0) with true. cbv iota. rewrite m1_64. change (-1 =? -1) with true. cbn [b2z]. change (1 =? 0) with false. cbv iota.
      change (-2 =? -1) with false. cbv iota. change (5 =? 4) with false. cbn [b2z]. change (0 =? 0) with true. cbv iota. cbn [obind].
      change (Z.to_nat (-1)) with 0%nat. cbn [firstn]. rewrite m1_32.
      eexists _, _, _, _, _. split; [reflexivity|]. split; [lia|exact Hnext].
Qed.

(* ---------------------------------------------------------------- *)

Ltac unfold_states v :=
  match goal with
  | St := _ : C_allwrite.st |- _ => lazymatch v with context [St] => let v1 := eval cbv delta [St] in v in unfold_states v1 end
  | St := _ : C_substdio_flush.st |- _ => lazymatch v with context [St] => let v1 := eval cbv delta [St] in v in unfold_states v1 end
  | St := _ : C_substdio_put.st |- _ => lazymatch v with context [St] => let v1 := eval cbv delta [St] in v in unfold_states v1 end
  | St := _ : C_substdio_bput.st |- _ => lazymatch v with context [St] => let v1 := eval cbv delta [St] in v in unfold_states v1 end
  | St := _ : C_substdio_putflush.st |- _ => lazymatch v with context [St] => let v1 := eval cbv delta [St] in v in unfold_states v1 end
  | St := _ : C_byte_copy.st |- _ => lazymatch v with context [St] => let v1 := eval cbv delta [St] in v in unfold_states v1 end
  | St := _ : K_allwrite.st |- _ => lazymatch v with context [St] => let v1 := eval cbv delta [St] in v in unfold_states v1 end
  | St := _ : K_substdio_flush.st |- _ => lazymatch v with context [St] => let v1 := eval cbv delta [St] in v in unfold_states v1 end
  | St := _ : K_substdio_put.st |- _ => lazymatch v with context [St] => let v1 := eval cbv delta [St] in v in unfold_states v1 end
  | St := _ : K_substdio_bput.st |- _ => lazymatch v with context [St] => let v1 := eval cbv delta [St] in v in unfold_states v1 end
  | St := _ : K_substdio_putflush.st |- _ => lazymatch v with context [St] => let v1 := eval cbv delta [St] in v in unfold_states v1 end
  | St := _ : K_byte_copy.st |- _ => lazymatch v with context [St] => let v1 := eval cbv delta [St] in v in unfold_states v1 end
  | _ => v
  end.
Ltac open_states := repeat match goal with
  | St := _ : C_allwrite.st |- ?G => lazymatch G with context [St] => cbv delta [St] end
  | St := _ : C_substdio_flush.st |- ?G => lazymatch G with context [St] => cbv delta [St] end
  | St := _ : C_substdio_put.st |- ?G => lazymatch G with context [St] => cbv delta [St] end
  | St := _ : C_substdio_bput.st |- ?G => lazymatch G with context [St] => cbv delta [St] end
  | St := _ : C_substdio_putflush.st |- ?G => lazymatch G with context [St] => cbv delta [St] end
  | St := _ : C_byte_copy.st |- ?G => lazymatch G with context [St] => cbv delta [St] end
  | St := _ : K_allwrite.st |- ?G => lazymatch G with context [St] => cbv delta [St] end
  | St := _ : K_substdio_flush.st |- ?G => lazymatch G with context [St] => cbv delta [St] end
  | St := _ : K_substdio_put.st |- ?G => lazymatch G with context [St] => cbv delta [St] end
  | St := _ : K_substdio_bput.st |- ?G => lazymatch G with context [St] => cbv delta [St] end
  | St := _ : K_substdio_putflush.st |- ?G => lazymatch G with context [St] => cbv delta [St] end
  | St := _ : K_byte_copy.st |- ?G => lazymatch G with context [St] => cbv delta [St] end
  end.
Ltac sd_red v := let v0 := unfold_states v in eval cbv beta iota delta [C_allwrite.set_v_fd C_allwrite.set_v_buf C_allwrite.set_v_len C_allwrite.set_v_w C_allwrite.set_v_wr__n C_allwrite.set_v_errno C_allwrite.set_a_buf C_allwrite.set_a_wr__script C_allwrite.set_a_wr__out C_allwrite.v_fd C_allwrite.v_buf C_allwrite.v_len C_allwrite.v_w C_allwrite.v_wr__n C_allwrite.v_errno C_allwrite.a_buf C_allwrite.a_wr__script C_allwrite.a_wr__out C_substdio_flush.set_v_p C_substdio_flush.set_v_s__p C_substdio_flush.set_v_s__fd C_substdio_flush.set_v_wr__n C_substdio_flush.set_a_s__x C_substdio_flush.set_a_wr__script C_substdio_flush.set_a_wr__out C_substdio_flush.v_p C_substdio_flush.v_s__p C_substdio_flush.v_s__fd C_substdio_flush.v_wr__n C_substdio_flush.a_s__x C_substdio_flush.a_wr__script C_substdio_flush.a_wr__out C_substdio_put.set_v_buf C_substdio_put.set_v_len C_substdio_put.set_v_n C_substdio_put.set_v_s__n C_substdio_put.set_v_s__p C_substdio_put.set_v_s__fd C_substdio_put.set_v_wr__n C_substdio_put.set_a_buf C_substdio_put.set_a_s__x C_substdio_put.set_a_wr__script C_substdio_put.set_a_wr__out C_substdio_put.v_buf C_substdio_put.v_len C_substdio_put.v_n C_substdio_put.v_s__n C_substdio_put.v_s__p C_substdio_put.v_s__fd C_substdio_put.v_wr__n C_substdio_put.a_buf C_substdio_put.a_s__x C_substdio_put.a_wr__script C_substdio_put.a_wr__out C_substdio_bput.set_v_buf C_substdio_bput.set_v_len C_substdio_bput.set_v_n C_substdio_bput.set_v_s__n C_substdio_bput.set_v_s__p C_substdio_bput.set_v_s__fd C_substdio_bput.set_v_wr__n C_substdio_bput.set_a_buf C_substdio_bput.set_a_s__x C_substdio_bput.set_a_wr__script C_substdio_bput.set_a_wr__out C_substdio_bput.v_buf C_substdio_bput.v_len C_substdio_bput.v_n C_substdio_bput.v_s__n C_substdio_bput.v_s__p C_substdio_bput.v_s__fd C_substdio_bput.v_wr__n C_substdio_bput.a_buf C_substdio_bput.a_s__x C_substdio_bput.a_wr__script C_substdio_bput.a_wr__out C_substdio_putflush.set_v_buf C_substdio_putflush.set_v_len C_substdio_putflush.set_v_s__p C_substdio_putflush.set_v_s__fd C_substdio_putflush.set_v_wr__n C_substdio_putflush.set_a_buf C_substdio_putflush.set_a_s__x C_substdio_putflush.set_a_wr__script C_substdio_putflush.set_a_wr__out C_substdio_putflush.v_buf C_substdio_putflush.v_len C_substdio_putflush.v_s__p C_substdio_putflush.v_s__fd C_substdio_putflush.v_wr__n C_substdio_putflush.a_buf C_substdio_putflush.a_s__x C_substdio_putflush.a_wr__script C_substdio_putflush.a_wr__out C_byte_copy.set_v_to C_byte_copy.set_v_n C_byte_copy.set_v_from C_byte_copy.set_a_to C_byte_copy.set_a_from C_byte_copy.v_to C_byte_copy.v_n C_byte_copy.v_from C_byte_copy.a_to C_byte_copy.a_from K_allwrite.set_v_fd K_allwrite.set_v_buf K_allwrite.set_v_len K_allwrite.set_v_w K_allwrite.set_v__oob K_allwrite.set_v_wr__n K_allwrite.set_v_errno K_allwrite.set_a_buf K_allwrite.set_a_wr__script K_allwrite.set_a_wr__out K_allwrite.v_fd K_allwrite.v_buf K_allwrite.v_len K_allwrite.v_w K_allwrite.v__oob K_allwrite.v_wr__n K_allwrite.v_errno K_allwrite.a_buf K_allwrite.a_wr__script K_allwrite.a_wr__out K_substdio_flush.set_v_p K_substdio_flush.set_v__oob K_substdio_flush.set_v_s__p K_substdio_flush.set_v_s__fd K_substdio_flush.set_v_wr__n K_substdio_flush.set_a_s__x K_substdio_flush.set_a_wr__script K_substdio_flush.set_a_wr__out K_substdio_flush.v_p K_substdio_flush.v__oob K_substdio_flush.v_s__p K_substdio_flush.v_s__fd K_substdio_flush.v_wr__n K_substdio_flush.a_s__x K_substdio_flush.a_wr__script K_substdio_flush.a_wr__out K_substdio_put.set_v_buf K_substdio_put.set_v_len K_substdio_put.set_v_n K_substdio_put.set_v__oob K_substdio_put.set_v_s__n K_substdio_put.set_v_s__p K_substdio_put.set_v_s__fd K_substdio_put.set_v_wr__n K_substdio_put.set_a_buf K_substdio_put.set_a_s__x K_substdio_put.set_a_wr__script K_substdio_put.set_a_wr__out K_substdio_put.v_buf K_substdio_put.v_len K_substdio_put.v_n K_substdio_put.v__oob K_substdio_put.v_s__n K_substdio_put.v_s__p K_substdio_put.v_s__fd K_substdio_put.v_wr__n K_substdio_put.a_buf K_substdio_put.a_s__x K_substdio_put.a_wr__script K_substdio_put.a_wr__out K_substdio_bput.set_v_buf K_substdio_bput.set_v_len K_substdio_bput.set_v_n K_substdio_bput.set_v__oob K_substdio_bput.set_v_s__n K_substdio_bput.set_v_s__p K_substdio_bput.set_v_s__fd K_substdio_bput.set_v_wr__n K_substdio_bput.set_a_buf K_substdio_bput.set_a_s__x K_substdio_bput.set_a_wr__script K_substdio_bput.set_a_wr__out K_substdio_bput.v_buf K_substdio_bput.v_len K_substdio_bput.v_n K_substdio_bput.v__oob K_substdio_bput.v_s__n K_substdio_bput.v_s__p K_substdio_bput.v_s__fd K_substdio_bput.v_wr__n K_substdio_bput.a_buf K_substdio_bput.a_s__x K_substdio_bput.a_wr__script K_substdio_bput.a_wr__out K_substdio_putflush.set_v_buf K_substdio_putflush.set_v_len K_substdio_putflush.set_v__oob K_substdio_putflush.set_v_s__p K_substdio_putflush.set_v_s__fd K_substdio_putflush.set_v_wr__n K_substdio_putflush.set_a_buf K_substdio_putflush.set_a_s__x K_substdio_putflush.set_a_wr__script K_substdio_putflush.set_a_wr__out K_substdio_putflush.v_buf K_substdio_putflush.v_len K_substdio_putflush.v__oob K_substdio_putflush.v_s__p K_substdio_putflush.v_s__fd K_substdio_putflush.v_wr__n K_substdio_putflush.a_buf K_substdio_putflush.a_s__x K_substdio_putflush.a_wr__script K_substdio_putflush.a_wr__out K_byte_copy.set_v_to K_byte_copy.set_v_n K_byte_copy.set_v_from K_byte_copy.set_v__oob K_byte_copy.set_a_to K_byte_copy.set_a_from K_byte_copy.v_to K_byte_copy.v_n K_byte_copy.v_from K_byte_copy.v__oob K_byte_copy.a_to K_byte_copy.a_from Z.lor] in v0.
Ltac sd_simpl := open_states; cbv beta iota delta [C_allwrite.set_v_fd C_allwrite.set_v_buf C_allwrite.set_v_len C_allwrite.set_v_w C_allwrite.set_v_wr__n C_allwrite.set_v_errno C_allwrite.set_a_buf C_allwrite.set_a_wr__script C_allwrite.set_a_wr__out C_allwrite.v_fd C_allwrite.v_buf C_allwrite.v_len C_allwrite.v_w C_allwrite.v_wr__n C_allwrite.v_errno C_allwrite.a_buf C_allwrite.a_wr__script C_allwrite.a_wr__out C_substdio_flush.set_v_p C_substdio_flush.set_v_s__p C_substdio_flush.set_v_s__fd C_substdio_flush.set_v_wr__n C_substdio_flush.set_a_s__x C_substdio_flush.set_a_wr__script C_substdio_flush.set_a_wr__out C_substdio_flush.v_p C_substdio_flush.v_s__p C_substdio_flush.v_s__fd C_substdio_flush.v_wr__n C_substdio_flush.a_s__x C_substdio_flush.a_wr__script C_substdio_flush.a_wr__out C_substdio_put.set_v_buf C_substdio_put.set_v_len C_substdio_put.set_v_n C_substdio_put.set_v_s__n C_substdio_put.set_v_s__p C_substdio_put.set_v_s__fd C_substdio_put.set_v_wr__n C_substdio_put.set_a_buf C_substdio_put.set_a_s__x C_substdio_put.set_a_wr__script C_substdio_put.set_a_wr__out C_substdio_put.v_buf C_substdio_put.v_len C_substdio_put.v_n C_substdio_put.v_s__n C_substdio_put.v_s__p C_substdio_put.v_s__fd C_substdio_put.v_wr__n C_substdio_put.a_buf C_substdio_put.a_s__x C_substdio_put.a_wr__script C_substdio_put.a_wr__out C_substdio_bput.set_v_buf C_substdio_bput.set_v_len C_substdio_bput.set_v_n C_substdio_bput.set_v_s__n C_substdio_bput.set_v_s__p C_substdio_bput.set_v_s__fd C_substdio_bput.set_v_wr__n C_substdio_bput.set_a_buf C_substdio_bput.set_a_s__x C_substdio_bput.set_a_wr__script C_substdio_bput.set_a_wr__out C_substdio_bput.v_buf C_substdio_bput.v_len C_substdio_bput.v_n C_substdio_bput.v_s__n C_substdio_bput.v_s__p C_substdio_bput.v_s__fd C_substdio_bput.v_wr__n C_substdio_bput.a_buf C_substdio_bput.a_s__x C_substdio_bput.a_wr__script C_substdio_bput.a_wr__out C_substdio_putflush.set_v_buf C_substdio_putflush.set_v_len C_substdio_putflush.set_v_s__p C_substdio_putflush.set_v_s__fd C_substdio_putflush.set_v_wr__n C_substdio_putflush.set_a_buf C_substdio_putflush.set_a_s__x C_substdio_putflush.set_a_wr__script C_substdio_putflush.set_a_wr__out C_substdio_putflush.v_buf C_substdio_putflush.v_len C_substdio_putflush.v_s__p C_substdio_putflush.v_s__fd C_substdio_putflush.v_wr__n C_substdio_putflush.a_buf C_substdio_putflush.a_s__x C_substdio_putflush.a_wr__script C_substdio_putflush.a_wr__out C_byte_copy.set_v_to C_byte_copy.set_v_n C_byte_copy.set_v_from C_byte_copy.set_a_to C_byte_copy.set_a_from C_byte_copy.v_to C_byte_copy.v_n C_byte_copy.v_from C_byte_copy.a_to C_byte_copy.a_from K_allwrite.set_v_fd K_allwrite.set_v_buf K_allwrite.set_v_len K_allwrite.set_v_w K_allwrite.set_v__oob K_allwrite.set_v_wr__n K_allwrite.set_v_errno K_allwrite.set_a_buf K_allwrite.set_a_wr__script K_allwrite.set_a_wr__out K_allwrite.v_fd K_allwrite.v_buf K_allwrite.v_len K_allwrite.v_w K_allwrite.v__oob K_allwrite.v_wr__n K_allwrite.v_errno K_allwrite.a_buf K_allwrite.a_wr__script K_allwrite.a_wr__out K_substdio_flush.set_v_p K_substdio_flush.set_v__oob K_substdio_flush.set_v_s__p K_substdio_flush.set_v_s__fd K_substdio_flush.set_v_wr__n K_substdio_flush.set_a_s__x K_substdio_flush.set_a_wr__script K_substdio_flush.set_a_wr__out K_substdio_flush.v_p K_substdio_flush.v__oob K_substdio_flush.v_s__p K_substdio_flush.v_s__fd K_substdio_flush.v_wr__n K_substdio_flush.a_s__x K_substdio_flush.a_wr__script K_substdio_flush.a_wr__out K_substdio_put.set_v_buf K_substdio_put.set_v_len K_substdio_put.set_v_n K_substdio_put.set_v__oob K_substdio_put.set_v_s__n K_substdio_put.set_v_s__p K_substdio_put.set_v_s__fd K_substdio_put.set_v_wr__n K_substdio_put.set_a_buf K_substdio_put.set_a_s__x K_substdio_put.set_a_wr__script K_substdio_put.set_a_wr__out K_substdio_put.v_buf K_substdio_put.v_len K_substdio_put.v_n K_substdio_put.v__oob K_substdio_put.v_s__n K_substdio_put.v_s__p K_substdio_put.v_s__fd K_substdio_put.v_wr__n K_substdio_put.a_buf K_substdio_put.a_s__x K_substdio_put.a_wr__script K_substdio_put.a_wr__out K_substdio_bput.set_v_buf K_substdio_bput.set_v_len K_substdio_bput.set_v_n K_substdio_bput.set_v__oob K_substdio_bput.set_v_s__n K_substdio_bput.set_v_s__p K_substdio_bput.set_v_s__fd K_substdio_bput.set_v_wr__n K_substdio_bput.set_a_buf K_substdio_bput.set_a_s__x K_substdio_bput.set_a_wr__script K_substdio_bput.set_a_wr__out K_substdio_bput.v_buf K_substdio_bput.v_len K_substdio_bput.v_n K_substdio_bput.v__oob K_substdio_bput.v_s__n K_substdio_bput.v_s__p K_substdio_bput.v_s__fd K_substdio_bput.v_wr__n K_substdio_bput.a_buf K_substdio_bput.a_s__x K_substdio_bput.a_wr__script K_substdio_bput.a_wr__out K_substdio_putflush.set_v_buf K_substdio_putflush.set_v_len K_substdio_putflush.set_v__oob K_substdio_putflush.set_v_s__p K_substdio_putflush.set_v_s__fd K_substdio_putflush.set_v_wr__n K_substdio_putflush.set_a_buf K_substdio_putflush.set_a_s__x K_substdio_putflush.set_a_wr__script K_substdio_putflush.set_a_wr__out K_substdio_putflush.v_buf K_substdio_putflush.v_len K_substdio_putflush.v__oob K_substdio_putflush.v_s__p K_substdio_putflush.v_s__fd K_substdio_putflush.v_wr__n K_substdio_putflush.a_buf K_substdio_putflush.a_s__x K_substdio_putflush.a_wr__script K_substdio_putflush.a_wr__out K_byte_copy.set_v_to K_byte_copy.set_v_n K_byte_copy.set_v_from K_byte_copy.set_v__oob K_byte_copy.set_a_to K_byte_copy.set_a_from K_byte_copy.v_to K_byte_copy.v_n K_byte_copy.v_from K_byte_copy.v__oob K_byte_copy.a_to K_byte_copy.a_from Z.lor].
Ltac sd_simplz := open_states; cbv beta iota zeta delta [C_allwrite.set_v_fd C_allwrite.set_v_buf C_allwrite.set_v_len C_allwrite.set_v_w C_allwrite.set_v_wr__n C_allwrite.set_v_errno C_allwrite.set_a_buf C_allwrite.set_a_wr__script C_allwrite.set_a_wr__out C_allwrite.v_fd C_allwrite.v_buf C_allwrite.v_len C_allwrite.v_w C_allwrite.v_wr__n C_allwrite.v_errno C_allwrite.a_buf C_allwrite.a_wr__script C_allwrite.a_wr__out C_substdio_flush.set_v_p C_substdio_flush.set_v_s__p C_substdio_flush.set_v_s__fd C_substdio_flush.set_v_wr__n C_substdio_flush.set_a_s__x C_substdio_flush.set_a_wr__script C_substdio_flush.set_a_wr__out C_substdio_flush.v_p C_substdio_flush.v_s__p C_substdio_flush.v_s__fd C_substdio_flush.v_wr__n C_substdio_flush.a_s__x C_substdio_flush.a_wr__script C_substdio_flush.a_wr__out C_substdio_put.set_v_buf C_substdio_put.set_v_len C_substdio_put.set_v_n C_substdio_put.set_v_s__n C_substdio_put.set_v_s__p C_substdio_put.set_v_s__fd C_substdio_put.set_v_wr__n C_substdio_put.set_a_buf C_substdio_put.set_a_s__x C_substdio_put.set_a_wr__script C_substdio_put.set_a_wr__out C_substdio_put.v_buf C_substdio_put.v_len C_substdio_put.v_n C_substdio_put.v_s__n C_substdio_put.v_s__p C_substdio_put.v_s__fd C_substdio_put.v_wr__n C_substdio_put.a_buf C_substdio_put.a_s__x C_substdio_put.a_wr__script C_substdio_put.a_wr__out C_substdio_bput.set_v_buf C_substdio_bput.set_v_len C_substdio_bput.set_v_n C_substdio_bput.set_v_s__n C_substdio_bput.set_v_s__p C_substdio_bput.set_v_s__fd C_substdio_bput.set_v_wr__n C_substdio_bput.set_a_buf C_substdio_bput.set_a_s__x C_substdio_bput.set_a_wr__script C_substdio_bput.set_a_wr__out C_substdio_bput.v_buf C_substdio_bput.v_len C_substdio_bput.v_n C_substdio_bput.v_s__n C_substdio_bput.v_s__p C_substdio_bput.v_s__fd C_substdio_bput.v_wr__n C_substdio_bput.a_buf C_substdio_bput.a_s__x C_substdio_bput.a_wr__script C_substdio_bput.a_wr__out C_substdio_putflush.set_v_buf C_substdio_putflush.set_v_len C_substdio_putflush.set_v_s__p C_substdio_putflush.set_v_s__fd C_substdio_putflush.set_v_wr__n C_substdio_putflush.set_a_buf C_substdio_putflush.set_a_s__x C_substdio_putflush.set_a_wr__script C_substdio_putflush.set_a_wr__out C_substdio_putflush.v_buf C_substdio_putflush.v_len C_substdio_putflush.v_s__p C_substdio_putflush.v_s__fd C_substdio_putflush.v_wr__n C_substdio_putflush.a_buf C_substdio_putflush.a_s__x C_substdio_putflush.a_wr__script C_substdio_putflush.a_wr__out C_byte_copy.set_v_to C_byte_copy.set_v_n C_byte_copy.set_v_from C_byte_copy.set_a_to C_byte_copy.set_a_from C_byte_copy.v_to C_byte_copy.v_n C_byte_copy.v_from C_byte_copy.a_to C_byte_copy.a_from K_allwrite.set_v_fd K_allwrite.set_v_buf K_allwrite.set_v_len K_allwrite.set_v_w K_allwrite.set_v__oob K_allwrite.set_v_wr__n K_allwrite.set_v_errno K_allwrite.set_a_buf K_allwrite.set_a_wr__script K_allwrite.set_a_wr__out K_allwrite.v_fd K_allwrite.v_buf K_allwrite.v_len K_allwrite.v_w K_allwrite.v__oob K_allwrite.v_wr__n K_allwrite.v_errno K_allwrite.a_buf K_allwrite.a_wr__script K_allwrite.a_wr__out K_substdio_flush.set_v_p K_substdio_flush.set_v__oob K_substdio_flush.set_v_s__p K_substdio_flush.set_v_s__fd K_substdio_flush.set_v_wr__n K_substdio_flush.set_a_s__x K_substdio_flush.set_a_wr__script K_substdio_flush.set_a_wr__out K_substdio_flush.v_p K_substdio_flush.v__oob K_substdio_flush.v_s__p K_substdio_flush.v_s__fd K_substdio_flush.v_wr__n K_substdio_flush.a_s__x K_substdio_flush.a_wr__script K_substdio_flush.a_wr__out K_substdio_put.set_v_buf K_substdio_put.set_v_len K_substdio_put.set_v_n K_substdio_put.set_v__oob K_substdio_put.set_v_s__n K_substdio_put.set_v_s__p K_substdio_put.set_v_s__fd K_substdio_put.set_v_wr__n K_substdio_put.set_a_buf K_substdio_put.set_a_s__x K_substdio_put.set_a_wr__script K_substdio_put.set_a_wr__out K_substdio_put.v_buf K_substdio_put.v_len K_substdio_put.v_n K_substdio_put.v__oob K_substdio_put.v_s__n K_substdio_put.v_s__p K_substdio_put.v_s__fd K_substdio_put.v_wr__n K_substdio_put.a_buf K_substdio_put.a_s__x K_substdio_put.a_wr__script K_substdio_put.a_wr__out K_substdio_bput.set_v_buf K_substdio_bput.set_v_len K_substdio_bput.set_v_n K_substdio_bput.set_v__oob K_substdio_bput.set_v_s__n K_substdio_bput.set_v_s__p K_substdio_bput.set_v_s__fd K_substdio_bput.set_v_wr__n K_substdio_bput.set_a_buf K_substdio_bput.set_a_s__x K_substdio_bput.set_a_wr__script K_substdio_bput.set_a_wr__out K_substdio_bput.v_buf K_substdio_bput.v_len K_substdio_bput.v_n K_substdio_bput.v__oob K_substdio_bput.v_s__n K_substdio_bput.v_s__p K_substdio_bput.v_s__fd K_substdio_bput.v_wr__n K_substdio_bput.a_buf K_substdio_bput.a_s__x K_substdio_bput.a_wr__script K_substdio_bput.a_wr__out K_substdio_putflush.set_v_buf K_substdio_putflush.set_v_len K_substdio_putflush.set_v__oob K_substdio_putflush.set_v_s__p K_substdio_putflush.set_v_s__fd K_substdio_putflush.set_v_wr__n K_substdio_putflush.set_a_buf K_substdio_putflush.set_a_s__x K_substdio_putflush.set_a_wr__script K_substdio_putflush.set_a_wr__out K_substdio_putflush.v_buf K_substdio_putflush.v_len K_substdio_putflush.v__oob K_substdio_putflush.v_s__p K_substdio_putflush.v_s__fd K_substdio_putflush.v_wr__n K_substdio_putflush.a_buf K_substdio_putflush.a_s__x K_substdio_putflush.a_wr__script K_substdio_putflush.a_wr__out K_byte_copy.set_v_to K_byte_copy.set_v_n K_byte_copy.set_v_from K_byte_copy.set_v__oob K_byte_copy.set_a_to K_byte_copy.set_a_from K_byte_copy.v_to K_byte_copy.v_n K_byte_copy.v_from K_byte_copy.v__oob K_byte_copy.a_to K_byte_copy.a_from Z.lor].
Ltac is_call v := lazymatch v with
  | context [C_substdio_flush.run] => constr:(true) | context [C_allwrite.run] => constr:(true) | context [C_byte_copy.run] => constr:(true)
  | context [K_substdio_flush.run] => constr:(true) | context [K_allwrite.run] => constr:(true) | context [K_byte_copy.run] => constr:(true)
  | _ => constr:(false) end.
(* substitute the leading lets that are not calls: integers by their reduced value, states by a local definition of their reduced value *)
Ltac run_lets t :=
  lazymatch t with
  | (let x := ?v in @?b x) =>
      lazymatch is_call v with
      | true => t
      | false =>
          let v' := sd_red v in
          lazymatch type of v' with
          | Z => let t' := eval cbv beta in (b v') in run_lets t'
          | option _ => let t' := eval cbv beta in (b v') in run_lets t'
          | _ => let St := fresh "St" in
                 let _ := match goal with _ => pose (St := v') end in
                 let t' := eval cbv beta in (b St) in run_lets t'
          end
      end
  | _ => t
  end.
Ltac sd_lets := lazymatch goal with
  | |- ?P (obind ?t ?k) => let t' := run_lets t in change_no_check (P (obind t' k))
  | |- ?P ?t => let t' := run_lets t in change_no_check (P t')
  end.
Ltac st_let_zeta := lazymatch goal with
  | |- ?P (let x := ?v in @?b x) => change_no_check (P (b v)); cbv beta
  | |- ?P (obind (let x := ?v in @?b x) ?k) => change_no_check (P (obind (b v) k)); cbv beta
  end.
Ltac st_else := lazymatch goal with |- ?P (obind (if ?c then ?a else ?b) ?k) => change_no_check (P (obind b k)) end.
Ltac st_then := lazymatch goal with |- ?P (obind (if ?c then ?a else ?b) ?k) => change_no_check (P (obind a k)) end.
Ltac hide_all := repeat match goal with |- context [@obind ?T ?a ?k] =>
  lazymatch k with (fun _ => _) => let K := fresh "K" in set (K := k) end end.
Ltac show_next := match goal with |- context [obind (ONormal ?S) ?K] => is_var K; rewrite (obind_normal S K); subst K; cbv beta end.
(* reduce the value bound by the leading let (the arguments of a call) *)
Ltac sd_let_red := lazymatch goal with
  | |- ?P (let x := ?v in @?b x) => let v' := sd_red v in change_no_check (P (let x := v' in b x)); cbv beta
  | |- ?P (obind (let x := ?v in @?b x) ?k) => let v' := sd_red v in change_no_check (P (obind (let x := v' in b x) k)); cbv beta
  end.
Ltac sd_let := lazymatch goal with
  | |- ?P (let x := ?v in @?b x) => lazymatch is_call v with false => idtac end
  | |- ?P (obind (let x := ?v in @?b x) ?k) => lazymatch is_call v with false => idtac end
  end; sd_let_red; st_let_zeta.
Ltac sd_call H := rewrite H; sd_lets.

Lemma scr_len (script : list Z) (n : Z) (scr : wscript) : skipn (Z.to_nat n) script = map enc scr -> (length scr <= length script)%nat.
Proof. intros H. apply (f_equal (@length Z)) in H. rewrite skipn_length, map_length in H. lia. Qed.

Lemma aw_run fuel fd buf off data script out n scr mf ok acc scr' :
  (length scr < mf)%nat -> (length script + 2 <= fuel)%nat -> 0 <= n -> skipn (Z.to_nat n) script = map enc scr -> at_ buf off data ->
  Z.of_nat (length data) < 2 ^ 62 -> allwrite mf scr data = (ok, acc, scr') ->
  exists off' len' w' n' errno',
  C_allwrite.run fuel fd buf off (Z.of_nat (length data)) script out n = Some (ret ok, {| C_allwrite.v_fd := fd; C_allwrite.v_buf := off'; C_allwrite.v_len := len'; C_allwrite.v_w := w';
     C_allwrite.v_wr__n := n'; C_allwrite.v_errno := errno'; C_allwrite.a_buf := buf; C_allwrite.a_wr__script := script; C_allwrite.a_wr__out := out ++ zs acc |})
  /\ 0 <= n' /\ skipn (Z.to_nat n') script = map enc scr'.
Proof.
  intros Hmf Hfuel Hn Hscr Hat Hlen Hm. pose proof (scr_len _ _ _ Hscr) as Hsl.
  destruct (aw_loop fuel fd buf script scr mf data fuel off 0 n 0 out ok acc scr' Hmf ltac:(lia) Hn Hscr Hat Hlen Hm)
    as (off' & len' & w' & n' & errno' & HL & Hn' & Hs').
  exists off', len', w', n', errno'. split; [|split; assumption].
  unfold C_allwrite.run, C_allwrite.body. rewrite HL. destruct ok; reflexivity.
Qed.

Definition fl_post (V : Z) (Q : list Z -> Z -> Z -> list Z -> Prop) (fd : Z) (script : list Z) (o : outcome C_substdio_flush.st) : Prop :=
  match o with
  | OReturn v st => v = V /\ C_substdio_flush.v_s__fd st = fd /\ C_substdio_flush.a_wr__script st = script /\
      Q (C_substdio_flush.a_s__x st) (C_substdio_flush.v_s__p st) (C_substdio_flush.v_wr__n st) (C_substdio_flush.a_wr__out st)
  | _ => False end.

Lemma fl_body fuel b x p fd script n out vp : Rep b x p script n out -> Z.of_nat (o_cap b) < 2 ^ 30 -> (length script + 2 <= fuel)%nat ->
  fl_post (ret (fst (o_flush b))) (fun x' p' n' out' => Rep (snd (o_flush b)) x' p' script n' out') fd script
    (C_substdio_flush.body fuel {| C_substdio_flush.v_p := vp; C_substdio_flush.v_s__p := p; C_substdio_flush.v_s__fd := fd; C_substdio_flush.v_wr__n := n;
       C_substdio_flush.a_s__x := x; C_substdio_flush.a_wr__script := script; C_substdio_flush.a_wr__out := out |}).
Proof.
  intros HR Hcap Hfuel. pose proof HR as (Hx & Hpc & Hp & Hfx & Hn & Hscr & Hout).
  unfold o_flush. destruct (o_pend b) as [|c pd] eqn:Epend.
  - cbn [length Z.of_nat] in Hp. subst p. cbn [fst snd ret].
    cbv beta delta [C_substdio_flush.body]. sd_let. sd_let. hide_all. sd_simplz.
    change (0 =? 0) with true. cbn [b2z]. change (1 =? 0) with false. cbv iota.
    cbn [obind fl_post]. sd_simplz. split; [reflexivity|]. split; [reflexivity|]. split; [reflexivity|]. exact HR.
  - rewrite <- Epend in *. assert (Hp0 : 0 < p) by (rewrite Hp, Epend; cbn [length]; lia).
    unfold o_write. cbn [o_scr o_cap o_pend o_out o_copies].
    destruct (allwrite (aw_fuel (o_scr b) (o_pend b)) (o_scr b) (o_pend b)) as [[ok acc] scr'] eqn:Em. cbn [fst snd].
    destruct (aw_run fuel fd x 0 (o_pend b) script out n (o_scr b) (aw_fuel (o_scr b) (o_pend b)) ok acc scr' ltac:(unfold aw_fuel; lia) Hfuel Hn Hscr
                ltac:(split; [lia|exact Hfx]) ltac:(rewrite p30 in Hcap; rewrite p62; lia) Em) as (off' & len' & w' & n' & errno' & HA & Hn' & Hs').
    cbv beta delta [C_substdio_flush.body]. sd_let. sd_let. hide_all. sd_simplz.
    destruct (Z.eqb_spec p 0) as [E0|_]; [lia|]. cbn [b2z]. change (0 =? 0) with true. cbv iota. show_next.
    sd_let. sd_let. sd_let_red.
    rewrite wrapu64_small by (rewrite p30 in Hcap; lia). rewrite Hp.
    sd_call HA. cbn [fl_post]. sd_simplz. repeat split; try assumption; cbn [o_cap o_pend o_out o_scr length]; try lia.
    rewrite Hout, zs_app. reflexivity.
Qed.

(* ---------------------------------------------------------------- *)

Lemma fl_run_unfold f x p fd script out n : C_substdio_flush.run f x p fd script out n =
  match C_substdio_flush.body f {| C_substdio_flush.v_p := 0; C_substdio_flush.v_s__p := p; C_substdio_flush.v_s__fd := fd; C_substdio_flush.v_wr__n := n;
       C_substdio_flush.a_s__x := x; C_substdio_flush.a_wr__script := script; C_substdio_flush.a_wr__out := out |} with
  | OReturn v s => Some (v, s) | ONormal s => Some (0, s) | _ => None end.
Proof. reflexivity. Qed.

Lemma fl_run fuel b x p fd script n out : Rep b x p script n out -> Z.of_nat (o_cap b) < 2 ^ 30 -> (length script + 2 <= fuel)%nat ->
  exists vp x' p' n' out', C_substdio_flush.run fuel x p fd script out n = Some (ret (fst (o_flush b)),
    {| C_substdio_flush.v_p := vp; C_substdio_flush.v_s__p := p'; C_substdio_flush.v_s__fd := fd; C_substdio_flush.v_wr__n := n';
       C_substdio_flush.a_s__x := x'; C_substdio_flush.a_wr__script := script; C_substdio_flush.a_wr__out := out' |})
    /\ Rep (snd (o_flush b)) x' p' script n' out'.
Proof.
  intros HR Hcap Hfuel. rewrite fl_run_unfold. pose proof (fl_body fuel b x p fd script n out 0 HR Hcap Hfuel) as H.
  destruct (C_substdio_flush.body _ _) as [st|v st|st|st|]; try contradiction.
  destruct st as [vp p' fd' n' x' script' out'].
  cbn [fl_post C_substdio_flush.v_s__fd C_substdio_flush.a_wr__script C_substdio_flush.a_s__x C_substdio_flush.v_s__p C_substdio_flush.v_wr__n C_substdio_flush.a_wr__out] in H.
  destruct H as (-> & -> & -> & HR'). exists vp, x', p', n', out'. split; [reflexivity|exact HR'].
Qed.


(* allwrite on a state that represents b *)
Lemma write_rep fuel fd b x p script n out buf off data : Rep b x p script n out -> at_ buf off data -> Z.of_nat (length data) < 2 ^ 62 ->
  (length script + 2 <= fuel)%nat ->
  exists off' len' w' n' errno' out',
  C_allwrite.run fuel fd buf off (Z.of_nat (length data)) script out n = Some (ret (fst (o_write b data)),
    {| C_allwrite.v_fd := fd; C_allwrite.v_buf := off'; C_allwrite.v_len := len'; C_allwrite.v_w := w';
       C_allwrite.v_wr__n := n'; C_allwrite.v_errno := errno'; C_allwrite.a_buf := buf; C_allwrite.a_wr__script := script; C_allwrite.a_wr__out := out' |})
  /\ Rep (snd (o_write b data)) x p script n' out'.
Proof.
  intros (Hx & Hpc & Hp & Hfx & Hn & Hscr & Hout) Hat Hlen Hfuel. unfold o_write.
  destruct (allwrite (aw_fuel (o_scr b) data) (o_scr b) data) as [[ok acc] scr'] eqn:Em. cbn [fst snd].
  destruct (aw_run fuel fd buf off data script out n (o_scr b) (aw_fuel (o_scr b) data) ok acc scr' ltac:(unfold aw_fuel; lia) Hfuel Hn Hscr Hat Hlen Em)
    as (off' & len' & w' & n' & errno' & HA & Hn' & Hs').
  exists off', len', w', n', errno', (out ++ zs acc). split; [exact HA|].
  repeat split; cbn [o_cap o_pend o_out o_scr]; try assumption. rewrite Hout, zs_app. reflexivity.
Qed.

Definition pf_post (V : Z) (Q : list Z -> Z -> Z -> list Z -> Prop) (o : outcome C_substdio_putflush.st) : Prop :=
  match o with
  | OReturn v st => v = V /\ Q (C_substdio_putflush.a_s__x st) (C_substdio_putflush.v_s__p st) (C_substdio_putflush.v_wr__n st) (C_substdio_putflush.a_wr__out st)
  | _ => False end.

Lemma at_zs data : at_ (zs data) 0 data.
Proof. split; [lia|]. change (Z.to_nat 0) with 0%nat. cbn [skipn]. apply firstn_all2. rewrite zs_length. lia. Qed.

Lemma pf_body fuel b x p fd script n out data : Rep b x p script n out -> Z.of_nat (o_cap b) < 2 ^ 30 -> Z.of_nat (length data) < 2 ^ 30 -> (length script + 2 <= fuel)%nat ->
  pf_post (ret (fst (o_putflush b data))) (fun x' p' n' out' => Rep (snd (o_putflush b data)) x' p' script n' out')
    (C_substdio_putflush.body fuel {| C_substdio_putflush.v_buf := 0; C_substdio_putflush.v_len := Z.of_nat (length data); C_substdio_putflush.v_s__p := p;
       C_substdio_putflush.v_s__fd := fd; C_substdio_putflush.v_wr__n := n; C_substdio_putflush.a_buf := zs data; C_substdio_putflush.a_s__x := x;
       C_substdio_putflush.a_wr__script := script; C_substdio_putflush.a_wr__out := out |}).
Proof.
  intros HR Hcap Hlen Hfuel. rewrite p30 in *.
  destruct (fl_run fuel b x p fd script n out HR ltac:(rewrite p30; exact Hcap) Hfuel) as (vp & x1 & p1 & n1 & out1 & HF & HR1).
  unfold o_putflush. destruct (o_flush b) as [ok b1]. cbn [fst snd] in HF, HR1.
  destruct (write_rep fuel fd b1 x1 p1 script n1 out1 (zs data) 0 data HR1 (at_zs data) ltac:(rewrite p62; lia) Hfuel)
    as (off' & len' & w' & n' & errno' & out' & HA & HR2).
  destruct (o_write b1 data) as [ok2 b2]. cbn [fst snd] in HA, HR2.
  cbv beta delta [C_substdio_putflush.body]. sd_let_red. sd_call HF. hide_all. sd_simplz. rewrite m1_32.
  destruct ok; cbn [negb ret fst snd].
  - change (0 =? -1) with false. cbn [b2z]. change (0 =? 0) with true. cbv iota. show_next.
    sd_let_red. sd_call HA. cbn [pf_post]. sd_simplz. split; [reflexivity|exact HR2].
  - change (-1 =? -1) with true. cbn [b2z]. change (1 =? 0) with false. cbv iota. cbn [obind pf_post]. sd_simplz. split; [reflexivity|exact HR1].
Qed.


Theorem gen_substdio_flush_sim : forall b x p fd script n out fuel, Rep b x p script n out -> good b [] -> enough fuel b script [] ->
  exists v st, C_substdio_flush.run fuel x p fd script out n = Some (v, st) /\ v = ret (fst (o_flush b)) /\
    Rep (snd (o_flush b)) (C_substdio_flush.a_s__x st) (C_substdio_flush.v_s__p st) script (C_substdio_flush.v_wr__n st) (C_substdio_flush.a_wr__out st).
Proof.
  intros b x p fd script n out fuel HR (_ & _ & _ & Hcap & _) Hen. unfold enough in Hen.
  destruct (fl_run fuel b x p fd script n out HR Hcap ltac:(lia)) as (vp & x' & p' & n' & out' & H & HR').
  eexists _, _. split; [exact H|]. split; [reflexivity|exact HR'].
Qed.

(* ---------------------------------------------------------------- *)

Ltac loop_body := lazymatch goal with |- ?P (match ?B with _ => _ end) => pattern B; lazymatch goal with |- ?F B => let LK := fresh "LK" in set (LK := F) end end.

Ltac sd_if_red := lazymatch goal with |- ?P (if ?c then ?a else ?b) => let c' := sd_red c in change_no_check (P (if c' then a else b)) end.
Lemma at_prefix buf off data w : at_ buf off data -> (w <= length data)%nat -> at_ buf off (firstn w data).
Proof. intros Hat Hw. split; [apply Hat|]. rewrite firstn_length_le by exact Hw. apply at_firstn; assumption. Qed.

Definition pl_res (ok2 : bool) (rest' : bytes) (b2 : obuf) (fd capz p : Z) (abuf x script : list Z) (o : outcome C_substdio_put.st) : Prop :=
  exists off' len' vn' n' out', o = (if ok2 then ONormal else OReturn (-1))
    {| C_substdio_put.v_buf := off'; C_substdio_put.v_len := len'; C_substdio_put.v_n := vn'; C_substdio_put.v_s__n := capz;
       C_substdio_put.v_s__p := p; C_substdio_put.v_s__fd := fd; C_substdio_put.v_wr__n := n'; C_substdio_put.a_buf := abuf; C_substdio_put.a_s__x := x;
       C_substdio_put.a_wr__script := script; C_substdio_put.a_wr__out := out' |}
    /\ Rep b2 x p script n' out' /\ (ok2 = true -> len' = Z.of_nat (length rest') /\ at_ abuf off' rest' /\ (length rest' <= o_cap b2)%nat).

Lemma pl_loop (f0 : nat) (fd capz p : Z) (abuf x script : list Z) : (length script + 2 <= f0)%nat -> capz < 2 ^ 30 ->
  forall (mf : nat) (b : obuf) (nn : nat) (rest : bytes) (fuel : nat) (off n : Z) (out : list Z) ok2 b2 rest',
  capz = Z.of_nat (o_cap b) -> Rep b x p script n out -> at_ abuf off rest -> (1 <= nn)%nat -> Z.of_nat nn < 2 ^ 32 -> Z.of_nat (length rest) < 2 ^ 30 ->
  (length rest < mf)%nat -> (length rest < fuel)%nat ->
  put_direct mf b nn rest = (ok2, b2, rest') ->
  pl_res ok2 rest' b2 fd capz p abuf x script
    (C_substdio_put.loop1 f0 fuel {| C_substdio_put.v_buf := off; C_substdio_put.v_len := Z.of_nat (length rest); C_substdio_put.v_n := Z.of_nat nn;
       C_substdio_put.v_s__n := capz; C_substdio_put.v_s__p := p; C_substdio_put.v_s__fd := fd; C_substdio_put.v_wr__n := n; C_substdio_put.a_buf := abuf;
       C_substdio_put.a_s__x := x; C_substdio_put.a_wr__script := script; C_substdio_put.a_wr__out := out |}).
Proof.
  intros Hf0 Hcap. rewrite p30 in Hcap.
  induction mf as [|mf IH]; intros b nn rest fuel off n out ok2 b2 rest' Ecap HR Hat Hnn Hnn32 Hlen Hmf Hfuel Hm; [lia|].
  destruct fuel as [|fuel]; [lia|]. rewrite p30 in Hlen. rewrite p32 in Hnn32.
  cbn [put_direct] in Hm.
  cbn beta iota delta [C_substdio_put.loop1]. sd_if_red.
  rewrite (wrapu32_small capz), (wrapu64_small capz) by lia.
  destruct (Nat.ltb_spec (o_cap b) (length rest)) as [Hgt|Hle].
  2:{ injection Hm as <- <- <-.
      destruct (Z.gtb_spec (Z.of_nat (length rest)) capz) as [Hc|_]; [lia|]. cbn [b2z]. change (0 =? 0) with true. cbv iota.
      eexists _, _, _, _, _. split; [reflexivity|]. split; [exact HR|]. intros _. repeat split; try apply Hat; try lia. }
  destruct (Z.gtb_spec (Z.of_nat (length rest)) capz) as [_|Hc]; [|lia]. change (b2z true =? 0) with false. cbv iota.
  loop_body. hide_all. sd_simplz. cbv zeta in Hm.
  set (nn' := Nat.min nn (length rest)) in *.
  assert (Hnn' : (nn' <= length rest)%nat) by (subst nn'; lia).
  assert (Hnn1 : (1 <= nn')%nat) by (subst nn'; lia).
  assert (Hat1 : at_ abuf off (firstn nn' rest)) by (apply at_prefix; assumption).
  assert (Hl1 : length (firstn nn' rest) = nn') by (apply firstn_length_le; exact Hnn').
  destruct (write_rep f0 fd b x p script n out abuf off (firstn nn' rest) HR Hat1 ltac:(rewrite Hl1, p62; lia) Hf0)
    as (off1 & len1 & w1 & n1 & errno1 & out1 & HA & HR1).
  destruct (o_write b (firstn nn' rest)) as [ok1 b1] eqn:Ew. cbn [fst snd] in HA, HR1.
  pose proof (o_write_spec _ _ _ _ Ew) as (Hcap1 & _). rewrite Hl1 in HA.
  match goal with |- LK (obind (if ?c then ONormal ?A else ONormal ?B) K) =>
    assert (Hsel : (if c then ONormal A else ONormal B) = ONormal {| C_substdio_put.v_buf := off; C_substdio_put.v_len := Z.of_nat (length rest); C_substdio_put.v_n := Z.of_nat nn';
       C_substdio_put.v_s__n := capz; C_substdio_put.v_s__p := p; C_substdio_put.v_s__fd := fd; C_substdio_put.v_wr__n := n; C_substdio_put.a_buf := abuf;
       C_substdio_put.a_s__x := x; C_substdio_put.a_wr__script := script; C_substdio_put.a_wr__out := out |}) end.
  { rewrite (wrapu64_small (Z.of_nat nn)) by lia.
    destruct (Z.gtb_spec (Z.of_nat nn) (Z.of_nat (length rest))) as [Hc|Hc].
    - change (b2z true =? 0) with false. cbv iota. rewrite wrapu32_small by lia. do 2 f_equal. subst nn'. lia.
    - change (b2z false =? 0) with true. cbv iota. do 2 f_equal. subst nn'. lia. }
  rewrite Hsel. clear Hsel. show_next.
  sd_let_red. rewrite (wrapu64_small (Z.of_nat nn')) by lia. sd_call HA. hide_all. sd_simplz. rewrite m1_32.
  destruct ok1; cbn [ret].
  - change (b2z (0 =? -1) =? 0) with true. cbv iota. show_next. sd_simplz. subst LK. cbv beta iota.
    rewrite sub64 by (rewrite ?p62; lia).
    replace (Z.of_nat (length rest) - Z.of_nat nn') with (Z.of_nat (length (skipn nn' rest))) by (rewrite skipn_length; lia).
    apply IH with (b := b1) (nn := nn'); try assumption; try lia;
      first [rewrite Hcap1; exact Ecap | apply at_skipn; assumption | rewrite skipn_length; lia].
  - change (b2z (-1 =? -1) =? 0) with false. cbv iota. cbn [obind]. subst LK. cbv beta iota.
    injection Hm as <- <- <-. eexists _, _, _, _, _. split; [reflexivity|]. split; [exact HR1|]. discriminate.
Qed.

(* ---------------------------------------------------------------- *)

Lemma firstn_app_exact {A} (L R : list A) n : length L = n -> firstn n (L ++ R) = L.
Proof. intros <-. rewrite firstn_app, Nat.sub_diag, firstn_all. cbn [firstn]. apply app_nil_r. Qed.

Lemma copy_rep fuel b x p script n out abuf off chunk : Rep b x p script n out -> (length (o_pend b) + length chunk <= o_cap b)%nat -> at_ abuf off chunk ->
  (forall i, 0 <= MiniC.rd abuf i < 256) -> Z.of_nat (length chunk) < 2 ^ 32 -> (length chunk < fuel)%nat ->
  exists t' n' f' x', C_byte_copy.run fuel x (0 + p) (Z.of_nat (length chunk)) abuf off
     = Some (0, {| C_byte_copy.v_to := t'; C_byte_copy.v_n := n'; C_byte_copy.v_from := f'; C_byte_copy.a_to := x'; C_byte_copy.a_from := abuf |})
  /\ Rep (o_copy b chunk) x' (p + Z.of_nat (length chunk)) script n out.
Proof.
  intros (Hx & Hpc & Hp & Hfx & Hn & Hscr & Hout) Hfit Hat Hrd Hk32 Hfuel. rewrite p32 in Hk32.
  unfold C_byte_copy.run, C_byte_copy.body.
  destruct (Gen_strings.bcp_loop fuel abuf Hrd fuel (length chunk) (0 + p) off x Hfuel Hk32) as (t' & n' & f' & HL). rewrite HL.
  eexists _, _, _, _. split; [reflexivity|].
  destruct chunk as [|c ch].
  - cbn [zcopy length Z.of_nat]. unfold o_copy. rewrite Z.add_0_r.
    repeat split; cbn [o_cap o_pend o_out o_scr]; rewrite ?app_nil_r; assumption.
  - remember (c :: ch) as chunk eqn:Ec. assert (Hk : (0 < length chunk)%nat) by (subst chunk; cbn [length]; lia). clear Ec c ch.
    destruct Hat as [Hoff Hat]. set (o := Z.to_nat off) in *. set (pl := length (o_pend b)) in *.
    assert (HLs : length (firstn (length chunk) (skipn o abuf)) = length chunk) by (rewrite Hat; apply zs_length).
    rewrite firstn_length, skipn_length in HLs.
    pose proof (zcopy_spec (length chunk) (firstn pl x) (skipn pl x) (firstn o abuf) (skipn o abuf)
                  ltac:(rewrite skipn_length; lia) ltac:(rewrite skipn_length; lia)) as HZ.
    rewrite !firstn_skipn in HZ. rewrite !firstn_length_le in HZ by lia.
    replace (0 + p) with (Z.of_nat pl) by lia. replace off with (Z.of_nat o) by lia. rewrite HZ, Hat, Hfx.
    unfold o_copy. repeat split; cbn [o_cap o_pend o_out o_scr]; try assumption.
    + rewrite !app_length, !zs_length, !skipn_length. fold pl. lia.
    + rewrite app_length. fold pl. lia.
    + rewrite app_length. fold pl. lia.
    + rewrite app_assoc, <- zs_app. apply firstn_app_exact. rewrite zs_length. reflexivity.
Qed.

Lemma OUTSIZE_Z : Z.of_nat OUTSIZE = 8192. Proof. reflexivity. Qed.
Local Opaque OUTSIZE.

Definition pt_post (V : Z) (Q : list Z -> Z -> Z -> list Z -> Prop) (o : outcome C_substdio_put.st) : Prop :=
  match o with
  | OReturn v st => v = V /\ Q (C_substdio_put.a_s__x st) (C_substdio_put.v_s__p st) (C_substdio_put.v_wr__n st) (C_substdio_put.a_wr__out st)
  | _ => False end.

Ltac sd_cond_red := lazymatch goal with |- ?P (obind (if ?c then ?a else ?b) ?k) => let c' := sd_red c in change_no_check (P (obind (if c' then a else b) k)) end.
Ltac push_k := lazymatch goal with |- ?P (obind (obind ?a ?k0) ?k) => let P' := fresh "PK" in set (P' := fun o => P (obind o k)); change_no_check (P' (obind a k0)) end.

Lemma pt_body fuel b x p fd script n out data : Rep b x p script n out -> good b data -> enough fuel b script data ->
  pt_post (ret (fst (o_put b data))) (fun x' p' n' out' => Rep (snd (o_put b data)) x' p' script n' out')
    (C_substdio_put.body fuel {| C_substdio_put.v_buf := 0; C_substdio_put.v_len := Z.of_nat (length data); C_substdio_put.v_n := 0;
       C_substdio_put.v_s__n := Z.of_nat (o_cap b); C_substdio_put.v_s__p := p; C_substdio_put.v_s__fd := fd; C_substdio_put.v_wr__n := n;
       C_substdio_put.a_buf := zs data; C_substdio_put.a_s__x := x; C_substdio_put.a_wr__script := script; C_substdio_put.a_wr__out := out |}).
Proof.
  intros HR (Hdok & _ & Hcap0 & Hcap & Hlen) Hen. unfold enough in Hen. pose proof HR as (Hx & Hpc & Hp & Hfx & Hn & Hscr & Hout).
  pose proof (Gen_strings.rd_range _ (Gen_strings.zs_ok _ Hdok)) as Hrd.
  assert (Hcap' := Hcap). assert (Hlen' := Hlen). rewrite p30 in Hcap', Hlen'.
  cbv beta delta [C_substdio_put.body]. sd_let. hide_all. sd_cond_red.
  rewrite (wrapu32_small (Z.of_nat (o_cap b))), (wrapu32_small p) by lia.
  rewrite (wrapu32_small (Z.of_nat (o_cap b) - p)), (wrapu64_small (Z.of_nat (o_cap b) - p)) by lia.
  destruct (Nat.ltb_spec (o_cap b - length (o_pend b)) (length data)) as [Hbig|Hfit].
  - (* flush, write directly, copy the rest *)
    destruct (Z.gtb_spec (Z.of_nat (length data)) (Z.of_nat (o_cap b) - p)) as [_|Hc]; [|lia]. change (b2z true =? 0) with false. cbv iota.
    destruct (fl_run fuel b x p fd script n out HR Hcap ltac:(lia)) as (vp & x1 & p1 & n1 & out1 & HF & HR1).
    destruct (o_flush b) as [ok b1] eqn:Efl. cbn [fst snd] in HF, HR1.
    pose proof (o_flush_spec _ _ _ Efl) as (Hcap1 & Hpend1 & _).
    assert (Hp1 : p1 = 0) by (destruct HR1 as (_ & _ & Hp1 & _); rewrite Hpend1 in Hp1; exact Hp1). subst p1.
    push_k. sd_let_red. sd_call HF. sd_cond_red. rewrite m1_32.
    destruct ok; cbn [ret].
    + change (b2z (0 =? -1) =? 0) with true. cbv iota. show_next. hide_all. sd_simplz.
      change (wrapu 32 8192) with 8192.
      set (nn := Nat.max (o_cap b) OUTSIZE).
      assert (Hnn1 : (1 <= nn)%nat) by (pose proof OUTSIZE_pos; subst nn; lia).
      assert (HnnZ : Z.of_nat nn = Z.max (Z.of_nat (o_cap b)) 8192) by (subst nn; rewrite Nat2Z.inj_max, OUTSIZE_Z; reflexivity).
      match goal with |- PK (obind (if ?c then ONormal ?A else ONormal ?B) ?K0) =>
        assert (Hsel : (if c then ONormal A else ONormal B) = ONormal {| C_substdio_put.v_buf := 0; C_substdio_put.v_len := Z.of_nat (length data); C_substdio_put.v_n := Z.of_nat nn;
           C_substdio_put.v_s__n := Z.of_nat (o_cap b); C_substdio_put.v_s__p := 0; C_substdio_put.v_s__fd := fd; C_substdio_put.v_wr__n := n1; C_substdio_put.a_buf := zs data;
           C_substdio_put.a_s__x := x1; C_substdio_put.a_wr__script := script; C_substdio_put.a_wr__out := out1 |}) end.
      { destruct (Z.ltb_spec (Z.of_nat (o_cap b)) 8192) as [Hc|Hc].
        - change (b2z true =? 0) with false. cbv iota. do 2 f_equal. lia.
        - change (b2z false =? 0) with true. cbv iota. do 2 f_equal. lia. }
      rewrite Hsel. clear Hsel. show_next.
      destruct (put_direct (S (length data)) b1 nn data) as [[ok2 b2] rest'] eqn:Epd.
      pose proof (pl_loop fuel fd (Z.of_nat (o_cap b)) 0 (zs data) x1 script ltac:(lia) Hcap (S (length data)) b1 nn data fuel 0 n1 out1 ok2 b2 rest'
                    ltac:(rewrite Hcap1; reflexivity) HR1 (at_zs data) Hnn1 ltac:(rewrite p32; lia) Hlen ltac:(lia) ltac:(lia) Epd)
        as (off' & len' & vn' & n2 & out2 & HL & HR2 & Hok2).
      rewrite HL. destruct ok2.
      * destruct (Hok2 eq_refl) as (-> & Hat2 & Hle2). pose proof (put_direct_spec (S (length data)) b1 nn data true b2 rest' Hnn1 ltac:(lia) Epd) as (Hcap2 & _).
        assert (Hpl2 : length (o_pend b2) = 0%nat) by (destruct HR2 as (_ & _ & Hp2 & _); lia).
        subst PK. cbv beta. show_next.
        destruct (copy_rep fuel b2 x1 0 script n2 out2 (zs data) off' rest' HR2 ltac:(lia) Hat2 Hrd ltac:(rewrite p32; lia) ltac:(lia))
          as (t' & cn' & f' & x2 & HC & HR3).
        assert (Eo : o_put b data = (true, o_copy b2 rest'))
          by (unfold o_put; rewrite (proj2 (Nat.ltb_lt _ _) Hbig), Efl; cbn [negb]; fold nn; rewrite Epd; reflexivity).
        sd_let_red. sd_call HC. cbv beta iota delta [pt_post]. sd_simplz. rewrite Eo. cbn [fst snd ret]. split; [reflexivity|].
        rewrite (wrapu64_small 0), (wrapu64_small (0 + _)), wraps32_small by lia. exact HR3.
      * assert (Eo : o_put b data = (false, b2))
          by (unfold o_put; rewrite (proj2 (Nat.ltb_lt _ _) Hbig), Efl; cbn [negb]; fold nn; rewrite Epd; reflexivity).
        subst PK. cbv beta. rewrite !obind_return. cbv beta iota delta [pt_post]. sd_simplz. rewrite Eo. split; [reflexivity|exact HR2].
    + assert (Eo : o_put b data = (false, b1)) by (unfold o_put; rewrite (proj2 (Nat.ltb_lt _ _) Hbig), Efl; reflexivity).
      change (b2z (-1 =? -1) =? 0) with false. cbv iota. subst PK. cbv beta. rewrite !obind_return. cbv beta iota delta [pt_post]. sd_simplz.
      rewrite Eo. split; [reflexivity|exact HR1].
  - destruct (Z.gtb_spec (Z.of_nat (length data)) (Z.of_nat (o_cap b) - p)) as [Hc|_]; [lia|]. change (b2z false =? 0) with true. cbv iota.
    show_next.
    assert (Eo : o_put b data = (true, o_copy b data)) by (unfold o_put; rewrite (proj2 (Nat.ltb_ge _ _) Hfit); reflexivity).
    destruct (copy_rep fuel b x p script n out (zs data) 0 data HR ltac:(lia) (at_zs data) Hrd ltac:(rewrite p32; lia) ltac:(lia))
      as (t' & cn' & f' & x2 & HC & HR3).
    sd_let_red. sd_call HC. cbv beta iota delta [pt_post]. sd_simplz. rewrite Eo. cbn [fst snd ret]. split; [reflexivity|].
    rewrite (wrapu64_small p), (wrapu64_small (p + _)), wraps32_small by lia. exact HR3.
Qed.


Theorem gen_substdio_put_sim : forall b x p fd script n out fuel data, Rep b x p script n out -> good b data -> enough fuel b script data ->
  exists v st, C_substdio_put.run fuel x (Z.of_nat (o_cap b)) p fd (zs data) 0 (Z.of_nat (length data)) script out n = Some (v, st) /\ v = ret (fst (o_put b data)) /\
    Rep (snd (o_put b data)) (C_substdio_put.a_s__x st) (C_substdio_put.v_s__p st) script (C_substdio_put.v_wr__n st) (C_substdio_put.a_wr__out st).
Proof.
  intros b x p fd script n out fuel data HR Hg Hen.
  pose proof (pt_body fuel b x p fd script n out data HR Hg Hen) as H.
  unfold C_substdio_put.run.
  destruct (C_substdio_put.body _ _) as [st|v st|st|st|]; try contradiction.
  destruct H as [Hv HR']. eexists _, _. split; [reflexivity|]. split; [exact Hv|exact HR'].
Qed.

(* ---------------------------------------------------------------- *)

Lemma sel_else {A} (P : A -> Prop) (c : bool) (a b : A) : c = false -> P b -> P (if c then a else b).
Proof. intros ->. exact (fun H => H). Qed.
Lemma sel_then {A} (P : A -> Prop) (c : bool) (a b : A) : c = true -> P a -> P (if c then a else b).
Proof. intros ->. exact (fun H => H). Qed.
Lemma sel_else_bind {S} (P : outcome S -> Prop) (c : bool) (a b : outcome S) k : c = false -> P (obind b k) -> P (obind (if c then a else b) k).
Proof. intros ->. exact (fun H => H). Qed.
Lemma sel_then_bind {S} (P : outcome S -> Prop) (c : bool) (a b : outcome S) k : c = true -> P (obind a k) -> P (obind (if c then a else b) k).
Proof. intros ->. exact (fun H => H). Qed.
(* decide the leading conditional without converting the rest of the goal: the first subgoal is the value of the condition *)
Ltac pick_else := lazymatch goal with
  | |- ?P (obind (if ?c then ?a else ?b) ?k) => refine (sel_else_bind P c a b k _ _); [sd_simplz|]
  | |- ?P (if ?c then ?a else ?b) => refine (sel_else P c a b _ _); [sd_simplz|] end.
Ltac pick_then := lazymatch goal with
  | |- ?P (obind (if ?c then ?a else ?b) ?k) => refine (sel_then_bind P c a b k _ _); [sd_simplz|]
  | |- ?P (if ?c then ?a else ?b) => refine (sel_then P c a b _ _); [sd_simplz|] end.
(* the leading let binds a call: rewrite it by the right-hand side of HC; the first subgoal is the call with reduced arguments = that right-hand side *)
Ltac call_by HC := lazymatch type of HC with _ = ?rhs =>
  lazymatch goal with
  | |- ?P (let x := ?v in @?b x) => let HX := fresh "HX" in assert (HX : v = rhs); [sd_simplz | rewrite HX; clear HX; sd_lets]
  | |- ?P (obind (let x := ?v in @?b x) ?k) => let HX := fresh "HX" in assert (HX : v = rhs); [sd_simplz | rewrite HX; clear HX; sd_lets]
  end end.
(* one unfolding of a loop on a named state, the leading lets run *)
Ltac loop_step L := lazymatch goal with |- ?P (L ?f0 (S ?f) ?s) =>
  let t0 := eval cbn beta iota delta [L] in (L f0 (S f) s) in let t1 := run_lets t0 in change_no_check (P t1) end.

Definition bl_res (mf : nat) (b : obuf) (rest : bytes) (capz fd : Z) (abuf script : list Z) (o : outcome C_substdio_bput.st) : Prop :=
  (exists b' rest' off' vn' p' n' out' x',
     o = ONormal {| C_substdio_bput.v_buf := off'; C_substdio_bput.v_len := Z.of_nat (length rest'); C_substdio_bput.v_n := vn'; C_substdio_bput.v_s__n := capz;
       C_substdio_bput.v_s__p := p'; C_substdio_bput.v_s__fd := fd; C_substdio_bput.v_wr__n := n'; C_substdio_bput.a_buf := abuf; C_substdio_bput.a_s__x := x';
       C_substdio_bput.a_wr__script := script; C_substdio_bput.a_wr__out := out' |}
     /\ Rep b' x' p' script n' out' /\ at_ abuf off' rest' /\ (length (o_pend b') + length rest' <= o_cap b')%nat /\ o_cap b' = o_cap b
     /\ o_bput_loop mf b rest = (true, o_copy b' rest'))
  \/ (exists b' off' len' vn' p' n' out' x',
     o = OReturn (-1) {| C_substdio_bput.v_buf := off'; C_substdio_bput.v_len := len'; C_substdio_bput.v_n := vn'; C_substdio_bput.v_s__n := capz;
       C_substdio_bput.v_s__p := p'; C_substdio_bput.v_s__fd := fd; C_substdio_bput.v_wr__n := n'; C_substdio_bput.a_buf := abuf; C_substdio_bput.a_s__x := x';
       C_substdio_bput.a_wr__script := script; C_substdio_bput.a_wr__out := out' |}
     /\ Rep b' x' p' script n' out' /\ o_bput_loop mf b rest = (false, b')).

Lemma bl_loop (f0 : nat) (fd capz : Z) (abuf script : list Z) : (length script + 2 <= f0)%nat -> capz < 2 ^ 30 -> (Z.to_nat capz < f0)%nat ->
  (forall i, 0 <= MiniC.rd abuf i < 256) ->
  forall (mf : nat) (b : obuf) (rest : bytes) (fuel : nat) (x : list Z) (p off n vn : Z) (out : list Z),
  capz = Z.of_nat (o_cap b) -> (0 < o_cap b)%nat -> Rep b x p script n out -> at_ abuf off rest -> Z.of_nat (length rest) < 2 ^ 30 ->
  ((length rest + 2 <= mf)%nat \/ (length rest + 1 <= mf /\ length (o_pend b) < o_cap b)%nat) ->
  ((length rest + 2 <= fuel)%nat \/ (length rest + 1 <= fuel /\ length (o_pend b) < o_cap b)%nat) ->
  bl_res mf b rest capz fd abuf script
    (C_substdio_bput.loop1 f0 fuel {| C_substdio_bput.v_buf := off; C_substdio_bput.v_len := Z.of_nat (length rest); C_substdio_bput.v_n := vn;
       C_substdio_bput.v_s__n := capz; C_substdio_bput.v_s__p := p; C_substdio_bput.v_s__fd := fd; C_substdio_bput.v_wr__n := n; C_substdio_bput.a_buf := abuf;
       C_substdio_bput.a_s__x := x; C_substdio_bput.a_wr__script := script; C_substdio_bput.a_wr__out := out |}).
Proof.
  intros Hf0 Hcap Hf0c Hrd. rewrite p30 in Hcap.
  induction mf as [|mf IH]; intros b rest fuel x p off n vn out Ecap Hcap0 HR Hat Hlen Hmf Hfuel; [lia|].
  destruct fuel as [|fuel]; [lia|]. rewrite p30 in Hlen.
  pose proof HR as (Hx & Hpc & Hp & Hfx & Hn & Hscr & Hout).
  set (nn := (o_cap b - length (o_pend b))%nat).
  assert (HnnZ : capz - p = Z.of_nat nn) by (subst nn; lia).
  assert (Hx1 : wrapu 32 (wraps 32 (capz - p)) = Z.of_nat nn) by (rewrite wraps32_small, wrapu32_small; lia).
  match goal with |- bl_res _ _ _ _ _ _ _ (C_substdio_bput.loop1 _ _ ?s) => set (St0 := s) end.
  loop_step C_substdio_bput.loop1.
  destruct (Nat.ltb_spec nn (length rest)) as [Hbig|Hfit].
  2:{ pick_then.
      { rewrite Hx1, wrapu64_small by lia. destruct (Z.gtb_spec (Z.of_nat (length rest)) (Z.of_nat nn)) as [Hc|_]; [lia|reflexivity]. }
      open_states.
      left. exists b, rest. eexists _, _, _, _, _, _. split; [reflexivity|]. split; [exact HR|]. split; [exact Hat|]. split; [subst nn; lia|].
      split; [reflexivity|]. cbn [o_bput_loop]. fold nn. rewrite (proj2 (Nat.ltb_ge _ _) Hfit). reflexivity. }
  assert (Hl1 : length (firstn nn rest) = nn) by (apply firstn_length_le; lia).
  destruct (copy_rep f0 b x p script n out abuf off (firstn nn rest) HR ltac:(rewrite Hl1; subst nn; lia) ltac:(apply at_prefix; [exact Hat|lia]) Hrd
              ltac:(rewrite Hl1, p32; lia) ltac:(rewrite Hl1; lia)) as (t' & cn' & f' & xc & HC & HRc).
  rewrite Hl1 in HC, HRc.
  destruct (fl_run f0 (o_copy b (firstn nn rest)) xc (p + Z.of_nat nn) fd script n out HRc ltac:(cbn [o_copy o_cap]; rewrite p30; lia) Hf0)
    as (vp & x1 & p1 & n1 & out1 & HF & HR1).
  destruct (o_flush (o_copy b (firstn nn rest))) as [ok b1] eqn:Efl. cbn [fst snd] in HF, HR1.
  pose proof (o_flush_spec _ _ _ Efl) as (Hcap1 & Hpend1 & _). cbn [o_copy o_cap] in Hcap1.
  assert (Estep : o_bput_loop (S mf) b rest = if ok then o_bput_loop mf b1 (skipn nn rest) else (false, b1))
    by (cbn [o_bput_loop]; fold nn; rewrite (proj2 (Nat.ltb_lt _ _) Hbig), Efl; reflexivity).
  pick_else.
  { rewrite Hx1, wrapu64_small by lia. destruct (Z.gtb_spec (Z.of_nat (length rest)) (Z.of_nat nn)) as [_|Hc]; [reflexivity|lia]. }
  loop_body.
  call_by HC. { rewrite Hx1. exact HC. }
  call_by HF. { rewrite Hx1, (wrapu32_small p), (wrapu32_small (p + _)), (wraps32_small (p + _)) by lia. exact HF. }
  rewrite m1_32.
  destruct ok; cbn [ret].
  - pick_then; [reflexivity|]. subst LK. cbv beta iota. open_states.
    rewrite Hx1, sub64 by (rewrite ?p62; lia).
    replace (Z.of_nat (length rest) - Z.of_nat nn) with (Z.of_nat (length (skipn nn rest))) by (rewrite skipn_length; lia).
    assert (HI : bl_res mf b1 (skipn nn rest) capz fd abuf script
       (C_substdio_bput.loop1 f0 fuel {| C_substdio_bput.v_buf := off + Z.of_nat nn; C_substdio_bput.v_len := Z.of_nat (length (skipn nn rest)); C_substdio_bput.v_n := Z.of_nat nn;
         C_substdio_bput.v_s__n := capz; C_substdio_bput.v_s__p := p1; C_substdio_bput.v_s__fd := fd; C_substdio_bput.v_wr__n := n1; C_substdio_bput.a_buf := abuf;
         C_substdio_bput.a_s__x := x1; C_substdio_bput.a_wr__script := script; C_substdio_bput.a_wr__out := out1 |})).
    { apply IH; try assumption.
      - rewrite Hcap1. exact Ecap.
      - rewrite Hcap1. exact Hcap0.
      - apply at_skipn; [exact Hat|lia].
      - rewrite skipn_length, p30. lia.
      - right. rewrite skipn_length, Hpend1, Hcap1. cbn [length]. subst nn. lia.
      - right. rewrite skipn_length, Hpend1, Hcap1. cbn [length]. subst nn. lia. }
    destruct HI as [(b' & rest' & off' & vn' & p' & n' & out' & x' & HL & HR' & Hat' & Hfit' & Hcap' & Em)
                   |(b' & off' & len' & vn' & p' & n' & out' & x' & HL & HR' & Em)]; rewrite HL.
    + left. exists b', rest', off', vn', p', n', out', x'. split; [reflexivity|]. split; [exact HR'|]. split; [exact Hat'|]. split; [exact Hfit'|].
      split; [congruence|]. rewrite Estep. exact Em.
    + right. exists b', off', len', vn', p', n', out', x'. split; [reflexivity|]. split; [exact HR'|]. rewrite Estep. exact Em.
  - pick_else; [reflexivity|]. subst LK. cbv beta iota. open_states.
    right. exists b1. eexists _, _, _, _, _, _, _. split; [reflexivity|]. split; [exact HR1|exact Estep].
Qed.

Definition bb_post (V : Z) (Q : list Z -> Z -> Z -> list Z -> Prop) (o : outcome C_substdio_bput.st) : Prop :=
  match o with
  | OReturn v st => v = V /\ Q (C_substdio_bput.a_s__x st) (C_substdio_bput.v_s__p st) (C_substdio_bput.v_wr__n st) (C_substdio_bput.a_wr__out st)
  | _ => False end.

Lemma bb_body fuel b x p fd script n out data : Rep b x p script n out -> good b data -> enough fuel b script data ->
  bb_post (ret (fst (o_bput b data))) (fun x' p' n' out' => Rep (snd (o_bput b data)) x' p' script n' out')
    (C_substdio_bput.body fuel {| C_substdio_bput.v_buf := 0; C_substdio_bput.v_len := Z.of_nat (length data); C_substdio_bput.v_n := 0;
       C_substdio_bput.v_s__n := Z.of_nat (o_cap b); C_substdio_bput.v_s__p := p; C_substdio_bput.v_s__fd := fd; C_substdio_bput.v_wr__n := n;
       C_substdio_bput.a_buf := zs data; C_substdio_bput.a_s__x := x; C_substdio_bput.a_wr__script := script; C_substdio_bput.a_wr__out := out |}).
Proof.
  intros HR (Hdok & _ & Hcap0 & Hcap & Hlen) Hen. unfold enough in Hen.
  pose proof (Gen_strings.rd_range _ (Gen_strings.zs_ok _ Hdok)) as Hrd.
  assert (Hcap' := Hcap). assert (Hlen' := Hlen). rewrite p30 in Hcap', Hlen'.
  pose proof (bl_loop fuel fd (Z.of_nat (o_cap b)) (zs data) script ltac:(lia) Hcap ltac:(lia) Hrd (S (S (length data))) b data fuel x p 0 n 0 out
                eq_refl Hcap0 HR (at_zs data) Hlen ltac:(left; lia) ltac:(left; lia)) as HL.
  unfold o_bput.
  cbv beta delta [C_substdio_bput.body]. hide_all.
  destruct HL as [(b' & rest' & off' & vn' & p' & n' & out' & x' & HL & HR' & Hat' & Hfit' & Hcap1 & Em)
                 |(b' & off' & len' & vn' & p' & n' & out' & x' & HL & HR' & Em)]; rewrite HL, Em; cbn [fst snd ret].
  - show_next.
    destruct (copy_rep fuel b' x' p' script n' out' (zs data) off' rest' HR' Hfit' Hat' Hrd ltac:(rewrite p32; lia) ltac:(lia))
      as (t' & cn' & f' & x2 & HC & HR3).
    pose proof HR' as (_ & _ & Hp' & _).
    sd_let_red. sd_call HC. cbv beta iota delta [bb_post]. sd_simplz. split; [reflexivity|].
    rewrite (wrapu64_small p'), (wrapu64_small (p' + _)), wraps32_small by lia. exact HR3.
  - rewrite obind_return. cbv beta iota delta [bb_post]. sd_simplz. split; [reflexivity|exact HR'].
Qed.


Theorem gen_substdio_bput_sim : forall b x p fd script n out fuel data, Rep b x p script n out -> good b data -> enough fuel b script data ->
  exists v st, C_substdio_bput.run fuel x (Z.of_nat (o_cap b)) p fd (zs data) 0 (Z.of_nat (length data)) script out n = Some (v, st) /\ v = ret (fst (o_bput b data)) /\
    Rep (snd (o_bput b data)) (C_substdio_bput.a_s__x st) (C_substdio_bput.v_s__p st) script (C_substdio_bput.v_wr__n st) (C_substdio_bput.a_wr__out st).
Proof.
  intros b x p fd script n out fuel data HR Hg Hen.
  pose proof (bb_body fuel b x p fd script n out data HR Hg Hen) as H.
  unfold C_substdio_bput.run.
  destruct (C_substdio_bput.body _ _) as [st|v st|st|st|]; try contradiction.
  destruct H as [Hv HR']. eexists _, _. split; [reflexivity|]. split; [exact Hv|exact HR'].
Qed.

Theorem gen_substdio_putflush_sim : forall b x p fd script n out fuel data, Rep b x p script n out -> good b data -> enough fuel b script data ->
  exists v st, C_substdio_putflush.run fuel x p fd (zs data) 0 (Z.of_nat (length data)) script out n = Some (v, st) /\ v = ret (fst (o_putflush b data)) /\
    Rep (snd (o_putflush b data)) (C_substdio_putflush.a_s__x st) (C_substdio_putflush.v_s__p st) script (C_substdio_putflush.v_wr__n st) (C_substdio_putflush.a_wr__out st).
Proof.
  intros b x p fd script n out fuel data HR (_ & _ & _ & Hcap & Hlen) Hen. unfold enough in Hen.
  pose proof (pf_body fuel b x p fd script n out data HR Hcap Hlen ltac:(lia)) as H.
  unfold C_substdio_putflush.run.
  destruct (C_substdio_putflush.body _ _) as [st|v st|st|st|]; try contradiction.
  destruct H as [Hv HR']. eexists _, _. split; [reflexivity|]. split; [exact Hv|exact HR'].
Qed.

(* ---------------------------------------------------------------- *)
Local Opaque OUTSIZE.

Definition kaw_out (ok : bool) (st : K_allwrite.st) : outcome K_allwrite.st := if ok then ONormal st else OReturn (-1) st.

Lemma kaw_done f0 fuel s : K_allwrite.v_len s = 0 -> K_allwrite.loop1 f0 (S fuel) s = ONormal s.
Proof. intros H. cbn [K_allwrite.loop1]. rewrite H. reflexivity. Qed.

Lemma kaw_loop (f0 : nat) (fd : Z) (buf script : list Z) :
  forall (scr : wscript) (mf : nat) (data : bytes) (fuel : nat) (off w n errno : Z) (out : list Z) ok acc scr',
  (length scr < mf)%nat -> (length scr + 2 <= fuel)%nat -> 0 <= n -> skipn (Z.to_nat n) script = map enc scr ->
  at_ buf off data -> Z.of_nat (length data) < 2 ^ 62 ->
  allwrite mf scr data = (ok, acc, scr') ->
  exists off' len' w' n' errno',
  K_allwrite.loop1 f0 fuel {| K_allwrite.v__oob := 0; K_allwrite.v_fd := fd; K_allwrite.v_buf := off; K_allwrite.v_len := Z.of_nat (length data); K_allwrite.v_w := w;
     K_allwrite.v_wr__n := n; K_allwrite.v_errno := errno; K_allwrite.a_buf := buf; K_allwrite.a_wr__script := script; K_allwrite.a_wr__out := out |}
  = kaw_out ok {| K_allwrite.v__oob := 0; K_allwrite.v_fd := fd; K_allwrite.v_buf := off'; K_allwrite.v_len := len'; K_allwrite.v_w := w';
     K_allwrite.v_wr__n := n'; K_allwrite.v_errno := errno'; K_allwrite.a_buf := buf; K_allwrite.a_wr__script := script; K_allwrite.a_wr__out := out ++ zs acc |}
  /\ 0 <= n' /\ skipn (Z.to_nat n') script = map enc scr'.
Proof.
  induction scr as [|r scr IH]; intros mf data fuel off w n errno out ok acc scr' Hmf Hfuel Hn Hscr Hat Hlen Hm;
    (destruct fuel as [|fuel]; [cbn [length] in Hfuel; lia|]); (destruct mf as [|mf]; [cbn [length] in Hmf; lia|]);
    (destruct data as [|c d];
     [ cbn [allwrite] in Hm; injection Hm as <- <- <-; cbn [K_allwrite.loop1]; sd_simplz; cbn [length Z.of_nat]; change (0 =? 0) with true; cbv iota;
       exists off, 0, w, n, errno; cbn [zs map kaw_out]; rewrite app_nil_r; repeat split; assumption | ]);
    rewrite allwrite_S in Hm by discriminate; remember (c :: d) as data eqn:Ed;
    assert (Hpos : 0 < Z.of_nat (length data)) by (subst data; cbn [length]; lia); clear Ed c d;
    cbn [K_allwrite.loop1]; sd_simplz;
    (destruct (Z.eqb_spec (Z.of_nat (length data)) 0) as [E0|_]; [lia|]).
  - (* script exhausted *)
    injection Hm as <- <- <-. cbn [map] in Hscr. destruct (script_end script n Hn Hscr) as [Hlt Hnext].
    rewrite Hlt.
    destruct (Z.ltb_spec (Z.of_nat (length data) - 1) 0) as [Hneg|_]; [lia|].
    replace (Z.of_nat (length data) - 1 + 1) with (Z.of_nat (length data)) by lia. rewrite Z.min_id, m1_64.
    destruct (Z.eqb_spec (Z.of_nat (length data)) (-1)) as [E1|_]; [lia|]. cbn [b2z]. change (0 =? 0) with true. cbv iota. cbn [obind]. sd_simplz.
    rewrite sub64 by lia. rewrite Z.sub_diag.
    destruct fuel as [|fuel]; [cbn [length] in Hfuel; lia|]. rewrite kaw_done by reflexivity.
    rewrite Nat2Z.id, (at_all _ _ _ Hat).
    eexists _, _, _, _, _. split; [reflexivity|]. split; [lia|exact Hnext].
  - destruct (script_head script n r scr Hn Hscr) as (Hlt & Hrd & Hnext). rewrite Hlt, Hrd.
    cbn [length] in Hmf, Hfuel.
    destruct r as [k| |]; cbn [enc].
    + (* WOk k *)
      destruct (Z.ltb_spec (Z.of_nat k) 0) as [Hneg|_]; [lia|].
      replace (Z.of_nat k + 1) with (Z.of_nat (S k)) by lia. rewrite <- Nat2Z.inj_min, m1_64. set (wn := Nat.min (S k) (length data)) in *.
      destruct (Z.eqb_spec (Z.of_nat wn) (-1)) as [E1|_]; [lia|]. cbn [b2z]. change (0 =? 0) with true. cbv iota. cbn [obind]. sd_simplz.
      assert (Hwn : (wn <= length data)%nat) by (subst wn; lia).
      rewrite sub64 by lia. rewrite Nat2Z.id, (at_firstn _ _ _ _ Hat Hwn).
      replace (Z.of_nat (length data) - Z.of_nat wn) with (Z.of_nat (length (skipn wn data))) by (rewrite skipn_length; lia).
      cbv zeta in Hm. destruct (allwrite mf scr (skipn wn data)) as [[ok1 more] scr1] eqn:E. injection Hm as <- <- <-.
      destruct (IH mf (skipn wn data) fuel (off + Z.of_nat wn) (Z.of_nat wn) (n + 1) errno (out ++ zs (firstn wn data)) ok1 more scr1)
        as (off' & len' & w' & n' & errno' & HL & Hn' & Hs'); try lia; try assumption.
      * apply at_skipn; assumption.
      * rewrite skipn_length. lia.
      * rewrite HL. rewrite zs_app, app_assoc. eexists _, _, _, _, _. split; [reflexivity|]. split; assumption.
    + (* EINTR *)
      change (-1 <? 0) with true. cbv iota. rewrite m1_64. change (-1 =? -1) with true. cbn [b2z]. change (1 =? 0) with false. cbv iota.
      change (4 =? 4) with true. cbn [b2z]. change (1 =? 0) with false. cbv iota. cbn [obind].
      change (Z.to_nat (-1)) with 0%nat. cbn [firstn]. rewrite app_nil_r.
      destruct (IH mf data fuel off (-1) (n + 1) 4 out ok acc scr') as (off' & len' & w' & n' & errno' & HL & Hn' & Hs'); try lia; try assumption.
      rewrite HL. eexists _, _, _, _, _. split; [reflexivity|]. split; assumption.
    + (* error *)
      injection Hm as <- <- <-.
      change (-2 <? 0) with true. cbv iota. rewrite m1_64. change (-1 =? -1) with true. cbn [b2z]. change (1 =? 0) with false. cbv iota.
      change (-2 =? -1) with false. cbv iota. change (5 =? 4) with false. cbn [b2z]. change (0 =? 0) with true. cbv iota. cbn [obind].
      change (Z.to_nat (-1)) with 0%nat. cbn [firstn]. rewrite m1_32.
      eexists _, _, _, _, _. split; [reflexivity|]. split; [lia|exact Hnext].
Qed.

Lemma kaw_run fuel fd buf off data script out n scr mf ok acc scr' :
  (length scr < mf)%nat -> (length script + 2 <= fuel)%nat -> 0 <= n -> skipn (Z.to_nat n) script = map enc scr -> at_ buf off data ->
  Z.of_nat (length data) < 2 ^ 62 -> allwrite mf scr data = (ok, acc, scr') ->
  exists off' len' w' n' errno',
  K_allwrite.run fuel fd buf off (Z.of_nat (length data)) script out n = Some (ret ok, {| K_allwrite.v__oob := 0; K_allwrite.v_fd := fd; K_allwrite.v_buf := off'; K_allwrite.v_len := len'; K_allwrite.v_w := w';
     K_allwrite.v_wr__n := n'; K_allwrite.v_errno := errno'; K_allwrite.a_buf := buf; K_allwrite.a_wr__script := script; K_allwrite.a_wr__out := out ++ zs acc |})
  /\ 0 <= n' /\ skipn (Z.to_nat n') script = map enc scr'.
Proof.
  intros Hmf Hfuel Hn Hscr Hat Hlen Hm. pose proof (scr_len _ _ _ Hscr) as Hsl.
  destruct (kaw_loop fuel fd buf script scr mf data fuel off 0 n 0 out ok acc scr' Hmf ltac:(lia) Hn Hscr Hat Hlen Hm)
    as (off' & len' & w' & n' & errno' & HL & Hn' & Hs').
  exists off', len', w', n', errno'. split; [|split; assumption].
  unfold K_allwrite.run, K_allwrite.body. rewrite HL. destruct ok; reflexivity.
Qed.

Definition kfl_post (V : Z) (Q : list Z -> Z -> Z -> list Z -> Prop) (fd : Z) (script : list Z) (o : outcome K_substdio_flush.st) : Prop :=
  match o with
  | OReturn v st => v = V /\ K_substdio_flush.v__oob st = 0 /\ K_substdio_flush.v_s__fd st = fd /\ K_substdio_flush.a_wr__script st = script /\
      Q (K_substdio_flush.a_s__x st) (K_substdio_flush.v_s__p st) (K_substdio_flush.v_wr__n st) (K_substdio_flush.a_wr__out st)
  | _ => False end.

Lemma kfl_body fuel b x p fd script n out vp : Rep b x p script n out -> Z.of_nat (o_cap b) < 2 ^ 30 -> (length script + 2 <= fuel)%nat ->
  kfl_post (ret (fst (o_flush b))) (fun x' p' n' out' => Rep (snd (o_flush b)) x' p' script n' out') fd script
    (K_substdio_flush.body fuel {| K_substdio_flush.v__oob := 0; K_substdio_flush.v_p := vp; K_substdio_flush.v_s__p := p; K_substdio_flush.v_s__fd := fd; K_substdio_flush.v_wr__n := n;
       K_substdio_flush.a_s__x := x; K_substdio_flush.a_wr__script := script; K_substdio_flush.a_wr__out := out |}).
Proof.
  intros HR Hcap Hfuel. pose proof HR as (Hx & Hpc & Hp & Hfx & Hn & Hscr & Hout).
  unfold o_flush. destruct (o_pend b) as [|c pd] eqn:Epend.
  - cbn [length Z.of_nat] in Hp. subst p. cbn [fst snd ret].
    cbv beta delta [K_substdio_flush.body]. sd_let. sd_let. hide_all. sd_simplz.
    change (0 =? 0) with true. cbn [b2z]. change (1 =? 0) with false. cbv iota.
    cbn [obind kfl_post]. sd_simplz. split; [reflexivity|]. split; [reflexivity|]. split; [reflexivity|]. split; [reflexivity|]. exact HR.
  - rewrite <- Epend in *. assert (Hp0 : 0 < p) by (rewrite Hp, Epend; cbn [length]; lia).
    unfold o_write. cbn [o_scr o_cap o_pend o_out o_copies].
    destruct (allwrite (aw_fuel (o_scr b) (o_pend b)) (o_scr b) (o_pend b)) as [[ok acc] scr'] eqn:Em. cbn [fst snd].
    destruct (kaw_run fuel fd x 0 (o_pend b) script out n (o_scr b) (aw_fuel (o_scr b) (o_pend b)) ok acc scr' ltac:(unfold aw_fuel; lia) Hfuel Hn Hscr
                ltac:(split; [lia|exact Hfx]) ltac:(rewrite p30 in Hcap; rewrite p62; lia) Em) as (off' & len' & w' & n' & errno' & HA & Hn' & Hs').
    cbv beta delta [K_substdio_flush.body]. sd_let. sd_let. hide_all. sd_simplz.
    destruct (Z.eqb_spec p 0) as [E0|_]; [lia|]. cbn [b2z]. change (0 =? 0) with true. cbv iota. show_next.
    sd_let. sd_let. sd_let_red.
    rewrite wrapu64_small by (rewrite p30 in Hcap; lia). rewrite Hp.
    sd_call HA. cbn [kfl_post]. sd_simplz. repeat split; try assumption; cbn [o_cap o_pend o_out o_scr length]; try lia.
    rewrite Hout, zs_app. reflexivity.
Qed.

Lemma kfl_run_unfold f x p fd script out n : K_substdio_flush.run f x p fd script out n =
  match K_substdio_flush.body f {| K_substdio_flush.v__oob := 0; K_substdio_flush.v_p := 0; K_substdio_flush.v_s__p := p; K_substdio_flush.v_s__fd := fd; K_substdio_flush.v_wr__n := n;
       K_substdio_flush.a_s__x := x; K_substdio_flush.a_wr__script := script; K_substdio_flush.a_wr__out := out |} with
  | OReturn v s => Some (v, s) | ONormal s => Some (0, s) | _ => None end.
Proof. reflexivity. Qed.

Lemma kfl_run fuel b x p fd script n out : Rep b x p script n out -> Z.of_nat (o_cap b) < 2 ^ 30 -> (length script + 2 <= fuel)%nat ->
  exists vp x' p' n' out', K_substdio_flush.run fuel x p fd script out n = Some (ret (fst (o_flush b)),
    {| K_substdio_flush.v__oob := 0; K_substdio_flush.v_p := vp; K_substdio_flush.v_s__p := p'; K_substdio_flush.v_s__fd := fd; K_substdio_flush.v_wr__n := n';
       K_substdio_flush.a_s__x := x'; K_substdio_flush.a_wr__script := script; K_substdio_flush.a_wr__out := out' |})
    /\ Rep (snd (o_flush b)) x' p' script n' out'.
Proof.
  intros HR Hcap Hfuel. rewrite kfl_run_unfold. pose proof (kfl_body fuel b x p fd script n out 0 HR Hcap Hfuel) as H.
  destruct (K_substdio_flush.body _ _) as [st|v st|st|st|]; try contradiction.
  destruct st as [vp oob p' fd' n' x' script' out'].
  cbn [kfl_post K_substdio_flush.v__oob K_substdio_flush.v_s__fd K_substdio_flush.a_wr__script K_substdio_flush.a_s__x K_substdio_flush.v_s__p K_substdio_flush.v_wr__n K_substdio_flush.a_wr__out] in H.
  destruct H as (-> & -> & -> & -> & HR'). exists vp, x', p', n', out'. split; [reflexivity|exact HR'].
Qed.

Lemma kwrite_rep fuel fd b x p script n out buf off data : Rep b x p script n out -> at_ buf off data -> Z.of_nat (length data) < 2 ^ 62 ->
  (length script + 2 <= fuel)%nat ->
  exists off' len' w' n' errno' out',
  K_allwrite.run fuel fd buf off (Z.of_nat (length data)) script out n = Some (ret (fst (o_write b data)),
    {| K_allwrite.v__oob := 0; K_allwrite.v_fd := fd; K_allwrite.v_buf := off'; K_allwrite.v_len := len'; K_allwrite.v_w := w';
       K_allwrite.v_wr__n := n'; K_allwrite.v_errno := errno'; K_allwrite.a_buf := buf; K_allwrite.a_wr__script := script; K_allwrite.a_wr__out := out' |})
  /\ Rep (snd (o_write b data)) x p script n' out'.
Proof.
  intros (Hx & Hpc & Hp & Hfx & Hn & Hscr & Hout) Hat Hlen Hfuel. unfold o_write.
  destruct (allwrite (aw_fuel (o_scr b) data) (o_scr b) data) as [[ok acc] scr'] eqn:Em. cbn [fst snd].
  destruct (kaw_run fuel fd buf off data script out n (o_scr b) (aw_fuel (o_scr b) data) ok acc scr' ltac:(unfold aw_fuel; lia) Hfuel Hn Hscr Hat Hlen Em)
    as (off' & len' & w' & n' & errno' & HA & Hn' & Hs').
  exists off', len', w', n', errno', (out ++ zs acc). split; [exact HA|].
  repeat split; cbn [o_cap o_pend o_out o_scr]; try assumption. rewrite Hout, zs_app. reflexivity.
Qed.

Definition kpl_res (ok2 : bool) (rest' : bytes) (b2 : obuf) (fd capz p : Z) (abuf x script : list Z) (o : outcome K_substdio_put.st) : Prop :=
  exists off' len' vn' n' out', o = (if ok2 then ONormal else OReturn (-1))
    {| K_substdio_put.v__oob := 0; K_substdio_put.v_buf := off'; K_substdio_put.v_len := len'; K_substdio_put.v_n := vn'; K_substdio_put.v_s__n := capz;
       K_substdio_put.v_s__p := p; K_substdio_put.v_s__fd := fd; K_substdio_put.v_wr__n := n'; K_substdio_put.a_buf := abuf; K_substdio_put.a_s__x := x;
       K_substdio_put.a_wr__script := script; K_substdio_put.a_wr__out := out' |}
    /\ Rep b2 x p script n' out' /\ (ok2 = true -> len' = Z.of_nat (length rest') /\ at_ abuf off' rest' /\ (length rest' <= o_cap b2)%nat).

Lemma kpl_loop (f0 : nat) (fd capz p : Z) (abuf x script : list Z) : (length script + 2 <= f0)%nat -> capz < 2 ^ 30 ->
  forall (mf : nat) (b : obuf) (nn : nat) (rest : bytes) (fuel : nat) (off n : Z) (out : list Z) ok2 b2 rest',
  capz = Z.of_nat (o_cap b) -> Rep b x p script n out -> at_ abuf off rest -> (1 <= nn)%nat -> Z.of_nat nn < 2 ^ 32 -> Z.of_nat (length rest) < 2 ^ 30 ->
  (length rest < mf)%nat -> (length rest < fuel)%nat ->
  put_direct mf b nn rest = (ok2, b2, rest') ->
  kpl_res ok2 rest' b2 fd capz p abuf x script
    (K_substdio_put.loop1 f0 fuel {| K_substdio_put.v__oob := 0; K_substdio_put.v_buf := off; K_substdio_put.v_len := Z.of_nat (length rest); K_substdio_put.v_n := Z.of_nat nn;
       K_substdio_put.v_s__n := capz; K_substdio_put.v_s__p := p; K_substdio_put.v_s__fd := fd; K_substdio_put.v_wr__n := n; K_substdio_put.a_buf := abuf;
       K_substdio_put.a_s__x := x; K_substdio_put.a_wr__script := script; K_substdio_put.a_wr__out := out |}).
Proof.
  intros Hf0 Hcap. rewrite p30 in Hcap.
  induction mf as [|mf IH]; intros b nn rest fuel off n out ok2 b2 rest' Ecap HR Hat Hnn Hnn32 Hlen Hmf Hfuel Hm; [lia|].
  destruct fuel as [|fuel]; [lia|]. rewrite p30 in Hlen. rewrite p32 in Hnn32.
  cbn [put_direct] in Hm.
  cbn beta iota delta [K_substdio_put.loop1]. sd_if_red.
  rewrite (wrapu32_small capz), (wrapu64_small capz) by lia.
  destruct (Nat.ltb_spec (o_cap b) (length rest)) as [Hgt|Hle].
  2:{ injection Hm as <- <- <-.
      destruct (Z.gtb_spec (Z.of_nat (length rest)) capz) as [Hc|_]; [lia|]. cbn [b2z]. change (0 =? 0) with true. cbv iota.
      eexists _, _, _, _, _. split; [reflexivity|]. split; [exact HR|]. intros _. repeat split; try apply Hat; try lia. }
  destruct (Z.gtb_spec (Z.of_nat (length rest)) capz) as [_|Hc]; [|lia]. change (b2z true =? 0) with false. cbv iota.
  loop_body. hide_all. sd_simplz. cbv zeta in Hm.
  set (nn' := Nat.min nn (length rest)) in *.
  assert (Hnn' : (nn' <= length rest)%nat) by (subst nn'; lia).
  assert (Hnn1 : (1 <= nn')%nat) by (subst nn'; lia).
  assert (Hat1 : at_ abuf off (firstn nn' rest)) by (apply at_prefix; assumption).
  assert (Hl1 : length (firstn nn' rest) = nn') by (apply firstn_length_le; exact Hnn').
  destruct (kwrite_rep f0 fd b x p script n out abuf off (firstn nn' rest) HR Hat1 ltac:(rewrite Hl1, p62; lia) Hf0)
    as (off1 & len1 & w1 & n1 & errno1 & out1 & HA & HR1).
  destruct (o_write b (firstn nn' rest)) as [ok1 b1] eqn:Ew. cbn [fst snd] in HA, HR1.
  pose proof (o_write_spec _ _ _ _ Ew) as (Hcap1 & _). rewrite Hl1 in HA.
  match goal with |- LK (obind (if ?c then ONormal ?A else ONormal ?B) K) =>
    assert (Hsel : (if c then ONormal A else ONormal B) = ONormal {| K_substdio_put.v__oob := 0; K_substdio_put.v_buf := off; K_substdio_put.v_len := Z.of_nat (length rest); K_substdio_put.v_n := Z.of_nat nn';
       K_substdio_put.v_s__n := capz; K_substdio_put.v_s__p := p; K_substdio_put.v_s__fd := fd; K_substdio_put.v_wr__n := n; K_substdio_put.a_buf := abuf;
       K_substdio_put.a_s__x := x; K_substdio_put.a_wr__script := script; K_substdio_put.a_wr__out := out |}) end.
  { rewrite (wrapu64_small (Z.of_nat nn)) by lia.
    destruct (Z.gtb_spec (Z.of_nat nn) (Z.of_nat (length rest))) as [Hc|Hc].
    - change (b2z true =? 0) with false. cbv iota. rewrite wrapu32_small by lia. do 2 f_equal. subst nn'. lia.
    - change (b2z false =? 0) with true. cbv iota. do 2 f_equal. subst nn'. lia. }
  rewrite Hsel. clear Hsel. show_next.
  sd_let_red. rewrite (wrapu64_small (Z.of_nat nn')) by lia. sd_call HA. hide_all. sd_simplz. rewrite m1_32.
  destruct ok1; cbn [ret].
  - change (b2z (0 =? -1) =? 0) with true. cbv iota. show_next. sd_simplz. subst LK. cbv beta iota.
    rewrite sub64 by (rewrite ?p62; lia).
    replace (Z.of_nat (length rest) - Z.of_nat nn') with (Z.of_nat (length (skipn nn' rest))) by (rewrite skipn_length; lia).
    apply IH with (b := b1) (nn := nn'); try assumption; try lia;
      first [rewrite Hcap1; exact Ecap | apply at_skipn; assumption | rewrite skipn_length; lia].
  - change (b2z (-1 =? -1) =? 0) with false. cbv iota. cbn [obind]. subst LK. cbv beta iota.
    injection Hm as <- <- <-. eexists _, _, _, _, _. split; [reflexivity|]. split; [exact HR1|]. discriminate.
Qed.

(* the checked byte_copy: same cells as the unchecked one, every access inside *)
Ltac kbcp_step k Ha :=
  destruct k as [|k];
  [ cbn [Z.of_nat]; change (0 =? 0) with true; cbn [b2z zcopy]; change (1 =? 0) with false; cbv iota; rewrite ?Gen_safety.obind_return;
    eexists; eexists; eexists; reflexivity | ];
  rewrite of_nat_S_eqb0; cbn [b2z]; change (0 =? 0) with true; cbv iota; rewrite Gen_safety.obind_normal; bcp_simpl;
  rewrite !oob_keep by (apply inb_true; rewrite ?wr_length; lia);
  rewrite (char_id _ (Ha _)); cbn [zcopy];
  rewrite (sub1_nat k) by lia.

Lemma kbcp_loop (f0 : nat) (src : list Z) : (forall i, 0 <= MiniC.rd src i < 256) ->
  forall fuel k t f a, (k < fuel)%nat -> Z.of_nat k < 4294967296 ->
  0 <= t -> t + Z.of_nat k <= Z.of_nat (length a) -> 0 <= f -> f + Z.of_nat k <= Z.of_nat (length src) ->
  exists t' n' f', K_byte_copy.loop1 f0 fuel {| K_byte_copy.v_to := t; K_byte_copy.v_n := Z.of_nat k; K_byte_copy.v_from := f; K_byte_copy.v__oob := 0;
                                               K_byte_copy.a_to := a; K_byte_copy.a_from := src |}
    = OReturn 0 {| K_byte_copy.v_to := t'; K_byte_copy.v_n := n'; K_byte_copy.v_from := f'; K_byte_copy.v__oob := 0;
                   K_byte_copy.a_to := zcopy a src t f k; K_byte_copy.a_from := src |}.
Proof.
  intros Ha. induction fuel as [|fu IH]; intros k t f a Hk Hk32 Ht HA Hf HB; [lia|].
  bcp_unroll. change (1 =? 0) with false. cbv iota.
  kbcp_step k Ha. kbcp_step k Ha. kbcp_step k Ha. kbcp_step k Ha.
  apply IH; rewrite ?wr_length; lia.
Qed.

Lemma kcopy_rep fuel b x p script n out abuf off chunk : Rep b x p script n out -> (length (o_pend b) + length chunk <= o_cap b)%nat -> at_ abuf off chunk ->
  (forall i, 0 <= MiniC.rd abuf i < 256) -> Z.of_nat (length chunk) < 2 ^ 32 -> (length chunk < fuel)%nat ->
  exists t' n' f' x', K_byte_copy.run fuel x (0 + p) (Z.of_nat (length chunk)) abuf off
     = Some (0, {| K_byte_copy.v__oob := 0; K_byte_copy.v_to := t'; K_byte_copy.v_n := n'; K_byte_copy.v_from := f'; K_byte_copy.a_to := x'; K_byte_copy.a_from := abuf |})
  /\ Rep (o_copy b chunk) x' (p + Z.of_nat (length chunk)) script n out.
Proof.
  intros HR Hfit Hat Hrd Hk32 Hfuel. pose proof HR as (Hx & Hpc & Hp & Hfx & Hn & Hscr & Hout). rewrite p32 in Hk32.
  destruct chunk as [|c ch].
  - destruct fuel as [|fuel]; [cbn [length] in Hfuel; lia|].
    eexists _, _, _, _. split; [reflexivity|]. unfold o_copy. cbn [length Z.of_nat]. rewrite Z.add_0_r.
    destruct HR as (H1 & H2 & H3 & H4 & H5 & H6 & H7). repeat split; cbn [o_cap o_pend o_out o_scr]; rewrite ?app_nil_r; assumption.
  - remember (c :: ch) as chunk eqn:Ec. assert (Hk : (0 < length chunk)%nat) by (subst chunk; cbn [length]; lia). clear Ec c ch.
    destruct Hat as [Hoff Hat]. set (o := Z.to_nat off) in *. set (pl := length (o_pend b)) in *.
    assert (HLs : length (firstn (length chunk) (skipn o abuf)) = length chunk) by (rewrite Hat; apply zs_length).
    rewrite firstn_length, skipn_length in HLs.
    unfold K_byte_copy.run, K_byte_copy.body.
    destruct (kbcp_loop fuel abuf Hrd fuel (length chunk) (0 + p) off x Hfuel Hk32 ltac:(lia) ltac:(lia) Hoff ltac:(lia)) as (t' & n' & f' & HL). rewrite HL.
    eexists _, _, _, _. split; [reflexivity|].
    pose proof (zcopy_spec (length chunk) (firstn pl x) (skipn pl x) (firstn o abuf) (skipn o abuf)
                  ltac:(rewrite skipn_length; lia) ltac:(rewrite skipn_length; lia)) as HZ.
    rewrite !firstn_skipn in HZ. rewrite !firstn_length_le in HZ by lia.
    replace (0 + p) with (Z.of_nat pl) by lia. replace off with (Z.of_nat o) by lia. rewrite HZ, Hat, Hfx.
    unfold o_copy. repeat split; cbn [o_cap o_pend o_out o_scr]; try assumption.
    + rewrite !app_length, !zs_length, !skipn_length. fold pl. lia.
    + rewrite app_length. fold pl. lia.
    + rewrite app_length. fold pl. lia.
    + rewrite app_assoc, <- zs_app. apply firstn_app_exact. rewrite zs_length. reflexivity.
Qed.

Definition kpt_post (V : Z) (Q : list Z -> Z -> Z -> list Z -> Prop) (o : outcome K_substdio_put.st) : Prop :=
  match o with
  | OReturn v st => K_substdio_put.v__oob st = 0 /\ v = V /\ Q (K_substdio_put.a_s__x st) (K_substdio_put.v_s__p st) (K_substdio_put.v_wr__n st) (K_substdio_put.a_wr__out st)
  | _ => False end.

Lemma kpt_body fuel b x p fd script n out data : Rep b x p script n out -> good b data -> enough fuel b script data ->
  kpt_post (ret (fst (o_put b data))) (fun x' p' n' out' => Rep (snd (o_put b data)) x' p' script n' out')
    (K_substdio_put.body fuel {| K_substdio_put.v__oob := 0; K_substdio_put.v_buf := 0; K_substdio_put.v_len := Z.of_nat (length data); K_substdio_put.v_n := 0;
       K_substdio_put.v_s__n := Z.of_nat (o_cap b); K_substdio_put.v_s__p := p; K_substdio_put.v_s__fd := fd; K_substdio_put.v_wr__n := n;
       K_substdio_put.a_buf := zs data; K_substdio_put.a_s__x := x; K_substdio_put.a_wr__script := script; K_substdio_put.a_wr__out := out |}).
Proof.
  intros HR (Hdok & _ & Hcap0 & Hcap & Hlen) Hen. unfold enough in Hen. pose proof HR as (Hx & Hpc & Hp & Hfx & Hn & Hscr & Hout).
  pose proof (Gen_strings.rd_range _ (Gen_strings.zs_ok _ Hdok)) as Hrd.
  assert (Hcap' := Hcap). assert (Hlen' := Hlen). rewrite p30 in Hcap', Hlen'.
  cbv beta delta [K_substdio_put.body]. sd_let. hide_all. sd_cond_red.
  rewrite (wrapu32_small (Z.of_nat (o_cap b))), (wrapu32_small p) by lia.
  rewrite (wrapu32_small (Z.of_nat (o_cap b) - p)), (wrapu64_small (Z.of_nat (o_cap b) - p)) by lia.
  destruct (Nat.ltb_spec (o_cap b - length (o_pend b)) (length data)) as [Hbig|Hfit].
  - (* flush, write directly, copy the rest *)
    destruct (Z.gtb_spec (Z.of_nat (length data)) (Z.of_nat (o_cap b) - p)) as [_|Hc]; [|lia]. change (b2z true =? 0) with false. cbv iota.
    destruct (kfl_run fuel b x p fd script n out HR Hcap ltac:(lia)) as (vp & x1 & p1 & n1 & out1 & HF & HR1).
    destruct (o_flush b) as [ok b1] eqn:Efl. cbn [fst snd] in HF, HR1.
    pose proof (o_flush_spec _ _ _ Efl) as (Hcap1 & Hpend1 & _).
    assert (Hp1 : p1 = 0) by (destruct HR1 as (_ & _ & Hp1 & _); rewrite Hpend1 in Hp1; exact Hp1). subst p1.
    push_k. sd_let_red. sd_call HF. sd_cond_red. rewrite m1_32.
    destruct ok; cbn [ret].
    + change (b2z (0 =? -1) =? 0) with true. cbv iota. show_next. hide_all. sd_simplz.
      change (wrapu 32 8192) with 8192.
      set (nn := Nat.max (o_cap b) OUTSIZE).
      assert (Hnn1 : (1 <= nn)%nat) by (pose proof OUTSIZE_pos; subst nn; lia).
      assert (HnnZ : Z.of_nat nn = Z.max (Z.of_nat (o_cap b)) 8192) by (subst nn; rewrite Nat2Z.inj_max, OUTSIZE_Z; reflexivity).
      match goal with |- PK (obind (if ?c then ONormal ?A else ONormal ?B) ?K0) =>
        assert (Hsel : (if c then ONormal A else ONormal B) = ONormal {| K_substdio_put.v__oob := 0; K_substdio_put.v_buf := 0; K_substdio_put.v_len := Z.of_nat (length data); K_substdio_put.v_n := Z.of_nat nn;
           K_substdio_put.v_s__n := Z.of_nat (o_cap b); K_substdio_put.v_s__p := 0; K_substdio_put.v_s__fd := fd; K_substdio_put.v_wr__n := n1; K_substdio_put.a_buf := zs data;
           K_substdio_put.a_s__x := x1; K_substdio_put.a_wr__script := script; K_substdio_put.a_wr__out := out1 |}) end.
      { destruct (Z.ltb_spec (Z.of_nat (o_cap b)) 8192) as [Hc|Hc].
        - change (b2z true =? 0) with false. cbv iota. do 2 f_equal. lia.
        - change (b2z false =? 0) with true. cbv iota. do 2 f_equal. lia. }
      rewrite Hsel. clear Hsel. show_next.
      destruct (put_direct (S (length data)) b1 nn data) as [[ok2 b2] rest'] eqn:Epd.
      pose proof (kpl_loop fuel fd (Z.of_nat (o_cap b)) 0 (zs data) x1 script ltac:(lia) Hcap (S (length data)) b1 nn data fuel 0 n1 out1 ok2 b2 rest'
                    ltac:(rewrite Hcap1; reflexivity) HR1 (at_zs data) Hnn1 ltac:(rewrite p32; lia) Hlen ltac:(lia) ltac:(lia) Epd)
        as (off' & len' & vn' & n2 & out2 & HL & HR2 & Hok2).
      rewrite HL. destruct ok2.
      * destruct (Hok2 eq_refl) as (-> & Hat2 & Hle2). pose proof (put_direct_spec (S (length data)) b1 nn data true b2 rest' Hnn1 ltac:(lia) Epd) as (Hcap2 & _).
        assert (Hpl2 : length (o_pend b2) = 0%nat) by (destruct HR2 as (_ & _ & Hp2 & _); lia).
        subst PK. cbv beta. show_next.
        destruct (kcopy_rep fuel b2 x1 0 script n2 out2 (zs data) off' rest' HR2 ltac:(lia) Hat2 Hrd ltac:(rewrite p32; lia) ltac:(lia))
          as (t' & cn' & f' & x2 & HC & HR3).
        assert (Eo : o_put b data = (true, o_copy b2 rest'))
          by (unfold o_put; rewrite (proj2 (Nat.ltb_lt _ _) Hbig), Efl; cbn [negb]; fold nn; rewrite Epd; reflexivity).
        sd_let_red. sd_call HC. cbv beta iota delta [kpt_post]. sd_simplz. split; [reflexivity|]. rewrite Eo. cbn [fst snd ret]. split; [reflexivity|].
        rewrite (wrapu64_small 0), (wrapu64_small (0 + _)), wraps32_small by lia. exact HR3.
      * assert (Eo : o_put b data = (false, b2))
          by (unfold o_put; rewrite (proj2 (Nat.ltb_lt _ _) Hbig), Efl; cbn [negb]; fold nn; rewrite Epd; reflexivity).
        subst PK. cbv beta. rewrite !obind_return. cbv beta iota delta [kpt_post]. sd_simplz. split; [reflexivity|]. rewrite Eo. split; [reflexivity|exact HR2].
    + assert (Eo : o_put b data = (false, b1)) by (unfold o_put; rewrite (proj2 (Nat.ltb_lt _ _) Hbig), Efl; reflexivity).
      change (b2z (-1 =? -1) =? 0) with false. cbv iota. subst PK. cbv beta. rewrite !obind_return. cbv beta iota delta [kpt_post]. sd_simplz. split; [reflexivity|].
      rewrite Eo. split; [reflexivity|exact HR1].
  - destruct (Z.gtb_spec (Z.of_nat (length data)) (Z.of_nat (o_cap b) - p)) as [Hc|_]; [lia|]. change (b2z false =? 0) with true. cbv iota.
    show_next.
    assert (Eo : o_put b data = (true, o_copy b data)) by (unfold o_put; rewrite (proj2 (Nat.ltb_ge _ _) Hfit); reflexivity).
    destruct (kcopy_rep fuel b x p script n out (zs data) 0 data HR ltac:(lia) (at_zs data) Hrd ltac:(rewrite p32; lia) ltac:(lia))
      as (t' & cn' & f' & x2 & HC & HR3).
    sd_let_red. sd_call HC. cbv beta iota delta [kpt_post]. sd_simplz. split; [reflexivity|]. rewrite Eo. cbn [fst snd ret]. split; [reflexivity|].
    rewrite (wrapu64_small p), (wrapu64_small (p + _)), wraps32_small by lia. exact HR3.
Qed.

Definition kbl_res (mf : nat) (b : obuf) (rest : bytes) (capz fd : Z) (abuf script : list Z) (o : outcome K_substdio_bput.st) : Prop :=
  (exists b' rest' off' vn' p' n' out' x',
     o = ONormal {| K_substdio_bput.v__oob := 0; K_substdio_bput.v_buf := off'; K_substdio_bput.v_len := Z.of_nat (length rest'); K_substdio_bput.v_n := vn'; K_substdio_bput.v_s__n := capz;
       K_substdio_bput.v_s__p := p'; K_substdio_bput.v_s__fd := fd; K_substdio_bput.v_wr__n := n'; K_substdio_bput.a_buf := abuf; K_substdio_bput.a_s__x := x';
       K_substdio_bput.a_wr__script := script; K_substdio_bput.a_wr__out := out' |}
     /\ Rep b' x' p' script n' out' /\ at_ abuf off' rest' /\ (length (o_pend b') + length rest' <= o_cap b')%nat /\ o_cap b' = o_cap b
     /\ o_bput_loop mf b rest = (true, o_copy b' rest'))
  \/ (exists b' off' len' vn' p' n' out' x',
     o = OReturn (-1) {| K_substdio_bput.v__oob := 0; K_substdio_bput.v_buf := off'; K_substdio_bput.v_len := len'; K_substdio_bput.v_n := vn'; K_substdio_bput.v_s__n := capz;
       K_substdio_bput.v_s__p := p'; K_substdio_bput.v_s__fd := fd; K_substdio_bput.v_wr__n := n'; K_substdio_bput.a_buf := abuf; K_substdio_bput.a_s__x := x';
       K_substdio_bput.a_wr__script := script; K_substdio_bput.a_wr__out := out' |}
     /\ Rep b' x' p' script n' out' /\ o_bput_loop mf b rest = (false, b')).

Lemma kbl_loop (f0 : nat) (fd capz : Z) (abuf script : list Z) : (length script + 2 <= f0)%nat -> capz < 2 ^ 30 -> (Z.to_nat capz < f0)%nat ->
  (forall i, 0 <= MiniC.rd abuf i < 256) ->
  forall (mf : nat) (b : obuf) (rest : bytes) (fuel : nat) (x : list Z) (p off n vn : Z) (out : list Z),
  capz = Z.of_nat (o_cap b) -> (0 < o_cap b)%nat -> Rep b x p script n out -> at_ abuf off rest -> Z.of_nat (length rest) < 2 ^ 30 ->
  ((length rest + 2 <= mf)%nat \/ (length rest + 1 <= mf /\ length (o_pend b) < o_cap b)%nat) ->
  ((length rest + 2 <= fuel)%nat \/ (length rest + 1 <= fuel /\ length (o_pend b) < o_cap b)%nat) ->
  kbl_res mf b rest capz fd abuf script
    (K_substdio_bput.loop1 f0 fuel {| K_substdio_bput.v__oob := 0; K_substdio_bput.v_buf := off; K_substdio_bput.v_len := Z.of_nat (length rest); K_substdio_bput.v_n := vn;
       K_substdio_bput.v_s__n := capz; K_substdio_bput.v_s__p := p; K_substdio_bput.v_s__fd := fd; K_substdio_bput.v_wr__n := n; K_substdio_bput.a_buf := abuf;
       K_substdio_bput.a_s__x := x; K_substdio_bput.a_wr__script := script; K_substdio_bput.a_wr__out := out |}).
Proof.
  intros Hf0 Hcap Hf0c Hrd. rewrite p30 in Hcap.
  induction mf as [|mf IH]; intros b rest fuel x p off n vn out Ecap Hcap0 HR Hat Hlen Hmf Hfuel; [lia|].
  destruct fuel as [|fuel]; [lia|]. rewrite p30 in Hlen.
  pose proof HR as (Hx & Hpc & Hp & Hfx & Hn & Hscr & Hout).
  set (nn := (o_cap b - length (o_pend b))%nat).
  assert (HnnZ : capz - p = Z.of_nat nn) by (subst nn; lia).
  assert (Hx1 : wrapu 32 (wraps 32 (capz - p)) = Z.of_nat nn) by (rewrite wraps32_small, wrapu32_small; lia).
  match goal with |- kbl_res _ _ _ _ _ _ _ (K_substdio_bput.loop1 _ _ ?s) => set (St0 := s) end.
  loop_step K_substdio_bput.loop1.
  destruct (Nat.ltb_spec nn (length rest)) as [Hbig|Hfit].
  2:{ pick_then.
      { rewrite Hx1, wrapu64_small by lia. destruct (Z.gtb_spec (Z.of_nat (length rest)) (Z.of_nat nn)) as [Hc|_]; [lia|reflexivity]. }
      open_states.
      left. exists b, rest. eexists _, _, _, _, _, _. split; [reflexivity|]. split; [exact HR|]. split; [exact Hat|]. split; [subst nn; lia|].
      split; [reflexivity|]. cbn [o_bput_loop]. fold nn. rewrite (proj2 (Nat.ltb_ge _ _) Hfit). reflexivity. }
  assert (Hl1 : length (firstn nn rest) = nn) by (apply firstn_length_le; lia).
  destruct (kcopy_rep f0 b x p script n out abuf off (firstn nn rest) HR ltac:(rewrite Hl1; subst nn; lia) ltac:(apply at_prefix; [exact Hat|lia]) Hrd
              ltac:(rewrite Hl1, p32; lia) ltac:(rewrite Hl1; lia)) as (t' & cn' & f' & xc & HC & HRc).
  rewrite Hl1 in HC, HRc.
  destruct (kfl_run f0 (o_copy b (firstn nn rest)) xc (p + Z.of_nat nn) fd script n out HRc ltac:(cbn [o_copy o_cap]; rewrite p30; lia) Hf0)
    as (vp & x1 & p1 & n1 & out1 & HF & HR1).
  destruct (o_flush (o_copy b (firstn nn rest))) as [ok b1] eqn:Efl. cbn [fst snd] in HF, HR1.
  pose proof (o_flush_spec _ _ _ Efl) as (Hcap1 & Hpend1 & _). cbn [o_copy o_cap] in Hcap1.
  assert (Estep : o_bput_loop (S mf) b rest = if ok then o_bput_loop mf b1 (skipn nn rest) else (false, b1))
    by (cbn [o_bput_loop]; fold nn; rewrite (proj2 (Nat.ltb_lt _ _) Hbig), Efl; reflexivity).
  pick_else.
  { rewrite Hx1, wrapu64_small by lia. destruct (Z.gtb_spec (Z.of_nat (length rest)) (Z.of_nat nn)) as [_|Hc]; [reflexivity|lia]. }
  loop_body.
  call_by HC. { rewrite Hx1. exact HC. }
  call_by HF. { rewrite Hx1, (wrapu32_small p), (wrapu32_small (p + _)), (wraps32_small (p + _)) by lia. exact HF. }
  rewrite m1_32.
  destruct ok; cbn [ret].
  - pick_then; [reflexivity|]. subst LK. cbv beta iota. open_states.
    rewrite Hx1, sub64 by (rewrite ?p62; lia).
    replace (Z.of_nat (length rest) - Z.of_nat nn) with (Z.of_nat (length (skipn nn rest))) by (rewrite skipn_length; lia).
    assert (HI : kbl_res mf b1 (skipn nn rest) capz fd abuf script
       (K_substdio_bput.loop1 f0 fuel {| K_substdio_bput.v__oob := 0; K_substdio_bput.v_buf := off + Z.of_nat nn; K_substdio_bput.v_len := Z.of_nat (length (skipn nn rest)); K_substdio_bput.v_n := Z.of_nat nn;
         K_substdio_bput.v_s__n := capz; K_substdio_bput.v_s__p := p1; K_substdio_bput.v_s__fd := fd; K_substdio_bput.v_wr__n := n1; K_substdio_bput.a_buf := abuf;
         K_substdio_bput.a_s__x := x1; K_substdio_bput.a_wr__script := script; K_substdio_bput.a_wr__out := out1 |})).
    { apply IH; try assumption.
      - rewrite Hcap1. exact Ecap.
      - rewrite Hcap1. exact Hcap0.
      - apply at_skipn; [exact Hat|lia].
      - rewrite skipn_length, p30. lia.
      - right. rewrite skipn_length, Hpend1, Hcap1. cbn [length]. subst nn. lia.
      - right. rewrite skipn_length, Hpend1, Hcap1. cbn [length]. subst nn. lia. }
    destruct HI as [(b' & rest' & off' & vn' & p' & n' & out' & x' & HL & HR' & Hat' & Hfit' & Hcap' & Em)
                   |(b' & off' & len' & vn' & p' & n' & out' & x' & HL & HR' & Em)]; rewrite HL.
    + left. exists b', rest', off', vn', p', n', out', x'. split; [reflexivity|]. split; [exact HR'|]. split; [exact Hat'|]. split; [exact Hfit'|].
      split; [congruence|]. rewrite Estep. exact Em.
    + right. exists b', off', len', vn', p', n', out', x'. split; [reflexivity|]. split; [exact HR'|]. rewrite Estep. exact Em.
  - pick_else; [reflexivity|]. subst LK. cbv beta iota. open_states.
    right. exists b1. eexists _, _, _, _, _, _, _. split; [reflexivity|]. split; [exact HR1|exact Estep].
Qed.

Definition kbb_post (V : Z) (Q : list Z -> Z -> Z -> list Z -> Prop) (o : outcome K_substdio_bput.st) : Prop :=
  match o with
  | OReturn v st => K_substdio_bput.v__oob st = 0 /\ v = V /\ Q (K_substdio_bput.a_s__x st) (K_substdio_bput.v_s__p st) (K_substdio_bput.v_wr__n st) (K_substdio_bput.a_wr__out st)
  | _ => False end.

Lemma kbb_body fuel b x p fd script n out data : Rep b x p script n out -> good b data -> enough fuel b script data ->
  kbb_post (ret (fst (o_bput b data))) (fun x' p' n' out' => Rep (snd (o_bput b data)) x' p' script n' out')
    (K_substdio_bput.body fuel {| K_substdio_bput.v__oob := 0; K_substdio_bput.v_buf := 0; K_substdio_bput.v_len := Z.of_nat (length data); K_substdio_bput.v_n := 0;
       K_substdio_bput.v_s__n := Z.of_nat (o_cap b); K_substdio_bput.v_s__p := p; K_substdio_bput.v_s__fd := fd; K_substdio_bput.v_wr__n := n;
       K_substdio_bput.a_buf := zs data; K_substdio_bput.a_s__x := x; K_substdio_bput.a_wr__script := script; K_substdio_bput.a_wr__out := out |}).
Proof.
  intros HR (Hdok & _ & Hcap0 & Hcap & Hlen) Hen. unfold enough in Hen.
  pose proof (Gen_strings.rd_range _ (Gen_strings.zs_ok _ Hdok)) as Hrd.
  assert (Hcap' := Hcap). assert (Hlen' := Hlen). rewrite p30 in Hcap', Hlen'.
  pose proof (kbl_loop fuel fd (Z.of_nat (o_cap b)) (zs data) script ltac:(lia) Hcap ltac:(lia) Hrd (S (S (length data))) b data fuel x p 0 n 0 out
                eq_refl Hcap0 HR (at_zs data) Hlen ltac:(left; lia) ltac:(left; lia)) as HL.
  unfold o_bput.
  cbv beta delta [K_substdio_bput.body]. hide_all.
  destruct HL as [(b' & rest' & off' & vn' & p' & n' & out' & x' & HL & HR' & Hat' & Hfit' & Hcap1 & Em)
                 |(b' & off' & len' & vn' & p' & n' & out' & x' & HL & HR' & Em)]; rewrite HL, Em; cbn [fst snd ret].
  - show_next.
    destruct (kcopy_rep fuel b' x' p' script n' out' (zs data) off' rest' HR' Hfit' Hat' Hrd ltac:(rewrite p32; lia) ltac:(lia))
      as (t' & cn' & f' & x2 & HC & HR3).
    pose proof HR' as (_ & _ & Hp' & _).
    sd_let_red. sd_call HC. cbv beta iota delta [kbb_post]. sd_simplz. split; [reflexivity|]. split; [reflexivity|].
    rewrite (wrapu64_small p'), (wrapu64_small (p' + _)), wraps32_small by lia. exact HR3.
  - rewrite obind_return. cbv beta iota delta [kbb_post]. sd_simplz. split; [reflexivity|]. split; [reflexivity|exact HR'].
Qed.


Theorem safe_substdio_put : forall b x p fd script n out fuel data, Rep b x p script n out -> good b data -> enough fuel b script data ->
  option_map (fun r => K_substdio_put.v__oob (snd r)) (K_substdio_put.run fuel x (Z.of_nat (o_cap b)) p fd (zs data) 0 (Z.of_nat (length data)) script out n) = Some 0.
Proof.
  intros b x p fd script n out fuel data HR Hg Hen.
  pose proof (kpt_body fuel b x p fd script n out data HR Hg Hen) as H.
  unfold K_substdio_put.run.
  destruct (K_substdio_put.body _ _) as [st|v st|st|st|]; try contradiction.
  destruct H as [Ho _]. cbn [option_map snd]. rewrite Ho. reflexivity.
Qed.

Theorem safe_substdio_bput : forall b x p fd script n out fuel data, Rep b x p script n out -> good b data -> enough fuel b script data ->
  option_map (fun r => K_substdio_bput.v__oob (snd r)) (K_substdio_bput.run fuel x (Z.of_nat (o_cap b)) p fd (zs data) 0 (Z.of_nat (length data)) script out n) = Some 0.
Proof.
  intros b x p fd script n out fuel data HR Hg Hen.
  pose proof (kbb_body fuel b x p fd script n out data HR Hg Hen) as H.
  unfold K_substdio_bput.run.
  destruct (K_substdio_bput.body _ _) as [st|v st|st|st|]; try contradiction.
  destruct H as [Ho _]. cbn [option_map snd]. rewrite Ho. reflexivity.
Qed.
