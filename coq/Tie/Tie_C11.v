(* table tie for C11: every case label of qmail-lspawn.c report() (parsed from today's source, QLX_* resolved through
   qlx.h) maps to the verdict letter the model gives that exit code *)
From Coq Require Import ZArith NArith List String Ascii.
From NQ Require Import gen.Params_gen Local.Assign.
Import ListNotations.
Definition letter_of (v : N) : string := String (ascii_of_N v) EmptyString.
Lemma tie_lspawn_report_table :
  forallb (fun cl => match fst cl with
                     | Zneg _ => String.eqb (snd cl) "D"                       (* default: *)
                     | c => String.eqb (snd cl) (letter_of (lspawn_verdict false (Z.to_N c)))
                     end) Params_gen.lspawn_report_table = true
  /\ 15 <= length Params_gen.lspawn_report_table.
Proof. split; [vm_compute; reflexivity | vm_compute; repeat constructor]. Qed.
