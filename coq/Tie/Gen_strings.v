(* byte_copy.c, byte_cr.c, byte_zero.c, str_rchr.c, str_start.c, case_diffs.c, case_starts.c, scan_8long.c, fmt_str.c,
   fmt_uint.c, fmt_uint0.c as generated from today's sources  =  the list functions stated here (and the models of
   Base/CInt.v, Base/Bytes.v).  REQUIRED statements must be proved exactly as stated. *)
From Coq Require Import ZArith NArith List Lia.
From NQ Require Import Base.MiniC Base.Bytes Base.CInt Send.Route gen.CGen Tie.GenCommon Tie.GenAux.
Import ListNotations.
Local Open Scope Z_scope.
From Coq Require Import ZifyBool.
Ltac Zify.zify_post_hook ::= Z.div_mod_to_equations.

(* Proof conventions (as in Tie/Gen_numbers.v): nothing below mentions a generated fresh name; the generated
   run/body/loopK are unfolded, the setters and projections of the module are reduced by a per-module tactic (XX_simpl),
   and every loop lemma is an induction with the state written as a record literal.  The four-times unrolled loops are
   stated against a small recursive function on the Z arrays (zfill, zcopy, zcopyr, zstart, zrfind), related to the list
   functions of the statements by a separate lemma. *)

(* ---------- generic facts ---------- *)
Lemma b2z_if {A} (b : bool) (x y : A) : (if b2z b =? 0 then x else y) = if b then y else x.
Proof. destruct b; reflexivity. Qed.
Lemma of_nat_S_eqb k : (Z.of_nat (S k) =? 0) = false.
Proof. apply Z.eqb_neq; lia. Qed.
Lemma wrapu32_pred k : Z.of_nat (S k) < 4294967296 -> wrapu 32 (Z.of_nat (S k) - 1) = Z.of_nat k.
Proof. intros H. rewrite wrapu32_small; lia. Qed.

(* ---------- arrays ---------- *)
Lemma rd_nat (a : list Z) (k : nat) : rd a (Z.of_nat k) = nth k a 0.
Proof.
  unfold rd. destruct (Z.ltb_spec (Z.of_nat k) 0) as [H|H]; [lia|]. now rewrite Nat2Z.id.
Qed.
Lemma rd_range (a : list Z) : Forall (fun x => 0 <= x < 256) a -> forall i, 0 <= rd a i < 256.
Proof.
  intros Ha i. unfold rd. destruct (i <? 0); [lia|].
  destruct (nth_in_or_default (Z.to_nat i) a 0) as [Hin | ->]; [|lia].
  rewrite Forall_forall in Ha. now apply Ha.
Qed.
Lemma zs_ok (s : bytes) : bytes_ok s -> Forall (fun x => 0 <= x < 256) (zs s).
Proof.
  unfold bytes_ok, zs. intros H. apply Forall_map. eapply Forall_impl; [|exact H]. simpl. lia.
Qed.
Lemma rd_at_len (p l : list Z) : rd (p ++ l) (Z.of_nat (length p)) = hd 0 l.
Proof.
  rewrite rd_nat, app_nth2 by lia. rewrite Nat.sub_diag. now destruct l.
Qed.
Lemma len_snoc {A} (p : list A) x : Z.of_nat (length (p ++ [x])) = Z.of_nat (length p) + 1.
Proof. rewrite app_length. cbn [length]. lia. Qed.
Lemma char_id x : 0 <= x < 256 -> wrapu 8 (wraps 8 x) = x.
Proof. intros H. rewrite wraps8, wrapu8. lia. Qed.

(* ---------- strings as NUL-terminated arrays ---------- *)
Lemma rd_zs_mid (pre : bytes) x (rest : bytes) tl :
  rd (zs (pre ++ x :: rest) ++ tl) (Z.of_nat (length pre)) = Z.of_N x.
Proof. rewrite zs_app, <- app_assoc, <- (zs_length pre), rd_at_len. reflexivity. Qed.
Lemma rd_zs_end (s : bytes) tl : rd (zs s ++ tl) (Z.of_nat (length s)) = hd 0 tl.
Proof. rewrite <- (zs_length s). apply rd_at_len. Qed.
Lemma wraps8_nz v : 0 <= v < 256 -> v <> 0 -> (wraps 8 v =? 0) = false.
Proof. intros Hv Hnz. apply Z.eqb_neq. rewrite wraps8. lia. Qed.
Lemma bytes_ok_mid pre x rest : bytes_ok (pre ++ x :: rest) -> (x < 256)%N.
Proof. unfold bytes_ok. rewrite Forall_forall. intros H. apply H. apply in_or_app. right. now left. Qed.
Lemma snoc_assoc {A} (pre : list A) x rest : pre ++ x :: rest = (pre ++ [x]) ++ rest.
Proof. rewrite <- app_assoc. reflexivity. Qed.

(* comparison of two chars *)
Lemma cmp_char x y : 0 <= x < 256 -> 0 <= y < 256 ->
  (wraps 32 (wraps 8 x) =? wraps 32 (wraps 8 y)) = (x =? y).
Proof.
  intros Hx Hy.
  assert (Hx8 : -128 <= wraps 8 x < 128) by (rewrite wraps8; lia).
  assert (Hy8 : -128 <= wraps 8 y < 128) by (rewrite wraps8; lia).
  rewrite !wraps32_small by lia.
  destruct (Z.eqb_spec x y) as [->|Hne]; [apply Z.eqb_refl|].
  apply Z.eqb_neq. rewrite !wraps8. lia.
Qed.

Lemma zs0_range (s : bytes) : bytes_ok s -> forall i, 0 <= rd (zs s ++ [0]) i < 256.
Proof.
  intros Hs. apply rd_range. apply Forall_app. split; [now apply zs_ok|]. constructor; [lia|constructor].
Qed.
Lemma zs0_nz (s : bytes) : ~ In 0%N s -> forall j, 0 <= j < Z.of_nat (length s) -> rd (zs s ++ [0]) j <> 0.
Proof.
  intros Hnul j Hj. replace j with (Z.of_nat (Z.to_nat j)) by lia.
  rewrite rd_nat, app_nth1 by (rewrite zs_length; lia).
  unfold zs. change 0 with (Z.of_N 0). rewrite map_nth. intros E.
  apply Hnul. replace 0%N with (nth (Z.to_nat j) s 0%N) by lia. apply nth_In. lia.
Qed.

(* ---------- the C lower-casing of case_starts / case_diffs ---------- *)
Lemma rd_zs_hd (ps rs : bytes) : rd (zs (ps ++ rs) ++ [0]) (Z.of_nat (length ps)) = Z.of_N (hd 0%N rs).
Proof.
  destruct rs as [|y rs]; [|apply rd_zs_mid]. rewrite app_nil_r, rd_zs_end. reflexivity.
Qed.
Lemma hd_ok (ps rs : bytes) : bytes_ok (ps ++ rs) -> (hd 0%N rs < 256)%N.
Proof. destruct rs as [|y rs]; intros H; [reflexivity|]. apply (bytes_ok_mid _ _ _ H). Qed.

(* (unsigned char)(ch - 'A') *)
Notation c_off_A r := (wrapu 8 (wraps 32 (wraps 32 (wraps 8 r) - 65))) (only parsing).
Lemma clow_both (c : N) : (c < 256)%N ->
  (if wraps 32 (c_off_A (Z.of_N c)) <=? wraps 32 (90 - 65)
   then wrapu 8 (wraps 32 (wraps 32 (c_off_A (Z.of_N c)) + 97))
   else wrapu 8 (wraps 32 (wraps 32 (c_off_A (Z.of_N c)) + 65))) = Z.of_N (lower c).
Proof.
  intros H. apply Z.eqb_eq. revert c H. apply byte_sweep. vm_compute. reflexivity.
Qed.
Lemma clow_up (c : N) : (c < 256)%N -> (wraps 32 (c_off_A (Z.of_N c)) <=? wraps 32 (90 - 65)) = true ->
  wrapu 8 (wraps 32 (wraps 32 (c_off_A (Z.of_N c)) + 97)) = Z.of_N (lower c).
Proof. intros H E. rewrite <- (clow_both c H), E. reflexivity. Qed.
Lemma clow_no (c : N) : (c < 256)%N -> (wraps 32 (c_off_A (Z.of_N c)) <=? wraps 32 (90 - 65)) = false ->
  wrapu 8 (wraps 32 (wraps 32 (c_off_A (Z.of_N c)) + 65)) = Z.of_N (lower c).
Proof. intros H E. rewrite <- (clow_both c H), E. reflexivity. Qed.
Lemma lower_ok c : (c < 256)%N -> (lower c < 256)%N.
Proof. intros H. unfold lower. destruct ((65 <=? c) && (c <=? 90))%N eqn:E; lia. Qed.
Lemma lower_0 c : lower c = 0%N <-> c = 0%N.
Proof. unfold lower. destruct ((65 <=? c) && (c <=? 90))%N eqn:E; lia. Qed.

Lemma obind_return {S : Type} v (s : S) (f : S -> outcome S) : obind (OReturn v s) f = OReturn v s.
Proof. reflexivity. Qed.
Lemma obind_break {S : Type} (s : S) (f : S -> outcome S) : obind (OBreak s) f = OBreak s.
Proof. reflexivity. Qed.
Lemma ofN_lower_range c : (c < 256)%N -> -2147483648 <= Z.of_N (lower c) < 2147483648.
Proof. intros H. pose proof (lower_ok c H). lia. Qed.
Lemma obind_normal {S : Type} (s : S) (f : S -> outcome S) : obind (ONormal s) f = f s.
Proof. reflexivity. Qed.

(* x = ch - 'A'; if (x <= 'Z' - 'A') x += 'a'; else x += 'A'  on a byte c *)
Ltac low_step H :=
  rewrite b2z_if;
  match goal with |- context [if ?c then ONormal _ else ONormal _] =>
    let E := fresh "E" in destruct c eqn:E; [rewrite (clow_up _ H E) | rewrite (clow_no _ H E)]; clear E end;
  rewrite obind_normal; cbv beta.


(* ---------- byte_copy ---------- *)
Ltac bcp_simpl := cbv [C_byte_copy.set_v_to C_byte_copy.set_v_n C_byte_copy.set_v_from C_byte_copy.set_a_to C_byte_copy.set_a_from
                       C_byte_copy.v_to C_byte_copy.v_n C_byte_copy.v_from C_byte_copy.a_to C_byte_copy.a_from].

Fixpoint zcopy (dst src : list Z) (t f : Z) (k : nat) : list Z :=
  match k with O => dst | S k' => zcopy (wr dst t (rd src f)) src (t + 1) (f + 1) k' end.

Lemma zcopy_spec : forall (k : nat) (pd rd_ ps rs : list Z), (k <= length rd_)%nat -> (k <= length rs)%nat ->
  zcopy (pd ++ rd_) (ps ++ rs) (Z.of_nat (length pd)) (Z.of_nat (length ps)) k = pd ++ firstn k rs ++ skipn k rd_.
Proof.
  induction k as [|k IH]; intros pd rd_ ps rs Hd Hs; cbn [zcopy firstn skipn app]; [reflexivity|].
  destruct rd_ as [|x rd_]; [cbn [length] in Hd; lia|]. destruct rs as [|y rs]; [cbn [length] in Hs; lia|].
  cbn [length] in Hd, Hs.
  rewrite rd_app_mid, wr_app_mid, (app_cons_snoc pd y rd_), (app_cons_snoc ps y rs),
    <- (len_snoc pd y), <- (len_snoc ps y), IH by lia.
  rewrite <- app_assoc. reflexivity.
Qed.

Ltac bcp_step k Ha :=
  destruct k as [|k];
  [ cbn [Z.of_nat]; change (0 =? 0) with true; cbn [b2z obind zcopy]; change (1 =? 0) with false; cbv iota;
    eexists; eexists; eexists; reflexivity | ];
  rewrite of_nat_S_eqb; cbn [b2z]; change (0 =? 0) with true; cbv iota; cbn [obind]; bcp_simpl;
  rewrite (char_id _ (Ha _)); cbn [zcopy];
  rewrite wrapu32_pred by lia.

Lemma bcp_loop (f0 : nat) (src : list Z) : (forall i, 0 <= rd src i < 256) ->
  forall fuel k t f a, (k < fuel)%nat -> Z.of_nat k < 4294967296 ->
  exists t' n' f', C_byte_copy.loop1 f0 fuel {| C_byte_copy.v_to := t; C_byte_copy.v_n := Z.of_nat k; C_byte_copy.v_from := f;
                                               C_byte_copy.a_to := a; C_byte_copy.a_from := src |}
    = OReturn 0 {| C_byte_copy.v_to := t'; C_byte_copy.v_n := n'; C_byte_copy.v_from := f';
                   C_byte_copy.a_to := zcopy a src t f k; C_byte_copy.a_from := src |}.
Proof.
  intros Ha. induction fuel as [|fu IH]; intros k t f a Hk Hk32; [lia|].
  cbn [C_byte_copy.loop1]. change (1 =? 0) with false. cbv iota. bcp_simpl.
  bcp_step k Ha. bcp_step k Ha. bcp_step k Ha. bcp_step k Ha.
  apply IH; lia.
Qed.

(* REQUIRED: byte_copy(to, n, from) with both arrays long enough: the first n cells of [to] become the first n of [from], the rest stays *)
Theorem gen_byte_copy_eq : forall (dst src : list Z) (n : nat), zbytes_ok src -> (n <= length dst)%nat -> (n <= length src)%nat -> Z.of_nat n < 2 ^ 32 ->
  option_map (fun r => C_byte_copy.a_to (snd r)) (C_byte_copy.run (S n) dst 0 (Z.of_nat n) src 0) = Some (firstn n src ++ skipn n dst).
Proof.
  intros dst src n Hsrc Hd Hs Hn32. rewrite p32 in Hn32.
  unfold C_byte_copy.run, C_byte_copy.body.
  destruct (bcp_loop (S n) src (rd_range _ Hsrc) (S n) n 0 0 dst ltac:(lia) Hn32) as (t' & n' & f' & Hl).
  rewrite Hl. cbn [option_map snd]. bcp_simpl.
  f_equal. apply (zcopy_spec n [] dst [] src Hd Hs).
Qed.

(* ---------- byte_copyr ---------- *)
Ltac bcr_simpl := cbv [C_byte_copyr.set_v_to C_byte_copyr.set_v_n C_byte_copyr.set_v_from C_byte_copyr.set_a_to C_byte_copyr.set_a_from
                       C_byte_copyr.v_to C_byte_copyr.v_n C_byte_copyr.v_from C_byte_copyr.a_to C_byte_copyr.a_from].

Fixpoint zcopyr (dst src : list Z) (t f : Z) (k : nat) : list Z :=
  match k with O => dst | S k' => zcopyr (wr dst (t - 1) (rd src (f - 1))) src (t - 1) (f - 1) k' end.

Lemma firstn_S_snoc (l : list Z) : forall k, (S k <= length l)%nat -> firstn (S k) l = firstn k l ++ [nth k l 0].
Proof.
  induction l as [|x l IH]; intros k Hk; [cbn [length] in Hk; lia|].
  destruct k as [|k]; [reflexivity|]. cbn [length] in Hk.
  change (firstn (S (S k)) (x :: l)) with (x :: firstn (S k) l). rewrite IH by lia. reflexivity.
Qed.

Lemma zcopyr_spec (dst src : list Z) : forall (k : nat) (tl : list Z), (k <= length dst)%nat -> (k <= length src)%nat ->
  zcopyr (firstn k dst ++ tl) src (Z.of_nat k) (Z.of_nat k) k = firstn k src ++ tl.
Proof.
  induction k as [|k IH]; intros tl Hd Hs; [reflexivity|].
  cbn [zcopyr]. replace (Z.of_nat (S k) - 1) with (Z.of_nat k) by lia.
  rewrite !firstn_S_snoc by lia. rewrite <- !app_assoc. cbn [app].
  assert (Hl : length (firstn k dst) = k) by (apply firstn_length_le; lia).
  pose proof (wr_app_mid (firstn k dst) (nth k dst 0) tl (rd src (Z.of_nat k))) as Hw. rewrite Hl in Hw.
  rewrite Hw, rd_nat. apply IH; lia.
Qed.

Ltac bcr_step k Ha :=
  destruct k as [|k];
  [ cbn [Z.of_nat]; change (0 =? 0) with true; cbn [b2z obind zcopyr]; change (1 =? 0) with false; cbv iota;
    eexists; eexists; eexists; reflexivity | ];
  rewrite of_nat_S_eqb; cbn [b2z]; change (0 =? 0) with true; cbv iota; cbn [obind]; bcr_simpl;
  rewrite (char_id _ (Ha _)); cbn [zcopyr];
  rewrite wrapu32_pred by lia.

Lemma bcr_loop (f0 : nat) (src : list Z) : (forall i, 0 <= rd src i < 256) ->
  forall fuel k t f a, (k < fuel)%nat -> Z.of_nat k < 4294967296 ->
  exists t' n' f', C_byte_copyr.loop1 f0 fuel {| C_byte_copyr.v_to := t; C_byte_copyr.v_n := Z.of_nat k; C_byte_copyr.v_from := f;
                                               C_byte_copyr.a_to := a; C_byte_copyr.a_from := src |}
    = OReturn 0 {| C_byte_copyr.v_to := t'; C_byte_copyr.v_n := n'; C_byte_copyr.v_from := f';
                   C_byte_copyr.a_to := zcopyr a src t f k; C_byte_copyr.a_from := src |}.
Proof.
  intros Ha. induction fuel as [|fu IH]; intros k t f a Hk Hk32; [lia|].
  cbn [C_byte_copyr.loop1]. change (1 =? 0) with false. cbv iota. bcr_simpl.
  bcr_step k Ha. bcr_step k Ha. bcr_step k Ha. bcr_step k Ha.
  apply IH; lia.
Qed.

(* REQUIRED: byte_copyr copies backwards; on distinct arrays the result is the same *)
Theorem gen_byte_copyr_eq : forall (dst src : list Z) (n : nat), zbytes_ok src -> (n <= length dst)%nat -> (n <= length src)%nat -> Z.of_nat n < 2 ^ 32 ->
  option_map (fun r => C_byte_copyr.a_to (snd r)) (C_byte_copyr.run (S n) dst 0 (Z.of_nat n) src 0) = Some (firstn n src ++ skipn n dst).
Proof.
  intros dst src n Hsrc Hd Hs Hn32. rewrite p32 in Hn32.
  unfold C_byte_copyr.run, C_byte_copyr.body. bcr_simpl. rewrite !Z.add_0_l.
  destruct (bcr_loop (S n) src (rd_range _ Hsrc) (S n) n (Z.of_nat n) (Z.of_nat n) dst ltac:(lia) Hn32) as (t' & n' & f' & Hl).
  rewrite Hl. cbn [option_map snd]. bcr_simpl.
  f_equal. rewrite <- (firstn_skipn n dst) at 1. apply (zcopyr_spec dst src n (skipn n dst) Hd Hs).
Qed.

(* ---------- byte_zero ---------- *)
Ltac bz_simpl := cbv [C_byte_zero.set_v_s C_byte_zero.set_v_n C_byte_zero.set_a_s
                      C_byte_zero.v_s C_byte_zero.v_n C_byte_zero.a_s].

Fixpoint zfill (a : list Z) (t : Z) (k : nat) : list Z :=
  match k with O => a | S k' => zfill (wr a t 0) (t + 1) k' end.

Lemma zfill_spec : forall (k : nat) (pre rest : list Z), (k <= length rest)%nat ->
  zfill (pre ++ rest) (Z.of_nat (length pre)) k = pre ++ repeat 0 k ++ skipn k rest.
Proof.
  induction k as [|k IH]; intros pre rest Hk; cbn [zfill repeat skipn app]; [reflexivity|].
  destruct rest as [|x rest]; [cbn [length] in Hk; lia|]. cbn [length] in Hk.
  rewrite wr_app_mid, (app_cons_snoc pre 0 rest), <- (len_snoc pre 0), IH by lia.
  rewrite <- app_assoc. reflexivity.
Qed.

Ltac bz_step k :=
  destruct k as [|k];
  [ cbn [Z.of_nat]; change (0 =? 0) with true; cbn [b2z obind zfill]; change (1 =? 0) with false; cbv iota;
    eexists; eexists; reflexivity | ];
  rewrite of_nat_S_eqb; cbn [b2z]; change (0 =? 0) with true; cbv iota; cbn [obind]; bz_simpl;
  change (wrapu 8 (wraps 8 0)) with 0; cbn [zfill];
  rewrite wrapu32_pred by lia.

Lemma bz_loop (f0 : nat) :
  forall fuel k t a, (k < fuel)%nat -> Z.of_nat k < 4294967296 ->
  exists t' n', C_byte_zero.loop1 f0 fuel {| C_byte_zero.v_s := t; C_byte_zero.v_n := Z.of_nat k; C_byte_zero.a_s := a |}
    = ONormal {| C_byte_zero.v_s := t'; C_byte_zero.v_n := n'; C_byte_zero.a_s := zfill a t k |}.
Proof.
  induction fuel as [|f IH]; intros k t a Hk Hk32; [lia|].
  cbn [C_byte_zero.loop1]. change (1 =? 0) with false. cbv iota. bz_simpl.
  bz_step k. bz_step k. bz_step k. bz_step k.
  apply IH; lia.
Qed.

(* REQUIRED *)
Theorem gen_byte_zero_eq : forall (a : list Z) (n : nat), (n <= length a)%nat -> Z.of_nat n < 2 ^ 32 ->
  option_map (fun r => C_byte_zero.a_s (snd r)) (C_byte_zero.run (S n) a 0 (Z.of_nat n)) = Some (repeat 0 n ++ skipn n a).
Proof.
  intros a n Hn Hn32. rewrite p32 in Hn32.
  unfold C_byte_zero.run, C_byte_zero.body.
  destruct (bz_loop (S n) (S n) n 0 a ltac:(lia) Hn32) as (t' & n' & Hl).
  rewrite Hl. cbn [option_map snd]. bz_simpl.
  f_equal. apply (zfill_spec n [] a Hn).
Qed.

(* ---------- str_rchr ---------- *)
Ltac sr_simpl := cbv [C_str_rchr.set_v_s C_str_rchr.set_v_c C_str_rchr.set_v_ch C_str_rchr.set_v_t C_str_rchr.set_v_u C_str_rchr.set_a_s
                      C_str_rchr.v_s C_str_rchr.v_c C_str_rchr.v_ch C_str_rchr.v_t C_str_rchr.v_u C_str_rchr.a_s].

(* last position in [t, t+k) holding c, or u *)
Fixpoint zrfind (a : list Z) (c : Z) (k : nat) (t u : Z) : Z :=
  match k with O => u | S k' => zrfind a c k' (t + 1) (if rd a t =? c then t else u) end.

Lemma zrfind_rchr (c : N) (rest pre : bytes) (tl : list Z) (u : Z) :
  zrfind (zs (pre ++ rest) ++ tl) (Z.of_N c) (length rest) (Z.of_nat (length pre)) u
  = match rchr_opt rest c with Some i => Z.of_nat (length pre + i) | None => u end.
Proof.
  revert pre u. induction rest as [|x rest IH]; intros pre u; cbn [zrfind rchr_opt length]; [reflexivity|].
  rewrite rd_zs_mid.
  specialize (IH (pre ++ [x])). rewrite <- app_assoc in IH. cbn [app] in IH.
  rewrite app_length in IH. cbn [length] in IH.
  replace (Z.of_nat (length pre) + 1) with (Z.of_nat (length pre + 1)) by lia.
  rewrite IH. destruct (rchr_opt rest c) as [i|]; [f_equal; lia|].
  destruct (N.eqb_spec x c) as [->|Hne].
  - rewrite Z.eqb_refl. f_equal; lia.
  - destruct (Z.eqb_spec (Z.of_N x) (Z.of_N c)) as [E|_]; [apply N2Z.inj in E; contradiction|reflexivity].
Qed.

Lemma rchr_opt_lt s c i : rchr_opt s c = Some i -> (i < length s)%nat.
Proof.
  revert i. induction s as [|x s IH]; intros i; cbn [rchr_opt length]; [discriminate|].
  destruct (rchr_opt s c) as [j|].
  - intros E; injection E as <-. specialize (IH j eq_refl). lia.
  - destruct (N.eqb x c); [intros E; injection E as <-; lia|discriminate].
Qed.

(* one copy of the four-times unrolled loop body *)
Ltac sr_step k a Ha Hc He Hnz :=
  destruct k as [|k];
  [ match goal with |- context [zrfind a _ O ?t' _] =>
      replace (rd a t') with 0 by (rewrite <- He; f_equal; lia) end;
    change (wraps 8 0 =? 0) with true; cbn [b2z obind zrfind]; change (1 =? 0) with false; cbv iota;
    eexists; split; [reflexivity|lia] | ];
  match goal with |- context [zrfind a _ (S k) ?t' _] =>
    let H := fresh "Hnz'" in
    assert (H : rd a t' <> 0) by (apply Hnz; lia);
    rewrite (wraps8_nz _ (Ha t') H) end;
  cbn [b2z]; change (0 =? 0) with true; cbv iota; cbn [obind]; sr_simpl;
  rewrite (cmp_char _ _ (Ha _) Hc); cbn [zrfind];
  match goal with |- context [rd ?a1 ?t1 =? ?c1] => destruct (rd a1 t1 =? c1) end;
  cbn [b2z]; change (0 =? 0) with true; change (1 =? 0) with false; cbv iota; cbn [obind]; sr_simpl.

Lemma sr_loop (a : list Z) (c e : Z) (f0 : nat) (s0 cc : Z) :
  (forall i, 0 <= rd a i < 256) -> 0 <= c < 256 -> rd a e = 0 ->
  forall fuel k t u, (k < fuel)%nat -> t + Z.of_nat k = e -> (forall j, t <= j < e -> rd a j <> 0) ->
  exists t',
  C_str_rchr.loop1 f0 fuel {| C_str_rchr.v_s := s0; C_str_rchr.v_c := cc; C_str_rchr.v_ch := wraps 8 c; C_str_rchr.v_t := t;
                              C_str_rchr.v_u := u; C_str_rchr.a_s := a |}
    = ONormal {| C_str_rchr.v_s := s0; C_str_rchr.v_c := cc; C_str_rchr.v_ch := wraps 8 c; C_str_rchr.v_t := t';
                 C_str_rchr.v_u := zrfind a c k t u; C_str_rchr.a_s := a |}
  /\ t' = e.
Proof.
  intros Ha Hc He. induction fuel as [|f IH]; intros k t u Hk Hte Hnz; [lia|].
  cbn [C_str_rchr.loop1]. change (1 =? 0) with false. cbv iota. sr_simpl.
  sr_step k a Ha Hc He Hnz; sr_step k a Ha Hc He Hnz; sr_step k a Ha Hc He Hnz; sr_step k a Ha Hc He Hnz;
  (apply IH; [lia|lia|]; intros j Hj; apply Hnz; lia).
Qed.

(* REQUIRED: str_rchr on a NUL-terminated string without inner NUL, c <> 0: the model's rchr (last occurrence, or the length) *)
Theorem gen_str_rchr_eq : forall (s : bytes) (c : N), bytes_ok s -> ~ In 0%N s -> (0 < c < 256)%N -> Z.of_nat (length s) < 2 ^ 31 ->
  retval (C_str_rchr.run (S (length s)) (zs s ++ [0]) 0 (Z.of_N c)) = Some (Z.of_nat (rchr s c)).
Proof.
  intros s c Hs Hnul Hc Hlen. rewrite p31 in Hlen.
  unfold C_str_rchr.run, C_str_rchr.body. sr_simpl.
  destruct (sr_loop (zs s ++ [0]) (Z.of_N c) (Z.of_nat (length s)) (S (length s)) 0 (Z.of_N c) (zs0_range s Hs) ltac:(lia)
              (rd_zs_end s [0]) (S (length s)) (length s) 0 (-1) ltac:(lia) ltac:(lia) (zs0_nz s Hnul)) as (t' & Hl & Ht').
  rewrite Hl. rewrite obind_normal. cbv beta. sr_simpl.
  pose proof (zrfind_rchr c s [] [0] (-1)) as Hz. cbn [app length Z.of_nat] in Hz.
  rewrite Hz. unfold rchr. rewrite b2z_if.
  destruct (rchr_opt s c) as [i|] eqn:Er.
  - apply rchr_opt_lt in Er. cbn [Nat.add].
    destruct (Z.eqb_spec (Z.of_nat i) (-1)) as [E|_]; [lia|].
    rewrite obind_normal. cbv beta. cbn [retval option_map fst]. sr_simpl. f_equal. rewrite Z.sub_0_r. apply wrapu32_small. lia.
  - change (-1 =? -1) with true. cbv iota. rewrite obind_normal. cbv beta. cbn [retval option_map fst]. sr_simpl.
    f_equal. subst t'. rewrite Z.sub_0_r. apply wrapu32_small. lia.
Qed.

(* ---------- str_start ---------- *)
Ltac ss_simpl := cbv [C_str_start.set_v_s C_str_start.set_v_t C_str_start.set_v_x C_str_start.set_a_s C_str_start.set_a_t
                      C_str_start.v_s C_str_start.v_t C_str_start.v_x C_str_start.a_s C_str_start.a_t].

(* k characters of t left before its NUL *)
Fixpoint zstart (a b : list Z) (s t : Z) (k : nat) : Z :=
  match k with
  | O => 1
  | S k' => if rd b t =? rd a s then zstart a b (s + 1) (t + 1) k' else 0
  end.

Lemma zstart_spec : forall (rt rs ps pt : bytes), ~ In 0%N rt ->
  zstart (zs (ps ++ rs) ++ [0]) (zs (pt ++ rt) ++ [0]) (Z.of_nat (length ps)) (Z.of_nat (length pt)) (length rt)
  = if is_prefix rt rs then 1 else 0.
Proof.
  induction rt as [|x rt IH]; intros rs ps pt Hnz; cbn [length zstart is_prefix]; [reflexivity|].
  rewrite rd_zs_mid.
  assert (Hx0 : x <> 0%N) by (intros ->; apply Hnz; now left).
  destruct rs as [|y rs].
  - rewrite app_nil_r, rd_zs_end. cbn [hd].
    destruct (Z.eqb_spec (Z.of_N x) 0) as [E|_]; [lia|reflexivity].
  - rewrite rd_zs_mid.
    destruct (N.eqb_spec y x) as [->|Hne].
    + rewrite Z.eqb_refl. cbn [andb].
      rewrite (snoc_assoc ps x rs), (snoc_assoc pt x rt), <- (len_snoc ps x), <- (len_snoc pt x).
      apply IH. intros Hin. apply Hnz. now right.
    + destruct (Z.eqb_spec (Z.of_N x) (Z.of_N y)) as [E|_]; [apply N2Z.inj in E; congruence|reflexivity].
Qed.

(* one copy of the four-times unrolled loop body *)
Ltac ss_step k b Ha Hb He Hnz :=
  destruct k as [|k];
  [ match goal with |- context [zstart _ b _ ?t' O] =>
      replace (rd b t') with 0 by (rewrite <- He; f_equal; lia) end;
    change (wraps 8 0 =? 0) with true; cbn [b2z obind zstart]; change (1 =? 0) with false; cbv iota;
    eexists; eexists; eexists; reflexivity | ];
  match goal with |- context [zstart _ b _ ?t' (S k)] =>
    let H := fresh "Hnz'" in
    assert (H : rd b t' <> 0) by (apply Hnz; lia);
    rewrite (wraps8_nz _ (Hb t') H) end;
  cbn [b2z]; change (0 =? 0) with true; cbv iota; cbn [obind]; ss_simpl;
  rewrite (cmp_char _ _ (Hb _) (Ha _)); cbn [zstart];
  match goal with |- context [rd ?a1 ?t1 =? rd ?a2 ?sp] => destruct (rd a1 t1 =? rd a2 sp) end;
  [ cbn [negb b2z]; change (0 =? 0) with true; cbv iota; cbn [obind]; ss_simpl
  | cbn [negb b2z]; change (1 =? 0) with false; cbv iota; cbn [obind]; eexists; eexists; eexists; reflexivity ].

Lemma ss_loop (a b : list Z) (e : Z) (f0 : nat) :
  (forall i, 0 <= rd a i < 256) -> (forall i, 0 <= rd b i < 256) -> rd b e = 0 ->
  forall fuel k s t x0, (k < fuel)%nat -> t + Z.of_nat k = e -> (forall j, t <= j < e -> rd b j <> 0) ->
  exists s' t' x',
  C_str_start.loop1 f0 fuel {| C_str_start.v_s := s; C_str_start.v_t := t; C_str_start.v_x := x0; C_str_start.a_s := a; C_str_start.a_t := b |}
    = OReturn (zstart a b s t k) {| C_str_start.v_s := s'; C_str_start.v_t := t'; C_str_start.v_x := x'; C_str_start.a_s := a; C_str_start.a_t := b |}.
Proof.
  intros Ha Hb He. induction fuel as [|f IH]; intros k s t x0 Hk Hte Hnz; [lia|].
  cbn [C_str_start.loop1]. change (1 =? 0) with false. cbv iota. ss_simpl.
  ss_step k b Ha Hb He Hnz. ss_step k b Ha Hb He Hnz. ss_step k b Ha Hb He Hnz. ss_step k b Ha Hb He Hnz.
  apply IH; [lia|lia|]. intros j Hj. apply Hnz. lia.
Qed.

(* REQUIRED: str_start(s, t) = 1 iff t is a prefix of s (both NUL-terminated, no inner NUL) *)
Theorem gen_str_start_eq : forall s t : bytes, bytes_ok s -> bytes_ok t -> ~ In 0%N s -> ~ In 0%N t ->
  retval (C_str_start.run (S (length t)) (zs s ++ [0]) 0 (zs t ++ [0]) 0) = Some (if is_prefix t s then 1 else 0).
Proof.
  intros s t Hs Ht Hns Hnt.
  unfold C_str_start.run, C_str_start.body.
  destruct (ss_loop (zs s ++ [0]) (zs t ++ [0]) (Z.of_nat (length t)) (S (length t)) (zs0_range s Hs) (zs0_range t Ht)
              (rd_zs_end t [0]) (S (length t)) (length t) 0 0 0 ltac:(lia) ltac:(lia) (zs0_nz t Hnt)) as (s' & t' & x' & Hl).
  rewrite Hl. cbn [retval option_map fst]. f_equal.
  apply (zstart_spec t s [] [] Hnt).
Qed.

(* ---------- case_starts ---------- *)
Ltac cst_simpl := cbv [C_case_starts.set_v_s C_case_starts.set_v_t C_case_starts.set_v_x C_case_starts.set_v_y
                       C_case_starts.set_a_s C_case_starts.set_a_t
                       C_case_starts.v_s C_case_starts.v_t C_case_starts.v_x C_case_starts.v_y C_case_starts.a_s C_case_starts.a_t].

Lemma cst_loop (f0 : nat) :
  forall (rt rs ps pt : bytes) (x0 y0 : Z) (fuel : nat), (length rt < fuel)%nat ->
  bytes_ok (ps ++ rs) -> bytes_ok (pt ++ rt) -> ~ In 0%N rs -> ~ In 0%N rt ->
  exists s' t' x' y',
  C_case_starts.loop1 f0 fuel {| C_case_starts.v_s := Z.of_nat (length ps); C_case_starts.v_t := Z.of_nat (length pt);
     C_case_starts.v_x := x0; C_case_starts.v_y := y0;
     C_case_starts.a_s := zs (ps ++ rs) ++ [0]; C_case_starts.a_t := zs (pt ++ rt) ++ [0] |}
  = OReturn (if is_prefix (lowers rt) (lowers rs) then 1 else 0)
     {| C_case_starts.v_s := s'; C_case_starts.v_t := t'; C_case_starts.v_x := x'; C_case_starts.v_y := y';
        C_case_starts.a_s := zs (ps ++ rs) ++ [0]; C_case_starts.a_t := zs (pt ++ rt) ++ [0] |}.
Proof.
  induction rt as [|ct rt IH]; intros rs ps pt x0 y0 fuel Hfuel Hs Ht Hns Hnt;
    (destruct fuel as [|f]; [cbn [length] in Hfuel; lia|]);
    cbn [C_case_starts.loop1]; change (1 =? 0) with false; cbv iota; cst_simpl;
    rewrite !rd_zs_hd; pose proof (hd_ok _ _ Hs) as Hcs; pose proof (hd_ok _ _ Ht) as Hct.
  - (* t is exhausted *)
    all: low_step Hcs; cst_simpl; rewrite rd_zs_hd; low_step Hct; cst_simpl.
    all: change (Z.of_N (lower (hd 0%N []))) with 0; change (0 =? 0) with true; cbn [b2z]; change (1 =? 0) with false; cbv iota.
    all: rewrite obind_return; cbn [lowers map is_prefix]; do 4 eexists; reflexivity.
  - low_step Hcs; cst_simpl; rewrite rd_zs_hd; low_step Hct; cst_simpl.
    all: cbn [hd] in Hct |- *.
    all: assert (Hct0 : ct <> 0%N) by (intros ->; apply Hnt; now left).
    all: assert (Hl0 : (Z.of_N (lower ct) =? 0) = false) by (apply Z.eqb_neq; pose proof (lower_0 ct); lia).
    all: rewrite Hl0; cbn [b2z]; change (0 =? 0) with true; cbv iota; rewrite obind_normal; cbv beta; cst_simpl.
    all: rewrite (wraps32_small _ (ofN_lower_range _ Hcs)), (wraps32_small _ (ofN_lower_range _ Hct)).
    all: destruct rs as [|cs rs]; cbn [hd lowers map is_prefix];
      [ change (Z.of_N (lower 0)) with 0; rewrite (Z.eqb_sym 0 (Z.of_N (lower ct))), Hl0; cbn [negb b2z]; change (1 =? 0) with false; cbv iota;
        do 4 eexists; reflexivity | ].
    all: fold (lowers rt); fold (lowers rs).
    all: destruct (N.eqb_spec (lower cs) (lower ct)) as [El|El];
      [ rewrite El, Z.eqb_refl; cbn [negb b2z andb]; change (0 =? 0) with true; cbv iota
      | destruct (Z.eqb_spec (Z.of_N (lower cs)) (Z.of_N (lower ct))) as [E|_]; [apply N2Z.inj in E; congruence|];
        cbn [negb b2z andb]; change (1 =? 0) with false; cbv iota; do 4 eexists; reflexivity ].
    all: rewrite (snoc_assoc ps cs rs), (snoc_assoc pt ct rt), <- (len_snoc ps cs), <- (len_snoc pt ct) in *.
    all: apply IH; [cbn [length] in Hfuel; lia | exact Hs | exact Ht | intros Hin; apply Hns; now right | intros Hin; apply Hnt; now right].
Qed.

(* REQUIRED: case_starts(s, t) = 1 iff t is a prefix of s ignoring case *)
Theorem gen_case_starts_eq : forall s t : bytes, bytes_ok s -> bytes_ok t -> ~ In 0%N s -> ~ In 0%N t ->
  retval (C_case_starts.run (S (length t)) (zs s ++ [0]) 0 (zs t ++ [0]) 0) = Some (if is_prefix (lowers t) (lowers s) then 1 else 0).
Proof.
  intros s t Hs Ht Hns Hnt.
  unfold C_case_starts.run, C_case_starts.body.
  destruct (cst_loop (S (length t)) t s [] [] 0 0 (S (length t)) ltac:(lia) Hs Ht Hns Hnt) as (s' & t' & x' & y' & Hl).
  cbn [app length Z.of_nat] in Hl. rewrite Hl. reflexivity.
Qed.

(* ---------- case_diffs ---------- *)
Ltac cd_simpl := cbv [C_case_diffs.set_v_s C_case_diffs.set_v_t C_case_diffs.set_v_x C_case_diffs.set_v_y
                      C_case_diffs.set_a_s C_case_diffs.set_a_t
                      C_case_diffs.v_s C_case_diffs.v_t C_case_diffs.v_x C_case_diffs.v_y C_case_diffs.a_s C_case_diffs.a_t].

Lemma ofN_lower_nz c : c <> 0%N -> (Z.of_N (lower c) =? 0) = false.
Proof. intros H. apply Z.eqb_neq. pose proof (lower_0 c). lia. Qed.

Lemma cd_loop (f0 : nat) :
  forall (rs rt ps pt : bytes) (x0 y0 : Z) (fuel : nat), (length rs < fuel)%nat ->
  bytes_ok (ps ++ rs) -> bytes_ok (pt ++ rt) -> ~ In 0%N rs -> ~ In 0%N rt ->
  exists s' t' x' y',
  C_case_diffs.loop1 f0 fuel {| C_case_diffs.v_s := Z.of_nat (length ps); C_case_diffs.v_t := Z.of_nat (length pt);
     C_case_diffs.v_x := x0; C_case_diffs.v_y := y0;
     C_case_diffs.a_s := zs (ps ++ rs) ++ [0]; C_case_diffs.a_t := zs (pt ++ rt) ++ [0] |}
  = ONormal
     {| C_case_diffs.v_s := s'; C_case_diffs.v_t := t'; C_case_diffs.v_x := x'; C_case_diffs.v_y := y';
        C_case_diffs.a_s := zs (ps ++ rs) ++ [0]; C_case_diffs.a_t := zs (pt ++ rt) ++ [0] |}
  /\ 0 <= x' < 256 /\ 0 <= y' < 256 /\ (x' = y' <-> beq (lowers rs) (lowers rt) = true).
Proof.
  induction rs as [|cs rs IH]; intros rt ps pt x0 y0 fuel Hfuel Hs Ht Hns Hnt;
    (destruct fuel as [|f]; [cbn [length] in Hfuel; lia|]);
    destruct rt as [|ct rt];
    cbn [C_case_diffs.loop1]; change (1 =? 0) with false; cbv iota; cd_simpl;
    rewrite rd_zs_hd; pose proof (hd_ok _ _ Hs) as Hcs; pose proof (hd_ok _ _ Ht) as Hct;
    low_step Hcs; cd_simpl; rewrite rd_zs_hd; low_step Hct; cd_simpl;
    rewrite (wraps32_small _ (ofN_lower_range _ Hcs)), ?(wraps32_small _ (ofN_lower_range _ Hct));
    cbn [hd] in Hcs, Hct |- *; cbn [lowers map beq].
  (* s and t exhausted *)
  1-4: change (Z.of_N (lower 0)) with 0; change (0 =? 0) with true; cbn [negb b2z]; change (0 =? 0) with true; cbv iota;
       rewrite obind_normal; cbv beta; cd_simpl; change (0 =? 0) with true; cbn [b2z]; change (1 =? 0) with false; cbv iota;
       do 4 eexists; split; [reflexivity|]; repeat split; lia.
  (* s exhausted, t not *)
  1-4: assert (Hct0 : ct <> 0%N) by (intros ->; apply Hnt; now left);
       change (Z.of_N (lower 0)) with 0; rewrite (Z.eqb_sym 0 (Z.of_N (lower ct))), (ofN_lower_nz _ Hct0);
       cbn [negb b2z]; change (1 =? 0) with false; cbv iota; rewrite obind_break;
       do 4 eexists; split; [reflexivity|]; pose proof (lower_ok _ Hct); pose proof (lower_0 ct);
       repeat split; try lia; try discriminate.
  (* t exhausted, s not *)
  1-4: assert (Hcs0 : cs <> 0%N) by (intros ->; apply Hns; now left);
       change (Z.of_N (lower 0)) with 0; rewrite (ofN_lower_nz _ Hcs0);
       cbn [negb b2z]; change (1 =? 0) with false; cbv iota; rewrite obind_break;
       do 4 eexists; split; [reflexivity|]; pose proof (lower_ok _ Hcs); pose proof (lower_0 cs);
       repeat split; try lia; try discriminate.
  (* both have a character *)
  all: assert (Hcs0 : cs <> 0%N) by (intros ->; apply Hns; now left).
  all: fold (lowers rt); fold (lowers rs).
  all: destruct (N.eqb_spec (lower cs) (lower ct)) as [El|El];
      [ rewrite <- El, Z.eqb_refl; cbn [negb b2z andb]; change (0 =? 0) with true; cbv iota;
        rewrite obind_normal; cbv beta; cd_simpl; rewrite (ofN_lower_nz _ Hcs0); cbn [b2z]; change (0 =? 0) with true; cbv iota
      | destruct (Z.eqb_spec (Z.of_N (lower cs)) (Z.of_N (lower ct))) as [E|NE]; [apply N2Z.inj in E; congruence|];
        cbn [negb b2z andb]; change (1 =? 0) with false; cbv iota; rewrite obind_break;
        do 4 eexists; split; [reflexivity|]; pose proof (lower_ok _ Hcs); pose proof (lower_ok _ Hct);
        repeat split; try lia; try discriminate ].
  all: rewrite (snoc_assoc ps cs rs), (snoc_assoc pt ct rt), <- (len_snoc ps cs), <- (len_snoc pt ct) in *.
  all: apply IH; [cbn [length] in Hfuel; lia | exact Hs | exact Ht | intros Hin; apply Hns; now right | intros Hin; apply Hnt; now right].
Qed.

(* REQUIRED: case_diffs returns 0 exactly for strings equal ignoring case *)
Theorem gen_case_diffs_eq : forall s t : bytes, bytes_ok s -> bytes_ok t -> ~ In 0%N s -> ~ In 0%N t ->
  exists v, retval (C_case_diffs.run (S (length s)) (zs s ++ [0]) 0 (zs t ++ [0]) 0) = Some v /\ (v = 0 <-> beq (lowers s) (lowers t) = true).
Proof.
  intros s t Hs Ht Hns Hnt.
  unfold C_case_diffs.run, C_case_diffs.body.
  destruct (cd_loop (S (length s)) s t [] [] 0 0 (S (length s)) ltac:(lia) Hs Ht Hns Hnt) as (s' & t' & x' & y' & Hl & Hx & Hy & Hxy).
  cbn [app length Z.of_nat] in Hl. rewrite Hl. rewrite obind_normal. cbv beta. cd_simpl.
  eexists. split; [reflexivity|]. cbn [fst]. rewrite <- Hxy.
  rewrite (wrapu32_small x'), (wrapu32_small y') by lia.
  rewrite (wraps32_small x'), (wraps32_small y') by lia. rewrite wraps32_small by lia. lia.
Qed.

(* octal digits *)
Fixpoint scan8_from (s : bytes) (acc : N) (pos : nat) : N * nat :=
  match s with
  | c :: s' => if ((48 <=? c) && (c <=? 55))%N then scan8_from s' ((acc * 8 + (c - 48)) mod U64)%N (S pos) else (acc, pos)
  | [] => (acc, pos)
  end.

(* ---------- scan_8long ---------- *)
Ltac s8_simpl := cbv [C_scan_8long.set_v_s C_scan_8long.set_v_u C_scan_8long.set_v_pos C_scan_8long.set_v_result
                      C_scan_8long.set_v_c C_scan_8long.set_a_s C_scan_8long.set_a_u
                      C_scan_8long.v_s C_scan_8long.v_u C_scan_8long.v_pos C_scan_8long.v_result C_scan_8long.v_c
                      C_scan_8long.a_s C_scan_8long.a_u].

(* (unsigned long)(unsigned char)(ch - '0') *)
Notation digit_of x := (wrapu 64 (wrapu 8 (wraps 32 (wraps 32 (wraps 8 x) - 48)))) (only parsing).
Definition is_odigit (x : N) : bool := ((48 <=? x) && (x <=? 55))%N.

Lemma digit8_spec (x : N) : (x < 256)%N ->
  (digit_of (Z.of_N x) <? 8) = is_odigit x /\ (is_odigit x = true -> digit_of (Z.of_N x) = Z.of_N (x - 48)).
Proof.
  intros Hx. unfold is_odigit.
  assert (H8 : wraps 8 (Z.of_N x) = if Z.of_N x <? 128 then Z.of_N x else Z.of_N x - 256).
  { rewrite wraps8. destruct (Z.ltb_spec (Z.of_N x) 128); lia. }
  rewrite H8.
  destruct (Z.ltb_spec (Z.of_N x) 128) as [Hlt|Hge].
  - rewrite (wraps32_small (Z.of_N x)) by lia. rewrite wraps32_small by lia.
    rewrite wrapu8. rewrite wrapu64_small by lia. split; [|intros Hd]; lia.
  - rewrite (wraps32_small (Z.of_N x - 256)) by lia. rewrite wraps32_small by lia.
    rewrite wrapu8. rewrite wrapu64_small by lia. split; [|intros Hd]; lia.
Qed.

Lemma s8_result (acc d : N) : (acc < 18446744073709551616)%N ->
  wrapu 64 (wrapu 64 (Z.of_N acc * 8) + Z.of_N d) = Z.of_N ((acc * 8 + d) mod U64).
Proof.
  intros Hacc. rewrite !wrapu64. unfold U64.
  rewrite N2Z.inj_mod, N2Z.inj_add, N2Z.inj_mul.
  change (Z.of_N 18446744073709551616) with 18446744073709551616. change (Z.of_N 8) with 8.
  apply Z.add_mod_idemp_l. lia.
Qed.

Lemma scan8_step x s acc pos : scan8_from (x :: s) acc pos =
  if is_odigit x then scan8_from s ((acc * 8 + (x - 48)) mod U64)%N (S pos) else (acc, pos).
Proof. reflexivity. Qed.

Lemma s8_loop (f0 : nat) (u0 : Z) (au : list Z) :
  forall (rest pre : bytes) (acc : N) (cv : Z) (fuel : nat),
  (length rest < fuel)%nat -> bytes_ok (pre ++ rest) -> (acc < 18446744073709551616)%N ->
  Z.of_nat (length (pre ++ rest)) < 4294967296 ->
  exists cv', C_scan_8long.loop1 f0 fuel
     {| C_scan_8long.v_s := 0; C_scan_8long.v_u := u0; C_scan_8long.v_pos := Z.of_nat (length pre);
        C_scan_8long.v_result := Z.of_N acc; C_scan_8long.v_c := cv;
        C_scan_8long.a_s := zs (pre ++ rest) ++ [0]; C_scan_8long.a_u := au |}
   = ONormal
     {| C_scan_8long.v_s := 0; C_scan_8long.v_u := u0;
        C_scan_8long.v_pos := Z.of_nat (snd (scan8_from rest acc (length pre)));
        C_scan_8long.v_result := Z.of_N (fst (scan8_from rest acc (length pre))); C_scan_8long.v_c := cv';
        C_scan_8long.a_s := zs (pre ++ rest) ++ [0]; C_scan_8long.a_u := au |}.
Proof.
  induction rest as [|x rest IH]; intros pre acc cv fuel Hfuel Hok Hacc Hlen;
    (destruct fuel as [|f]; [cbn [length] in Hfuel; lia|]);
    cbn [C_scan_8long.loop1]; s8_simpl; rewrite Z.add_0_l; change (wrapu 64 8) with 8.
  - rewrite app_nil_r, rd_zs_end. cbn [hd]. change 0 with (Z.of_N 0) at 1 2.
    destruct (digit8_spec 0%N ltac:(lia)) as [Hd _]. rewrite Hd.
    change (is_odigit 0) with false. cbn [b2z scan8_from fst snd]. change (0 =? 0) with true. cbv iota.
    eexists; reflexivity.
  - rewrite rd_zs_mid.
    assert (Hx : (x < 256)%N) by (apply (bytes_ok_mid _ _ _ Hok)).
    destruct (digit8_spec x Hx) as [Hd Hv]. rewrite Hd. rewrite scan8_step.
    destruct (is_odigit x) eqn:Ed.
    + cbn [b2z]. change (1 =? 0) with false. cbv iota. rewrite (Hv eq_refl).
      rewrite s8_result by exact Hacc.
      replace (wrapu 32 (Z.of_nat (length pre) + 1)) with (Z.of_nat (length (pre ++ [x]))).
      2:{ rewrite !app_length in *. cbn [length] in *. rewrite wrapu32_small; lia. }
      replace (S (length pre)) with (length (pre ++ [x])) by (rewrite app_length; cbn [length]; lia).
      rewrite (snoc_assoc pre x rest) in *. apply IH.
      * cbn [length] in Hfuel. lia.
      * exact Hok.
      * apply (N.mod_upper_bound _ U64). discriminate.
      * exact Hlen.
    + cbn [b2z fst snd]. change (0 =? 0) with true. cbv iota. eexists; reflexivity.
Qed.

Lemma scan8_bound : forall (s : bytes) (acc : N) (p : nat), (acc < 18446744073709551616)%N ->
  (fst (scan8_from s acc p) < 18446744073709551616)%N.
Proof.
  induction s as [|x s IH]; intros acc p Hacc; [exact Hacc|]. rewrite scan8_step.
  destruct (is_odigit x); [|exact Hacc]. apply IH. apply (N.mod_upper_bound _ U64). discriminate.
Qed.

(* REQUIRED *)
Theorem gen_scan_8long_eq : forall (s : bytes) (old : Z), bytes_ok s -> ~ In 0%N s -> Z.of_nat (length s) < 2 ^ 32 ->
  option_map (fun r => (fst r, C_scan_8long.a_u (snd r))) (C_scan_8long.run (S (length s)) (zs s ++ [0]) 0 [old] 0)
  = Some (Z.of_nat (snd (scan8_from s 0 0)), [Z.of_N (fst (scan8_from s 0 0))]).
Proof.
  intros s old Hs _ Hlen. rewrite p32 in Hlen.
  unfold C_scan_8long.run, C_scan_8long.body. s8_simpl.
  change (wrapu 32 0) with (Z.of_nat (@length N [])). change (wrapu 64 0) with (Z.of_N 0).
  destruct (s8_loop (S (length s)) 0 [old] s [] 0%N 0 (S (length s)) ltac:(lia) Hs ltac:(lia) Hlen) as [cv' Hl].
  cbn [app] in Hl. rewrite Hl. cbn [obind option_map fst snd]. s8_simpl.
  cbn [length].
  pose proof (scan8_bound s 0%N 0%nat ltac:(lia)) as Hr.
  rewrite wrapu64_small by lia. reflexivity.
Qed.

(* ---------- fmt_str ---------- *)
Ltac fs_simpl := cbv [C_fmt_str.set_v_s C_fmt_str.set_v_t C_fmt_str.set_v_len C_fmt_str.set_v_ch C_fmt_str.set_a_s C_fmt_str.set_a_t
                      C_fmt_str.v_s C_fmt_str.v_t C_fmt_str.v_len C_fmt_str.v_ch C_fmt_str.a_s C_fmt_str.a_t].

Lemma fs_loop1 (f0 : nat) (s0 ch : Z) (a : list Z) :
  forall (rest pre : bytes) (fuel : nat), (length rest < fuel)%nat -> bytes_ok (pre ++ rest) -> ~ In 0%N rest ->
  Z.of_nat (length (pre ++ rest)) < 4294967296 ->
  C_fmt_str.loop1 f0 fuel {| C_fmt_str.v_s := s0; C_fmt_str.v_t := 0; C_fmt_str.v_len := Z.of_nat (length pre); C_fmt_str.v_ch := ch;
                             C_fmt_str.a_s := a; C_fmt_str.a_t := zs (pre ++ rest) ++ [0] |}
  = ONormal {| C_fmt_str.v_s := s0; C_fmt_str.v_t := 0; C_fmt_str.v_len := Z.of_nat (length (pre ++ rest)); C_fmt_str.v_ch := ch;
               C_fmt_str.a_s := a; C_fmt_str.a_t := zs (pre ++ rest) ++ [0] |}.
Proof.
  induction rest as [|x rest IH]; intros pre fuel Hfuel Hok Hnz Hlen;
    (destruct fuel as [|f]; [cbn [length] in Hfuel; lia|]);
    cbn [C_fmt_str.loop1]; fs_simpl; rewrite Z.add_0_l.
  - rewrite app_nil_r, rd_zs_end. cbn [hd]. change (wraps 8 0 =? 0) with true. cbv iota. reflexivity.
  - rewrite rd_zs_mid.
    assert (Hx : (x < 256)%N) by (apply (bytes_ok_mid _ _ _ Hok)).
    assert (Hx0 : x <> 0%N) by (intros ->; apply Hnz; now left).
    rewrite wraps8_nz by lia. cbv iota.
    rewrite (snoc_assoc pre x rest) in *.
    replace (wrapu 32 (Z.of_nat (length pre) + 1)) with (Z.of_nat (length (pre ++ [x]))).
    2:{ rewrite !app_length in *. cbn [length] in *. rewrite wrapu32_small; lia. }
    apply IH; [cbn [length] in Hfuel; lia|exact Hok| |exact Hlen].
    intros Hin. apply Hnz. now right.
Qed.

Lemma fs_loop2 (f0 : nat) :
  forall (rest pre : bytes) (brest : list Z) (ch : Z) (fuel : nat), (length rest < fuel)%nat -> bytes_ok (pre ++ rest) -> ~ In 0%N rest ->
  (length rest <= length brest)%nat -> Z.of_nat (length (pre ++ rest)) < 4294967296 ->
  exists ch',
  C_fmt_str.loop2 f0 fuel {| C_fmt_str.v_s := 0; C_fmt_str.v_t := 0; C_fmt_str.v_len := Z.of_nat (length pre); C_fmt_str.v_ch := ch;
                             C_fmt_str.a_s := zs pre ++ brest; C_fmt_str.a_t := zs (pre ++ rest) ++ [0] |}
  = ONormal {| C_fmt_str.v_s := 0; C_fmt_str.v_t := 0; C_fmt_str.v_len := Z.of_nat (length (pre ++ rest)); C_fmt_str.v_ch := ch';
               C_fmt_str.a_s := zs (pre ++ rest) ++ skipn (length rest) brest; C_fmt_str.a_t := zs (pre ++ rest) ++ [0] |}.
Proof.
  induction rest as [|x rest IH]; intros pre brest ch fuel Hfuel Hok Hnz Hb Hlen;
    (destruct fuel as [|f]; [cbn [length] in Hfuel; lia|]);
    cbn [C_fmt_str.loop2]; fs_simpl; rewrite !Z.add_0_l.
  - rewrite app_nil_r, rd_zs_end. cbn [hd]. change (wraps 8 0 =? 0) with true. cbv iota.
    cbn [length skipn]. eexists; reflexivity.
  - rewrite rd_zs_mid.
    assert (Hx : (x < 256)%N) by (apply (bytes_ok_mid _ _ _ Hok)).
    assert (Hx0 : x <> 0%N) by (intros ->; apply Hnz; now left).
    rewrite wraps8_nz by lia. cbv iota.
    destruct brest as [|b brest]; [cbn [length] in Hb; lia|].
    rewrite char_id by lia.
    rewrite <- (zs_length pre), wr_app_mid, zs_length.
    rewrite (snoc_assoc pre x rest) in *.
    replace (wrapu 32 (Z.of_nat (length pre) + 1)) with (Z.of_nat (length (pre ++ [x]))).
    2:{ rewrite !app_length in *. cbn [length] in *. rewrite wrapu32_small; lia. }
    replace (zs pre ++ Z.of_N x :: brest) with (zs (pre ++ [x]) ++ brest) by (rewrite zs_app, <- app_assoc; reflexivity).
    cbn [length skipn] in *.
    apply IH; [lia|exact Hok| |lia|exact Hlen].
    intros Hin. apply Hnz. now right.
Qed.

(* REQUIRED: fmt_str copies the string (without its NUL) and returns its length; with the null pointer only the length *)
Theorem gen_fmt_str_eq : forall (t : bytes) (buf : list Z), bytes_ok t -> ~ In 0%N t -> (length t <= length buf)%nat -> Z.of_nat (length t) < 2 ^ 32 ->
  option_map (fun r => (fst r, C_fmt_str.a_s (snd r))) (C_fmt_str.run (S (length t)) buf 0 (zs t ++ [0]) 0)
  = Some (Z.of_nat (length t), zs t ++ skipn (length t) buf).
Proof.
  intros t buf Hok Hnz Hb Hlen. rewrite p32 in Hlen.
  unfold C_fmt_str.run, C_fmt_str.body. fs_simpl.
  change (0 =? -1) with false. cbn [negb b2z]. change (1 =? 0) with false. cbv iota.
  change (wrapu 32 0) with (Z.of_nat (@length N [])).
  destruct (fs_loop2 (S (length t)) t [] buf 0 (S (length t)) ltac:(lia) Hok Hnz Hb Hlen) as [ch' Hl].
  change (zs []) with (@nil Z) in Hl. cbn [app] in Hl. rewrite Hl. cbn [obind option_map fst snd]. fs_simpl. reflexivity.
Qed.
Theorem gen_fmt_str_len : forall t : bytes, bytes_ok t -> ~ In 0%N t -> Z.of_nat (length t) < 2 ^ 32 ->
  retval (C_fmt_str.run (S (length t)) [] (-1) (zs t ++ [0]) 0) = Some (Z.of_nat (length t)).
Proof.
  intros t Hok Hnz Hlen. rewrite p32 in Hlen.
  unfold C_fmt_str.run, C_fmt_str.body. fs_simpl.
  change (-1 =? -1) with true. cbn [negb b2z]. change (0 =? 0) with true. cbv iota.
  change (wrapu 32 0) with (Z.of_nat (@length N [])).
  pose proof (fs_loop1 (S (length t)) (-1) 0 [] t [] (S (length t)) ltac:(lia) Hok Hnz Hlen) as Hl.
  cbn [app] in Hl. rewrite Hl. cbn [obind retval option_map fst]. fs_simpl. reflexivity.
Qed.

(* ---------- fmt_ulong (called by fmt_uint) ---------- *)
Ltac fu_simpl := cbv [C_fmt_ulong.set_v_s C_fmt_ulong.set_v_u C_fmt_ulong.set_v_len C_fmt_ulong.set_v_q C_fmt_ulong.set_a_s
                      C_fmt_ulong.v_s C_fmt_ulong.v_u C_fmt_ulong.v_len C_fmt_ulong.v_q C_fmt_ulong.a_s].

(* ---- the model ---- *)
Lemma fmt_aux_acc fm : forall u acc, fmt_aux fm u acc = fmt_aux fm u [] ++ acc.
Proof.
  induction fm as [|f IH]; intros u acc; cbn [fmt_aux]; [reflexivity|].
  destruct (u / 10 =? 0)%N; [reflexivity|].
  rewrite (IH _ (_ :: acc)), (IH _ [_]), <- app_assoc. reflexivity.
Qed.
Lemma fmt_S f u : fmt_aux (S f) u [] =
  if (u / 10 =? 0)%N then [(48 + u mod 10)%N] else fmt_aux f (u / 10) [] ++ [(48 + u mod 10)%N].
Proof. cbn [fmt_aux]. destruct (u / 10 =? 0)%N; [reflexivity|apply fmt_aux_acc]. Qed.
Lemma fmt_len_le fm : forall u, (length (fmt_aux fm u []) <= fm)%nat.
Proof.
  induction fm as [|f IH]; intros u; [cbn; lia|]. rewrite fmt_S.
  destruct (u / 10 =? 0)%N; [cbn; lia|]. rewrite app_length. cbn [length]. specialize (IH (u / 10)%N). lia.
Qed.
Lemma fmt_len_pos f u : (1 <= length (fmt_aux (S f) u []))%nat.
Proof. rewrite fmt_S. destruct (u / 10 =? 0)%N; [cbn; lia|]. rewrite app_length. cbn [length]. lia. Qed.

Definition p10 (n : nat) : N := (10 ^ N.of_nat n)%N.
Lemma p10_S n : p10 (S n) = (10 * p10 n)%N.
Proof. unfold p10. rewrite Nat2N.inj_succ. apply N.pow_succ_r'. Qed.
Lemma p10_1 : p10 1 = 10%N. Proof. reflexivity. Qed.

(* ---- the C arithmetic ---- *)
Lemma fu_quot (u : N) : (u < 18446744073709551616)%N ->
  wrapu 64 (wrapu 64 (Z.quot (wrapu 64 (Z.of_N u)) 10)) = Z.of_N (u / 10).
Proof.
  intros Hu. rewrite (wrapu64_small (Z.of_N u)) by lia. rewrite Z.quot_div_nonneg by lia.
  rewrite N2Z.inj_div. change (Z.of_N 10) with 10.
  rewrite (wrapu64_small (Z.of_N u / 10)) by lia. apply wrapu64_small. lia.
Qed.
Lemma fu_digit (u : N) :
  wrapu 8 (wraps 8 (wrapu 64 (48 + wrapu 64 (Z.rem (Z.of_N u) 10)))) = Z.of_N (48 + u mod 10).
Proof.
  rewrite Z.rem_mod_nonneg by lia.
  rewrite N2Z.inj_add, N2Z.inj_mod. change (Z.of_N 10) with 10. change (Z.of_N 48) with 48.
  assert (H : 0 <= Z.of_N u mod 10 < 10) by (apply Z.mod_pos_bound; lia).
  rewrite (wrapu64_small (Z.of_N u mod 10)) by lia. rewrite wrapu64_small by lia.
  rewrite wraps8_small by lia. apply wrapu8_small. lia.
Qed.

Lemma firstn_app_le {A} n (l1 l2 : list A) : (n <= length l1)%nat -> firstn n (l1 ++ l2) = firstn n l1.
Proof.
  intros H. rewrite firstn_app. replace (n - length l1)%nat with O by lia. cbn [firstn]. apply app_nil_r.
Qed.

(* ---- first loop: the length ---- *)
Lemma fu_loop1 (f0 : nat) (s0 u0 : Z) (a : list Z) :
  forall (fm : nat) (u : N) (l : Z) (fuel : nat), (S fm <= fuel)%nat -> (u < p10 (S fm))%N ->
  (u < 18446744073709551616)%N -> 0 <= l -> l + Z.of_nat (S fm) < 4294967296 ->
  exists q' l',
    C_fmt_ulong.loop1 f0 fuel {| C_fmt_ulong.v_s := s0; C_fmt_ulong.v_u := u0; C_fmt_ulong.v_len := l;
                                 C_fmt_ulong.v_q := Z.of_N u; C_fmt_ulong.a_s := a |}
    = ONormal {| C_fmt_ulong.v_s := s0; C_fmt_ulong.v_u := u0; C_fmt_ulong.v_len := l';
                 C_fmt_ulong.v_q := q'; C_fmt_ulong.a_s := a |}
    /\ l' = l + Z.of_nat (length (fmt_aux (S fm) u [])) - 1.
Proof.
  induction fm as [|fm IH]; intros u l fuel Hfuel Hu Hu64 Hl Hl32;
    (destruct fuel as [|f]; [lia|]); cbn [C_fmt_ulong.loop1]; fu_simpl;
    change (wrapu 64 9) with 9; change (wrapu 64 10) with 10; rewrite b2z_if, Z.gtb_ltb, fmt_S;
    (destruct (N.eqb_spec (u / 10) 0) as [E|E];
     [ destruct (Z.ltb_spec 9 (Z.of_N u)) as [H9|H9]; [lia|];
       eexists; eexists; split; [reflexivity|cbn [length]; lia] | ]).
  - rewrite p10_1 in Hu. lia.
  - destruct (Z.ltb_spec 9 (Z.of_N u)) as [H9|H9]; [|lia].
    rewrite fu_quot by exact Hu64. rewrite (wrapu32_small (l + 1)) by lia.
    rewrite p10_S in Hu.
    destruct (IH (u / 10)%N (l + 1) f ltac:(lia) ltac:(lia) ltac:(lia) ltac:(lia) ltac:(lia)) as (q' & l' & Hl1 & Hl').
    exists q', l'. split; [exact Hl1|]. rewrite app_length. cbn [length]. lia.
Qed.

(* ---- second loop: the digits, written backwards from the end of L ---- *)
Lemma fu_loop2 (f0 : nat) (l q : Z) :
  forall (fm : nat) (u : N) (L R : list Z) (fuel : nat), (S fm <= fuel)%nat -> (u < p10 (S fm))%N ->
  (u < 18446744073709551616)%N -> (length (fmt_aux (S fm) u []) <= length L)%nat ->
  C_fmt_ulong.loop2 f0 fuel {| C_fmt_ulong.v_s := Z.of_nat (length L); C_fmt_ulong.v_u := Z.of_N u; C_fmt_ulong.v_len := l;
                               C_fmt_ulong.v_q := q; C_fmt_ulong.a_s := L ++ R |}
  = ONormal {| C_fmt_ulong.v_s := Z.of_nat (length L - length (fmt_aux (S fm) u [])); C_fmt_ulong.v_u := 0;
               C_fmt_ulong.v_len := l; C_fmt_ulong.v_q := q;
               C_fmt_ulong.a_s := firstn (length L - length (fmt_aux (S fm) u [])) L ++ zs (fmt_aux (S fm) u []) ++ R |}.
Proof.
  induction fm as [|fm IH]; intros u L R fuel Hfuel Hu Hu64 HL;
    (destruct fuel as [|f]; [lia|]);
    (destruct (exists_last (l := L)) as (L' & x & ->);
     [ intros ->; match type of HL with (length (fmt_aux (S ?m) _ _) <= _)%nat => pose proof (fmt_len_pos m u) end; cbn [length] in HL; lia | ]);
    cbn [C_fmt_ulong.loop2]; fu_simpl;
    change (wrapu 64 48) with 48; change (wrapu 64 10) with 10;
    rewrite fu_digit, fu_quot by exact Hu64;
    (replace (Z.of_nat (length (L' ++ [x])) - 1) with (Z.of_nat (length L')) by (rewrite app_length; cbn [length]; lia));
    rewrite <- (app_assoc L' [x] R); cbn [app]; rewrite wr_app_mid;
    rewrite fmt_S in *; rewrite app_length in *; cbn [length] in *;
    (destruct (N.eqb_spec (u / 10) 0) as [E|E];
     [ rewrite E; change (Z.of_N 0 =? 0) with true; cbv iota; cbn [length];
       replace (length L' + 1 - 1)%nat with (length L') by lia;
       rewrite firstn_app_le, firstn_all by lia; reflexivity | ]).
  - rewrite p10_1 in Hu. lia.
  - destruct (Z.eqb_spec (Z.of_N (u / 10)) 0) as [E0|_]; [lia|].
    rewrite p10_S in Hu. rewrite app_length in *. cbn [length] in *.
    rewrite IH by lia.
    replace (length L' + 1 - (length (fmt_aux (S fm) (u / 10) []) + 1))%nat
      with (length L' - length (fmt_aux (S fm) (u / 10) []))%nat by lia.
    rewrite firstn_app_le by lia. rewrite zs_app, <- app_assoc. reflexivity.
Qed.

Lemma u64_p10 (u : N) : (u < 18446744073709551616)%N -> (u < p10 20)%N.
Proof. intros H. change (p10 20) with 100000000000000000000%N. lia. Qed.
Lemma of_nat_m1 n : (Z.of_nat n =? -1) = false.
Proof. apply Z.eqb_neq. lia. Qed.
Lemma fmt_ulong_len u : (1 <= length (fmt_ulong u) <= 20)%nat.
Proof. unfold fmt_ulong. split; [apply fmt_len_pos|apply fmt_len_le]. Qed.

(* fmt_ulong(s + |P|, u) on P ++ L ++ R with |L| the number of digits *)
Lemma fu_run (fuel : nat) (u : N) (P L R : list Z) : (21 <= fuel)%nat -> (u < 18446744073709551616)%N ->
  length L = length (fmt_ulong u) ->
  exists st, C_fmt_ulong.run fuel (P ++ L ++ R) (Z.of_nat (length P)) (Z.of_N u) = Some (Z.of_nat (length (fmt_ulong u)), st)
    /\ C_fmt_ulong.a_s st = P ++ zs (fmt_ulong u) ++ R.
Proof.
  intros Hfuel Hu HL. unfold fmt_ulong in *.
  unfold C_fmt_ulong.run, C_fmt_ulong.body. fu_simpl. change (wrapu 32 1) with 1.
  destruct (fu_loop1 fuel (Z.of_nat (length P)) (Z.of_N u) (P ++ L ++ R) 19 u 1 fuel ltac:(lia) (u64_p10 u Hu) Hu ltac:(lia) ltac:(lia))
    as (q' & l' & Hl1 & Hl').
  rewrite Hl1. rewrite obind_normal. cbv beta. fu_simpl. rewrite of_nat_m1. cbn [negb b2z]. change (1 =? 0) with false. cbv iota.
  replace (Z.of_nat (length P) + l') with (Z.of_nat (length (P ++ L))) by (rewrite app_length; lia).
  rewrite (app_assoc P L R).
  rewrite (fu_loop2 fuel l' q' 19 u (P ++ L) R fuel ltac:(lia) (u64_p10 u Hu) Hu ltac:(rewrite app_length; lia)).
  rewrite obind_normal. cbv beta. fu_simpl. eexists. split; [f_equal; f_equal; lia|]. fu_simpl.
  rewrite app_length, HL. replace (length P + length (fmt_aux 20 u []) - length (fmt_aux 20 u []))%nat with (length P) by lia.
  rewrite firstn_app_le, firstn_all by lia. reflexivity.
Qed.
(* with the null pointer *)
Lemma fu_null (fuel : nat) (u : N) (a : list Z) : (21 <= fuel)%nat -> (u < 18446744073709551616)%N ->
  exists st, C_fmt_ulong.run fuel a (-1) (Z.of_N u) = Some (Z.of_nat (length (fmt_ulong u)), st) /\ C_fmt_ulong.a_s st = a.
Proof.
  intros Hfuel Hu. unfold fmt_ulong.
  unfold C_fmt_ulong.run, C_fmt_ulong.body. fu_simpl. change (wrapu 32 1) with 1.
  destruct (fu_loop1 fuel (-1) (Z.of_N u) a 19 u 1 fuel ltac:(lia) (u64_p10 u Hu) Hu ltac:(lia) ltac:(lia))
    as (q' & l' & Hl1 & Hl').
  rewrite Hl1. rewrite obind_normal. cbv beta. fu_simpl. change (-1 =? -1) with true. cbn [negb b2z]. change (0 =? 0) with true. cbv iota.
  rewrite obind_normal. cbv beta. fu_simpl. eexists. split; [f_equal; f_equal; lia|]. reflexivity.
Qed.

(* ---------- fmt_uint ---------- *)
Ltac fi_simpl := cbv [C_fmt_uint.set_v_s C_fmt_uint.set_v_u C_fmt_uint.set_v_l C_fmt_uint.set_a_s
                      C_fmt_uint.v_s C_fmt_uint.v_u C_fmt_uint.v_l C_fmt_uint.a_s].

Lemma fi_run (fuel : nat) (u : N) (P L R : list Z) : (21 <= fuel)%nat -> (u < 4294967296)%N ->
  length L = length (fmt_ulong u) ->
  exists st, C_fmt_uint.run fuel (P ++ L ++ R) (Z.of_nat (length P)) (Z.of_N u) = Some (Z.of_nat (length (fmt_ulong u)), st)
    /\ C_fmt_uint.a_s st = P ++ zs (fmt_ulong u) ++ R.
Proof.
  intros Hfuel Hu HL.
  unfold C_fmt_uint.run, C_fmt_uint.body. fi_simpl. rewrite (wrapu64_small (Z.of_N u)) by lia.
  destruct (fu_run fuel u P L R Hfuel ltac:(lia) HL) as (st & Hr & Ha).
  rewrite Hr. fi_simpl. eexists. split; [reflexivity|]. fi_simpl. exact Ha.
Qed.
Lemma fi_null (fuel : nat) (u : N) (a : list Z) : (21 <= fuel)%nat -> (u < 4294967296)%N ->
  exists st, C_fmt_uint.run fuel a (-1) (Z.of_N u) = Some (Z.of_nat (length (fmt_ulong u)), st) /\ C_fmt_uint.a_s st = a.
Proof.
  intros Hfuel Hu.
  unfold C_fmt_uint.run, C_fmt_uint.body. fi_simpl. rewrite (wrapu64_small (Z.of_N u)) by lia.
  destruct (fu_null fuel u a Hfuel ltac:(lia)) as (st & Hr & Ha).
  rewrite Hr. fi_simpl. eexists. split; [reflexivity|]. fi_simpl. exact Ha.
Qed.

(* REQUIRED: fmt_uint is fmt_ulong on a 32-bit value; fmt_uint0 pads with zeros on the left to at least n characters *)
Theorem gen_fmt_uint_len : forall u : N, (u < 4294967296)%N ->
  retval (C_fmt_uint.run 21 [] (-1) (Z.of_N u)) = Some (Z.of_nat (length (fmt_ulong u))).
Proof.
  intros u Hu. destruct (fi_null 21 u [] ltac:(lia) Hu) as (st & Hr & _). rewrite Hr. reflexivity.
Qed.

(* ---------- fmt_uint0 ---------- *)
Ltac f0_simpl := cbv [C_fmt_uint0.set_v_s C_fmt_uint0.set_v_u C_fmt_uint0.set_v_n C_fmt_uint0.set_v_len C_fmt_uint0.set_a_s
                      C_fmt_uint0.v_s C_fmt_uint0.v_u C_fmt_uint0.v_n C_fmt_uint0.v_len C_fmt_uint0.a_s].

(* the padding loop: k = n - l zeros behind P *)
Lemma f0_loop (f0 : nat) (u0 : Z) (n : nat) : Z.of_nat n < 4294967296 ->
  forall (k l : nat) (P R : list Z) (fuel : nat), (k < fuel)%nat -> (n - l = k)%nat -> (k <= length R)%nat ->
  C_fmt_uint0.loop1 f0 fuel {| C_fmt_uint0.v_s := Z.of_nat (length P); C_fmt_uint0.v_u := u0; C_fmt_uint0.v_n := Z.of_nat n;
                               C_fmt_uint0.v_len := Z.of_nat l; C_fmt_uint0.a_s := P ++ R |}
  = ONormal {| C_fmt_uint0.v_s := Z.of_nat (length P + k); C_fmt_uint0.v_u := u0; C_fmt_uint0.v_n := Z.of_nat n;
               C_fmt_uint0.v_len := Z.of_nat (l + k); C_fmt_uint0.a_s := P ++ repeat 48 k ++ skipn k R |}.
Proof.
  intros Hn. induction k as [|k IH]; intros l P R fuel Hfuel Hk HR;
    (destruct fuel as [|f]; [lia|]); cbn [C_fmt_uint0.loop1]; f0_simpl; rewrite b2z_if.
  - destruct (Z.ltb_spec (Z.of_nat l) (Z.of_nat n)) as [H|_]; [lia|].
    cbn [repeat skipn app]. rewrite !Nat.add_0_r. reflexivity.
  - destruct (Z.ltb_spec (Z.of_nat l) (Z.of_nat n)) as [_|H]; [|lia].
    rewrite of_nat_m1. cbn [negb b2z]. change (1 =? 0) with false. cbv iota.
    rewrite obind_normal. cbv beta. f0_simpl.
    destruct R as [|r R]; [cbn [length] in HR; lia|]. cbn [length] in HR.
    change (wrapu 8 (wraps 8 48)) with 48. rewrite wr_app_mid.
    replace (wrapu 32 (Z.of_nat l + 1)) with (Z.of_nat (S l)) by (rewrite wrapu32_small; lia).
    rewrite (app_cons_snoc P 48 R), <- (len_snoc P 48).
    rewrite (IH (S l) (P ++ [48]) R f) by lia.
    cbn [repeat skipn]. rewrite <- app_assoc. cbn [app].
    f_equal. f_equal; [rewrite app_length; cbn [length]|]; f_equal; lia.
Qed.

Theorem gen_fmt_uint0_eq : forall (u : N) (n : nat) (buf : list Z), (u < 4294967296)%N -> (n <= 64)%nat ->
  (Nat.max n (length (fmt_ulong u)) <= length buf)%nat ->
  let w := Nat.max n (length (fmt_ulong u)) in
  option_map (fun r => (fst r, firstn w (C_fmt_uint0.a_s (snd r)))) (C_fmt_uint0.run 100 buf 0 (Z.of_N u) (Z.of_nat n))
  = Some (Z.of_nat w, repeat 48 (w - length (fmt_ulong u)) ++ zs (fmt_ulong u)).
Proof.
  intros u n buf Hu Hn Hbuf w.
  pose proof (fmt_ulong_len u) as Hlen.
  set (len := length (fmt_ulong u)) in *.
  set (k := (n - len)%nat).
  assert (Hw : (w - len = k)%nat) by (subst w k; lia).
  assert (Hwk : (w = len + k)%nat) by (subst w k; lia).
  unfold C_fmt_uint0.run, C_fmt_uint0.body. f0_simpl.
  destruct (fi_null 100 u [] ltac:(lia) Hu) as (st1 & Hr1 & _). rewrite Hr1. fold len.
  pose proof (f0_loop 100 (Z.of_N u) n ltac:(lia) k len [] buf 100 ltac:(subst k; lia) eq_refl ltac:(lia)) as Hl.
  cbn [app length Z.of_nat Nat.add] in Hl. rewrite Hl. rewrite obind_normal. cbv beta. f0_simpl.
  rewrite of_nat_m1. cbn [negb b2z]. change (1 =? 0) with false. cbv iota.
  assert (Hsplit : skipn k buf = firstn len (skipn k buf) ++ skipn len (skipn k buf)) by (symmetry; apply firstn_skipn).
  rewrite Hsplit.
  replace (Z.of_nat k) with (Z.of_nat (length (repeat 48 k))) by (rewrite repeat_length; reflexivity).
  destruct (fi_run 100 u (repeat 48 k) (firstn len (skipn k buf)) (skipn len (skipn k buf)) ltac:(lia) Hu) as (st2 & Hr2 & Ha2).
  { rewrite firstn_length, skipn_length. fold len. lia. }
  rewrite Hr2. rewrite obind_normal. cbv beta. f0_simpl. cbn [option_map fst snd]. f0_simpl.
  rewrite Ha2, Hw. f_equal. f_equal; [f_equal; lia|].
  rewrite app_assoc. rewrite firstn_app_le by (rewrite app_length, repeat_length, zs_length; fold len; lia).
  apply firstn_all2. rewrite app_length, repeat_length, zs_length. fold len. lia.
Qed.

