# make setup : build everything the checks need, offline, from files on disk only
.PHONY: shimlib setup coq drivers scan clean audit
setup: scan coq drivers shimlib
	@echo setup done
coq:
	python3 tools/extract_params.py
	cd coq && coq_makefile -f _CoqProject -o Makefile && timeout 3000 $(MAKE) -j16 -f Makefile
drivers: coq
	python3 tools/build_drivers.py
scan:
	python3 tools/scan.py
clean:
	-cd coq && [ -f Makefile ] && $(MAKE) -f Makefile clean
	rm -rf build coq/extracted_*.ml coq/extracted_*.mli
# independent re-check of the compiled property files and their axioms (slow; not part of any check)
audit:
	cd coq && for f in Props/Properties_*.v; do m=NQ.Props.$$(basename $$f .v); echo == $$m; timeout 1200 coqchk -o -silent -Q . NQ $$m | tail -15; done
shimlib:
	mkdir -p build && gcc -shared -fPIC -O1 -o build/sysshim.so shim/sysshim.c -ldl
