#!/bin/sh
# usage: coqshow.sh FILE.v LINE   -- print the goals just before LINE (debug aid, not part of any check)
f=$1; n=$2
mkdir -p /var/tmp/coqdbg
head -n $((n-1)) "$f" > /var/tmp/coqdbg/D.v
echo 'Show. ' >> /var/tmp/coqdbg/D.v
cd /verif/coq && timeout ${3:-120} coqc -Q . NQ /var/tmp/coqdbg/D.v 2>&1 | tail -${4:-60}
