#!/usr/bin/env python3
import sys, os, glob
sys.path.insert(0, os.path.dirname(os.path.abspath(__file__)))
import vlib
for f in sorted(glob.glob(os.path.join(vlib.VERIF, "extract", "C*_driver.ml"))):
    pid = os.path.basename(f).split("_")[0]
    print("driver", pid, vlib.build_driver(pid))
