#!/usr/bin/env python3
"""regenerates coq/Audit_gen.v (Print Assumptions for every Theorem of Tie/Gen_*.v and every Lemma of Tie/Tie_C*.v), compiles it
and writes the output to audit/gen_assumptions.txt; audit only, not part of any check"""
import glob, os, re, subprocess, sys
COQ = os.path.join(os.path.dirname(os.path.abspath(__file__)), "..", "coq")
mods, lines = [], []
for f in sorted(glob.glob(os.path.join(COQ, "Tie", "Gen_*.v")) + glob.glob(os.path.join(COQ, "Tie", "Tie_C*.v"))):
    m = os.path.basename(f)[:-2]
    if m in ("GenCommon", "GenAux"): continue
    names = re.findall(r"^\s*(?:Theorem|Lemma)\s+([A-Za-z0-9_']+)", open(f).read(), re.M)
    if m.startswith("Gen_"):
        names = re.findall(r"^\s*Theorem\s+([A-Za-z0-9_']+)", open(f).read(), re.M)
    if names: mods.append("Tie." + m); lines += ["Print Assumptions %s.%s." % (m, n) for n in names]
open(os.path.join(COQ, "Audit_gen.v"), "w").write(
    "(* audit only (not part of any check): Print Assumptions for every theorem about generated code and every tie lemma *)\n"
    "From NQ Require %s.\n%s\n" % (" ".join(mods), "\n".join(lines)))
r = subprocess.run(["coqc", "-Q", ".", "NQ", "Audit_gen.v"], cwd=COQ, stdout=subprocess.PIPE, stderr=subprocess.STDOUT)
out = r.stdout.decode()
blocks = re.split(r"(?=^Closed under the global context|^Axioms:)", out, flags=re.M)
blocks = [b.strip() for b in blocks if b.startswith("Closed") or b.startswith("Axioms:")]
os.makedirs(os.path.join(COQ, "..", "audit"), exist_ok=True)
with open(os.path.join(COQ, "..", "audit", "gen_assumptions.txt"), "w") as f:
    for l, b in zip(lines, blocks): f.write("%s  ->  %s\n" % (l[len("Print Assumptions "):-1], b.replace("\n", " ")))
    f.write("# %d lemmas, %d closed under the global context\n" % (len(lines), sum(b.startswith("Closed") for b in blocks)))
print(len(lines), "lemmas;", sum(b.startswith("Closed") for b in blocks), "closed; rc", r.returncode)
for f in ("Audit_gen.vo", "Audit_gen.vok", "Audit_gen.vos", "Audit_gen.glob", ".Audit_gen.aux"):
    p = os.path.join(COQ, f)
    if os.path.exists(p): os.remove(p)
