#!/bin/sh
# the repository's own test suite with the verification guard OFF, on a scratch copy of /repo's working tree
set -e
S=/var/tmp/nqverif.baseline.$$
rm -rf "$S"; mkdir -p "$S"
trap 'rm -rf "$S"' EXIT
cd /repo
git ls-files -c -o --exclude-standard | grep -v -E '^tests/(unittest_[a-z-]+|.*-without-main\.c)$' | while read f; do [ -f "$f" ] && echo "$f"; done | tar -c -T - | tar -x -C "$S"
cd "$S"
make -j16 it >/dev/null
cd tests && make test
