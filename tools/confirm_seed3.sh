#!/bin/sh
# usage: confirm_seed2.sh Cxx e|f   -- independent confirmation of a round-2 seeded change (from /tmp/seed/Cxx.out3/x)
id=$1; x=$2; src=/tmp/seed/$id.out3/$x
W=/tmp/confirm/$id.$x
rm -rf $W; mkdir -p /tmp/confirm
git -C /repo worktree add -q --detach $W HEAD || exit 9
cd $W
git apply $src/patch.diff || { echo "APPLY FAILED"; git -C /repo worktree remove --force $W; exit 9; }
( make -j16 it >/dev/null 2>&1 && echo "BUILD ok" || echo "BUILD FAILED" )
( cd tests && make test 2>&1 | grep -c "Failures: 0, Errors: 0" | sed 's/^/TEST suites clean: /' )
git clean -fdxq
( cd $src && timeout 1200 bash ./demo.sh $W >/tmp/confirm/$id.$x.patched.log 2>&1; echo "DEMO patched rc=$?" )
git checkout -q -- . ; git clean -fdxq
( cd $src && timeout 1200 bash ./demo.sh $W >/tmp/confirm/$id.$x.clean.log 2>&1; echo "DEMO clean rc=$?" )
cd /; git -C /repo worktree remove --force $W
