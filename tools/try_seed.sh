#!/bin/sh
# usage: try_seed.sh Cxx PATCH [check args]  -- run ./check Cxx on /repo with PATCH applied, then undo
id=$1; patch=$2; shift 2
cd /verif
git -C /repo apply $patch || { echo "apply failed"; exit 9; }
./check $id "$@"; rc=$?
git -C /repo checkout -- .
echo "check rc=$rc"
