#!/usr/bin/env python3
"""regenerates the two generated tables of DESIGN.md section 8 (theorem names per property; seeded changes) in place"""
import glob, json, os, re
V = os.path.dirname(os.path.dirname(os.path.abspath(__file__)))
p = os.path.join(V, "DESIGN.md"); s = open(p).read()
rows = []
for f in sorted(glob.glob(os.path.join(V, "coq/Props/Properties_C*.v"))):
    t = open(f).read(); names = re.findall(r"^Theorem ([A-Za-z0-9_]+)", t, re.M)
    pid = os.path.basename(f)[11:14]
    tie = os.path.join(V, "coq/Tie/Tie_%s.v" % pid)
    ties = re.findall(r"^Lemma ([A-Za-z0-9_]+)", open(tie).read(), re.M) if os.path.exists(tie) else []
    rows.append("| %s | %d | %s%s |" % (pid, len(names), ", ".join("`%s`" % n for n in names), ("; ties: " + ", ".join("`%s`" % n for n in ties)) if ties else ""))
tab1 = "| id | # | theorem names in `Props/Properties_Cxx.v` |\n|----|---|---|\n" + "\n".join(rows) + "\n"
seeds = []
for d in sorted(glob.glob(os.path.join(V, "seeded/*"))):
    m = json.load(open(os.path.join(d, "meta.json")))
    seeds.append("| %s | %s | %s |" % (os.path.basename(d), m["needs_to_manifest"].replace("|", "/")[:150], m["check_result"].replace("|", "/")[:260]))
tab2 = "| seed | needs | result |\n|------|-------|--------|\n" + "\n".join(seeds) + "\n"
gen = []
for f in sorted(glob.glob(os.path.join(V, "coq/Tie/Gen_*.v"))):
    names = re.findall(r"^Theorem ([A-Za-z0-9_]+)", open(f).read(), re.M)
    gen.append("| `Tie/%s` | %d | %s |" % (os.path.basename(f), len(names), ", ".join("`%s`" % n for n in names)))
tab3 = "| file | # | theorems (generated C function = model, or memory safety of the checked generated code) |\n|---|---|---|\n" + "\n".join(gen) + "\n"
def put(s, tag, tab):
    a, b = "<!-- %s:begin -->\n" % tag, "<!-- %s:end -->\n" % tag
    if a in s:
        i, j = s.index(a) + len(a), s.index(b)
        return s[:i] + tab + s[j:]
    return s
s = put(s, "theorems", tab1); s = put(s, "seeds", tab2); s = put(s, "gen", tab3)
open(p, "w").write(s)
print("DESIGN.md tables regenerated: %d properties, %d seeds" % (len(rows), len(seeds)))
