#!/usr/bin/env python3
import sys, os
sys.path.insert(0, os.path.dirname(os.path.abspath(__file__)))
import vlib
bad = vlib.coq_forbidden_scan()
if bad:
    print("forbidden tokens in the Coq development:\n" + "\n".join(bad)); sys.exit(1)
print("scan: no Admitted/admit/Axiom/Parameter/Conjecture/unguarded Variable/bypass in coq/")
