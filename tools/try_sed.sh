#!/bin/sh
# usage: try_sed.sh Cxx FILE SEDEXPR [check args] -- hand-made mutation of /repo, run the check, undo
id=$1; f=$2; e=$3; shift 3
cd /verif
cp /repo/$f /var/tmp/try_sed.bak
sed -i "$e" /repo/$f
if cmp -s /repo/$f /var/tmp/try_sed.bak; then echo "sed changed nothing"; exit 9; fi
./check $id "$@" 2>&1 | tail -4; 
git -C /repo checkout -- $f
