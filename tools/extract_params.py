#!/usr/bin/env python3
"""extract_params.py [SRCDIR]  -> writes coq/gen/Params_gen.v

The small translator of DESIGN 2.7: constants and fixed expressions that no feasible run
exercises are parsed out of the *current* sources and written as Coq definitions; the
Tie/Tie_Cxx.v files prove (by reflexivity) that the hand-written models use the same values.
A constant that cannot be found is emitted as the impossible value -1 so the tie fails loudly."""
import os, re, sys
V = os.path.dirname(os.path.dirname(os.path.abspath(__file__)))
src = sys.argv[1] if len(sys.argv) > 1 else os.environ.get("VERIF_REPO", "/repo")

def rd(f):
    try:
        return open(os.path.join(src, f), errors="replace").read()
    except OSError:
        return ""

def strip_comments(t):
    return re.sub(r"/\*.*?\*/", " ", t, flags=re.S)

def define(f, name):
    m = re.search(r"^\s*#\s*define\s+%s\s+\(?\s*(-?\d+)\s*\)?\s*$" % name, strip_comments(rd(f)), re.M)
    return int(m.group(1)) if m else -1

def int_array(f, name):
    m = re.search(r"\b%s\s*\[[^\]]*\]\s*=\s*\{([^}]*)\}" % name, strip_comments(rd(f)))
    if not m:
        return []
    try:
        return [int(x) for x in m.group(1).replace(" ", "").split(",") if x != ""]
    except ValueError:
        return []

def int_init(f, name):
    m = re.search(r"\b(?:int|long|unsigned int|unsigned long)\s+%s\s*=\s*(-?\d+)\s*;" % name, strip_comments(rd(f)))
    return int(m.group(1)) if m else -1

def expr_norm(f, pat):
    """first regex match group 1 in f with all whitespace removed; '' if absent"""
    m = re.search(pat, strip_comments(rd(f)))
    return re.sub(r"\s+", "", m.group(1)) if m else ""

def coq_str(s):
    return '"' + s.replace('"', '""') + '"'

out = ["(* GENERATED on every run by tools/extract_params.py from the current sources - do not edit *)",
       "From Coq Require Import ZArith List String.", "Import ListNotations.", "Local Open Scope Z_scope.", ""]
def Z(name, v): out.append("Definition %s : Z := %s." % (name, "(%d)" % v if v < 0 else str(v)))
def L(name, vs): out.append("Definition %s : list Z := [%s]." % (name, "; ".join("(%d)" % v if v < 0 else str(v) for v in vs)))
def S(name, s): out.append("Definition %s : string := %s%%string." % (name, coq_str(s)))

Z("DEATH", define("qmail-queue.c", "DEATH"))
Z("ADDR", define("qmail-queue.c", "ADDR"))
for n in ["SLEEP_TODO", "SLEEP_FUZZ", "SLEEP_FOREVER", "SLEEP_CLEANUP", "SLEEP_SYSFAIL", "OSSIFIED", "CHANNELS", "REPORTMAX"]:
    Z(n, define("qmail-send.c", n))
L("chanskip", int_array("qmail-send.c", "chanskip"))
Z("lifetime_default", int_init("qmail-send.c", "lifetime"))
Z("MAXHOPS", define("qmail-smtpd.c", "MAXHOPS"))
Z("HUGESMTPTEXT", define("qmail-remote.c", "HUGESMTPTEXT"))
S("flagdying_expr", expr_norm("qmail-send.c", r"\.flagdying\s*=\s*([^;]*);"))
S("pass_due_test", expr_norm("qmail-send.c", r"if\s*\(\s*(pe\.dt\s*[<>=!]+\s*recent)\s*\)\s*return;"))

L("quote_ok", int_array("quote.c", "ok"))
def str_array(f, name):
    m = re.search(r"\(?\s*%s\s*\[\s*\]\s*\)?\s*=\s*\{(.*?)\}\s*;" % name, strip_comments(rd(f)), re.S)
    return re.findall(r'"([^"]*)"', m.group(1)) if m else []
out.append("Definition hfield_names : list string := [%s]." % "; ".join(coq_str(x) + "%string" for x in str_array("hfield.c", "hname")))
def func_body(f, name, nth=1):
    """text of the nth '{...}' block that follows 'name(' at top level (K&R or ANSI definitions)"""
    t = strip_comments(rd(f)); pos = 0
    for _ in range(nth):
        m = re.search(r"^[A-Za-z_][A-Za-z0-9_ \*]*\b%s\s*\(" % name, t[pos:], re.M)
        if not m: return ""
        pos += m.end()
    i = t.find("{", pos)
    if i < 0: return ""
    depth = 0
    for j in range(i, len(t)):
        if t[j] == "{": depth += 1
        elif t[j] == "}":
            depth -= 1
            if depth == 0: return t[i:j + 1]
    return ""
def defines(f):
    return {m.group(1): int(m.group(2)) for m in re.finditer(r"^\s*#\s*define\s+(\w+)\s+(-?\d+)\s*$", rd(f), re.M)}
def switch_table(body, syms, action):
    """[(code, what)] for the 'case' labels of a switch: each label gets what action() finds in the statements that
    follow it up to the next break/return/_exit; 'default' is code -1.  action(text) -> str or None"""
    out = []; pending = []
    toks = re.split(r"(\bcase\s+\w+\s*:|\bdefault\s*:)", body)
    for k in range(1, len(toks), 2):
        lab = toks[k]; stmt = toks[k + 1] if k + 1 < len(toks) else ""
        m = re.match(r"case\s+(\w+)", lab)
        code = -1 if not m else (int(m.group(1)) if m.group(1).lstrip("-").isdigit() else syms.get(m.group(1), -2))
        pending.append(code)
        a = action(stmt)
        if a is not None:
            out += [(c, a) for c in pending]; pending = []
    return out
def first_letter(stmt):
    ls = re.findall(r'"([^"]*)"', stmt)
    if not ls: return None
    return "".join(sorted(set((x[:1] if x[:1] in ("K", "Z", "D") else "-") for x in ls)))
def after(body, marker):
    i = body.find(marker)
    return body[i:] if i >= 0 else ""
def exit_arg(stmt):
    m = re.search(r"\b_exit\s*\(\s*(\d+)\s*\)|strerr_die\w*\s*\(\s*(\d+)", stmt)
    if m: return m.group(1) or m.group(2)
    if re.search(r"\bbreak\s*;", stmt): return "go-on"
    return None
def T(name, rows): out.append("Definition %s : list (Z * string) := [%s]." % (name, "; ".join("(%s, %s%%string)" % ("(%d)" % c if c < 0 else c, coq_str(a)) for c, a in rows)))
T("lspawn_report_table", switch_table(after(func_body("qmail-lspawn.c", "report"), "wait_exitcode"), defines("qlx.h"), first_letter))
T("qmail_close_table", switch_table(after(func_body("qmail.c", "qmail_close"), "switch"), {}, first_letter))
T("local_program_exit_table", switch_table(after(func_body("qmail-local.c", "mailprogram"), "wait_exitcode"), {}, exit_arg))
# ---- leaf functions of the table code (constmap.c, cdb_*.c, cdbmake_*.c, case_diffb.c) and the slot handling of spawn.c:
#      the models in Base/Constmap.v, Base/Cdb.v, Remote/SpawnSlot.v transcribe these few lines; the normalised text is tied
#      literally, and the numbers that matter are also extracted as numbers
def nows(s): return re.sub(r"\s+", "", s)
def cchar(tok):
    m = re.match(r"'(.)'$", tok)
    return ord(m.group(1)) if m else (int(tok) if tok.isdigit() else None)
def fold_bound(body, var):
    """(bound, add) of  if (var <= 'Z' - 'A') var += 'a' - 'A' ;  bound is the largest value folded"""
    m = re.search(r"if\(%s(<=|<)('.'|\d+)-('.'|\d+)\)%s\+=('.'|\d+)(?:-('.'|\d+))?;" % (var, var), nows(body))
    if not m: return (-1, -1)
    hi, lo = cchar(m.group(2)), cchar(m.group(3))
    a, b = cchar(m.group(4)), (cchar(m.group(5)) if m.group(5) else 0)
    if None in (hi, lo, a, b): return (-1, -1)
    return (hi - lo - (1 if m.group(1) == "<" else 0), a - b)
cmh = func_body("constmap.c", "hash")
S("cm_hash_src", nows(cmh))
fb = fold_bound(cmh, "ch"); Z("cm_fold_max", fb[0]); Z("cm_fold_add", fb[1])
m_ = re.search(r"h=(\d+);", nows(cmh)); Z("cm_hash_start", int(m_.group(1)) if m_ else -1)
S("cdb_hash_src", nows(func_body("cdb_hash.c", "cdb_hash")))
S("cdbmake_hashadd_src", nows(func_body("cdbmake_hash.c", "cdbmake_hashadd")))
S("cdb_unpack_src", nows(func_body("cdb_unpack.c", "cdb_unpack")))
S("cdbmake_pack_src", nows(func_body("cdbmake_pack.c", "cdbmake_pack")))
cdb_ = func_body("case_diffb.c", "case_diffb")
S("case_diffb_src", nows(cdb_))
fx = fold_bound(cdb_.replace("else x += 'A'", ""), "x"); Z("case_fold_max", fx[0])
m_ = re.search(r"#\s*define\s+CDBMAKE_HASHSTART\s+\(\(uint32\)\s*(\d+)\)", rd("cdbmake.h")); Z("cdbmake_hashstart", int(m_.group(1)) if m_ else -1)
m_ = re.search(r"char\s+final\s*\[\s*(\d+)\s*\]", rd("cdbmake.h")); Z("cdb_header_bytes", int(m_.group(1)) if m_ else -1)
seek_ = nows(func_body("cdb_seek.c", "cdb_seek"))
Z("cdb_seek_slot_expr", 1 if "pos=8*(h&255);" in seek_ else 0)
Z("cdb_seek_start_expr", 1 if "h2=(h>>8)%lenhash;" in seek_ else 0)
Z("cdb_seek_error_is_minus1", 1 if seek_.count("return-1;") >= 5 and "case-1:return-1;" in seek_ else 0)
rh_ = nows(func_body("rcpthosts.c", "rcpthosts"))
Z("rcpthosts_returns_seek_result", 1 if "r=cdb_seek(fdmrh,buf+j,len-j,&dlen);if(r)returnr;" in rh_ else 0)
sm_ = nows(rd("qmail-smtpd.c"))
Z("smtpd_dies_on_rcpthosts_error", 1 if "r=rcpthosts(addr.s,str_len(addr.s));if(r==-1)die_control();" in sm_ else 0)
# spawn.c: who holds the write end of the report pipe, and which status report() is given
dc_ = func_body("spawn.c", "docmd"); i_ = dc_.find("f = spawn(")
tail_ = nows(dc_[i_:]) if i_ >= 0 else ""
succ_ = re.sub(r"if\(f==-1\)\{.*?\}", "", tail_, count=1)
Z("spawn_keeps_write_end", 1 if ("d[delnum].fdout=pi[1];" in succ_ and "close(pi[1])" not in succ_) else 0)
S("spawn_sigchld_src", nows(func_body("spawn.c", "sigchld")))
mn_ = nows(func_body("spawn.c", "main"))
Z("spawn_report_on_eof_uses_slot_wstat", 1 if re.search(r"if\(r==0\)\{ch=i;substdio_put\(&ssout,&ch,1\);report\(&ssout,d\[i\]\.wstat,d\[i\]\.output\.s,d\[i\]\.output\.len\);", mn_) else 0)
Z("spawn_docmd_does_not_reset_wstat", 1 if "wstat" not in nows(dc_) else 0)
# qmail-local.c: the marker senders are exempt from the owner rewrite
ql_ = nows(rd("qmail-local.c"))
Z("local_owner_exempts_markers", 1 if 'if(str_diff(sender,""))if(str_diff(sender,"#@[]"))if(qmeox("-owner")==0)' in ql_ else 0)
os.makedirs(os.path.join(V, "coq", "gen"), exist_ok=True)
p = os.path.join(V, "coq", "gen", "Params_gen.v")
txt = "\n".join(out) + "\n"
if not os.path.exists(p) or open(p).read() != txt:
    open(p, "w").write(txt)
print("Params_gen.v: %d definitions from %s" % (len([l for l in out if l.startswith("Definition")]), src))
