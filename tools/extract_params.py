#!/usr/bin/env python3
"""extract_params.py [SRCDIR]  -> writes coq/gen/Params_gen.v

The small translator of DESIGN 2.7: constants and fixed expressions that no feasible run
exercises are parsed out of the *current* sources and written as Coq definitions; the
Tie/Tie_Cxx.v files prove (by reflexivity) that the hand-written models use the same values.
A constant that cannot be found is emitted as the impossible value -1 so the tie fails loudly."""
import os, re, sys
V = os.path.dirname(os.path.dirname(os.path.abspath(__file__)))
src = sys.argv[1] if len(sys.argv) > 1 else os.environ.get("VERIF_REPO", "/repo")

def rd(f):
    try:
        return open(os.path.join(src, f), errors="replace").read()
    except OSError:
        return ""

def strip_comments(t):
    return re.sub(r"/\*.*?\*/", " ", t, flags=re.S)

def define(f, name):
    m = re.search(r"^\s*#\s*define\s+%s\s+\(?\s*(-?\d+)\s*\)?\s*$" % name, strip_comments(rd(f)), re.M)
    return int(m.group(1)) if m else -1

def int_array(f, name):
    m = re.search(r"\b%s\s*\[[^\]]*\]\s*=\s*\{([^}]*)\}" % name, strip_comments(rd(f)))
    if not m:
        return []
    try:
        return [int(x) for x in m.group(1).replace(" ", "").split(",") if x != ""]
    except ValueError:
        return []

def int_init(f, name):
    m = re.search(r"\b(?:int|long|unsigned int|unsigned long)\s+%s\s*=\s*(-?\d+)\s*;" % name, strip_comments(rd(f)))
    return int(m.group(1)) if m else -1

def expr_norm(f, pat):
    """first regex match group 1 in f with all whitespace removed; '' if absent"""
    m = re.search(pat, strip_comments(rd(f)))
    return re.sub(r"\s+", "", m.group(1)) if m else ""

def coq_str(s):
    return '"' + s.replace('"', '""') + '"'

out = ["(* GENERATED on every run by tools/extract_params.py from the current sources - do not edit *)",
       "From Coq Require Import ZArith List String.", "Import ListNotations.", "Local Open Scope Z_scope.", ""]
def Z(name, v): out.append("Definition %s : Z := %s." % (name, "(%d)" % v if v < 0 else str(v)))
def L(name, vs): out.append("Definition %s : list Z := [%s]." % (name, "; ".join("(%d)" % v if v < 0 else str(v) for v in vs)))
def S(name, s): out.append("Definition %s : string := %s%%string." % (name, coq_str(s)))

Z("DEATH", define("qmail-queue.c", "DEATH"))
Z("ADDR", define("qmail-queue.c", "ADDR"))
for n in ["SLEEP_TODO", "SLEEP_FUZZ", "SLEEP_FOREVER", "SLEEP_CLEANUP", "SLEEP_SYSFAIL", "OSSIFIED", "CHANNELS", "REPORTMAX"]:
    Z(n, define("qmail-send.c", n))
L("chanskip", int_array("qmail-send.c", "chanskip"))
Z("lifetime_default", int_init("qmail-send.c", "lifetime"))
Z("MAXHOPS", define("qmail-smtpd.c", "MAXHOPS"))
Z("HUGESMTPTEXT", define("qmail-remote.c", "HUGESMTPTEXT"))
S("flagdying_expr", expr_norm("qmail-send.c", r"\.flagdying\s*=\s*([^;]*);"))
S("pass_due_test", expr_norm("qmail-send.c", r"if\s*\(\s*(pe\.dt\s*[<>=!]+\s*recent)\s*\)\s*return;"))

L("quote_ok", int_array("quote.c", "ok"))
def str_array(f, name):
    m = re.search(r"\(?\s*%s\s*\[\s*\]\s*\)?\s*=\s*\{(.*?)\}\s*;" % name, strip_comments(rd(f)), re.S)
    return re.findall(r'"([^"]*)"', m.group(1)) if m else []
out.append("Definition hfield_names : list string := [%s]." % "; ".join(coq_str(x) + "%string" for x in str_array("hfield.c", "hname")))
os.makedirs(os.path.join(V, "coq", "gen"), exist_ok=True)
p = os.path.join(V, "coq", "gen", "Params_gen.v")
txt = "\n".join(out) + "\n"
if not os.path.exists(p) or open(p).read() != txt:
    open(p, "w").write(txt)
print("Params_gen.v: %d definitions from %s" % (len([l for l in out if l.startswith("Definition")]), src))
