#!/usr/bin/env python3
"""extract_params.py [SRCDIR]  -> writes coq/gen/Params_gen.v

The small translator of DESIGN 2.7: constants and fixed expressions that no feasible run
exercises are parsed out of the *current* sources and written as Coq definitions; the
Tie/Tie_Cxx.v files prove (by reflexivity) that the hand-written models use the same values.
A constant that cannot be found is emitted as the impossible value -1 so the tie fails loudly."""
import os, re, sys
V = os.path.dirname(os.path.dirname(os.path.abspath(__file__)))
src = sys.argv[1] if len(sys.argv) > 1 else os.environ.get("VERIF_REPO", "/repo")

def rd(f):
    try:
        return open(os.path.join(src, f), errors="replace").read()
    except OSError:
        return ""

def strip_comments(t):
    return re.sub(r"/\*.*?\*/", " ", t, flags=re.S)

def define(f, name):
    m = re.search(r"^\s*#\s*define\s+%s\s+\(?\s*(-?\d+)\s*\)?\s*$" % name, strip_comments(rd(f)), re.M)
    return int(m.group(1)) if m else -1

def int_array(f, name):
    m = re.search(r"\b%s\s*\[[^\]]*\]\s*=\s*\{([^}]*)\}" % name, strip_comments(rd(f)))
    if not m:
        return []
    try:
        return [int(x) for x in m.group(1).replace(" ", "").split(",") if x != ""]
    except ValueError:
        return []

def int_init(f, name):
    m = re.search(r"\b(?:int|long|unsigned int|unsigned long)\s+%s\s*=\s*(-?\d+)\s*;" % name, strip_comments(rd(f)))
    return int(m.group(1)) if m else -1

def expr_norm(f, pat):
    """first regex match group 1 in f with all whitespace removed; '' if absent"""
    m = re.search(pat, strip_comments(rd(f)))
    return re.sub(r"\s+", "", m.group(1)) if m else ""

def coq_str(s):
    return '"' + s.replace('"', '""') + '"'

out = ["(* GENERATED on every run by tools/extract_params.py from the current sources - do not edit *)",
       "From Coq Require Import ZArith List String.", "Import ListNotations.", "Local Open Scope Z_scope.", ""]
def Z(name, v): out.append("Definition %s : Z := %s." % (name, "(%d)" % v if v < 0 else str(v)))
def L(name, vs): out.append("Definition %s : list Z := [%s]." % (name, "; ".join("(%d)" % v if v < 0 else str(v) for v in vs)))
def S(name, s): out.append("Definition %s : string := %s%%string." % (name, coq_str(s)))

Z("DEATH", define("qmail-queue.c", "DEATH"))
Z("ADDR", define("qmail-queue.c", "ADDR"))
for n in ["SLEEP_TODO", "SLEEP_FUZZ", "SLEEP_FOREVER", "SLEEP_CLEANUP", "SLEEP_SYSFAIL", "OSSIFIED", "CHANNELS", "REPORTMAX"]:
    Z(n, define("qmail-send.c", n))
L("chanskip", int_array("qmail-send.c", "chanskip"))
Z("lifetime_default", int_init("qmail-send.c", "lifetime"))
Z("MAXHOPS", define("qmail-smtpd.c", "MAXHOPS"))
Z("HUGESMTPTEXT", define("qmail-remote.c", "HUGESMTPTEXT"))
S("flagdying_expr", expr_norm("qmail-send.c", r"\.flagdying\s*=\s*([^;]*);"))
S("pass_due_test", expr_norm("qmail-send.c", r"if\s*\(\s*(pe\.dt\s*[<>=!]+\s*recent)\s*\)\s*return;"))

L("quote_ok", int_array("quote.c", "ok"))
def str_array(f, name):
    m = re.search(r"\(?\s*%s\s*\[\s*\]\s*\)?\s*=\s*\{(.*?)\}\s*;" % name, strip_comments(rd(f)), re.S)
    return re.findall(r'"([^"]*)"', m.group(1)) if m else []
out.append("Definition hfield_names : list string := [%s]." % "; ".join(coq_str(x) + "%string" for x in str_array("hfield.c", "hname")))
def func_body(f, name, nth=1):
    """text of the nth '{...}' block that follows 'name(' at top level (K&R or ANSI definitions)"""
    t = strip_comments(rd(f)); pos = 0
    for _ in range(nth):
        m = re.search(r"^[A-Za-z_][A-Za-z0-9_ \*]*\b%s\s*\(" % name, t[pos:], re.M)
        if not m: return ""
        pos += m.end()
    i = t.find("{", pos)
    if i < 0: return ""
    depth = 0
    for j in range(i, len(t)):
        if t[j] == "{": depth += 1
        elif t[j] == "}":
            depth -= 1
            if depth == 0: return t[i:j + 1]
    return ""
def defines(f):
    return {m.group(1): int(m.group(2)) for m in re.finditer(r"^\s*#\s*define\s+(\w+)\s+(-?\d+)\s*$", rd(f), re.M)}
def switch_table(body, syms, action):
    """[(code, what)] for the 'case' labels of a switch: each label gets what action() finds in the statements that
    follow it up to the next break/return/_exit; 'default' is code -1.  action(text) -> str or None"""
    out = []; pending = []
    toks = re.split(r"(\bcase\s+\w+\s*:|\bdefault\s*:)", body)
    for k in range(1, len(toks), 2):
        lab = toks[k]; stmt = toks[k + 1] if k + 1 < len(toks) else ""
        m = re.match(r"case\s+(\w+)", lab)
        code = -1 if not m else (int(m.group(1)) if m.group(1).lstrip("-").isdigit() else syms.get(m.group(1), -2))
        pending.append(code)
        a = action(stmt)
        if a is not None:
            out += [(c, a) for c in pending]; pending = []
    return out
def first_letter(stmt):
    ls = re.findall(r'"([^"]*)"', stmt)
    if not ls: return None
    return "".join(sorted(set((x[:1] if x[:1] in ("K", "Z", "D") else "-") for x in ls)))
def after(body, marker):
    i = body.find(marker)
    return body[i:] if i >= 0 else ""
def exit_arg(stmt):
    m = re.search(r"\b_exit\s*\(\s*(\d+)\s*\)|strerr_die\w*\s*\(\s*(\d+)", stmt)
    if m: return m.group(1) or m.group(2)
    if re.search(r"\bbreak\s*;", stmt): return "go-on"
    return None
def T(name, rows): out.append("Definition %s : list (Z * string) := [%s]." % (name, "; ".join("(%s, %s%%string)" % ("(%d)" % c if c < 0 else c, coq_str(a)) for c, a in rows)))
T("lspawn_report_table", switch_table(after(func_body("qmail-lspawn.c", "report"), "wait_exitcode"), defines("qlx.h"), first_letter))
T("qmail_close_table", switch_table(after(func_body("qmail.c", "qmail_close"), "switch"), {}, first_letter))
T("local_program_exit_table", switch_table(after(func_body("qmail-local.c", "mailprogram"), "wait_exitcode"), {}, exit_arg))
os.makedirs(os.path.join(V, "coq", "gen"), exist_ok=True)
p = os.path.join(V, "coq", "gen", "Params_gen.v")
txt = "\n".join(out) + "\n"
if not os.path.exists(p) or open(p).read() != txt:
    open(p, "w").write(txt)
print("Params_gen.v: %d definitions from %s" % (len([l for l in out if l.startswith("Definition")]), src))
