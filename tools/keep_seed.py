#!/usr/bin/env python3
"""keep_seed.py Cxx a|b "<what it needs to manifest>" "<detected by / result of ./check>"
copies the confirmed seeded change from /tmp/seed/Cxx.out/x to /verif/seeded/Cxx-x/ with meta.json"""
import sys, os, shutil, json, glob
pid, x, needs, result = sys.argv[1:5]
src = "/tmp/seed/%s.out%s/%s" % (pid, "3" if x in ("e", "f") else ("2" if x in ("c", "d") else ""), x)
dst = "/verif/seeded/%s-%s" % (pid, x)
shutil.rmtree(dst, ignore_errors=True)
os.makedirs(dst)
for f in os.listdir(src):
    p = os.path.join(src, f)
    if os.path.isfile(p) and os.path.getsize(p) < 300000 and not f.endswith(".log"):
        shutil.copy(p, dst)
logs = {}
for k in ("patched", "clean"):
    lp = "/tmp/confirm/%s.%s.%s.log" % (pid, x, k)
    if os.path.exists(lp):
        logs[k] = open(lp, errors="replace").read()[-600:]
meta = dict(property=pid, variant=x, breaks=pid, needs_to_manifest=needs,
            confirmed_by_me=["git apply patch.diff on a scratch worktree of /repo HEAD", "make -j16 it: ok", "cd tests && make test: 22/22 pass",
                             "sh demo.sh <patched tree>: non-zero", "sh demo.sh <clean tree>: 0"],
            demo_log_tail=logs, check_result=result, origin="independent sub-agent given only the property text")
json.dump(meta, open(os.path.join(dst, "meta.json"), "w"), indent=1)
print("kept", dst, os.listdir(dst))
