#!/usr/bin/env python3
"""Regenerates /verif/MANIFEST.json from the CLAIMS table below (edit here, then run)."""
import json, os
V = os.path.dirname(os.path.dirname(os.path.abspath(__file__)))
props = [json.loads(l) for l in open(os.path.join(V, "properties.jsonl"))]

COMMON_NOTE = ("Trusted: Coq 8.16.1 kernel (no axioms declared; Print Assumptions of every property theorem is in the evidence), "
               "extraction with ExtrOcamlBasic + ocamlopt + extract/conv.ml + the driver, the C harness, Python orchestration; "
               "the tie between model and C code is differential (generator quality bounds it). ")

CLAIMS = {
 "C06": dict(category="proof",
   text="Theorems over all messages of any length about Codec.rblast, the Gallina model of qmail-remote.c blast(): CRLF.CRLF occurs exactly once, as suffix; no bare LF; the package's own server model reconstructs exactly the message's lines; refusal iff partial final line; byte-identical for CR-free messages. The model is tied to the real blast() on every run (exhaustive {CR,LF,'.',x}* to length 8/10, all chunkings of short inputs, random long messages) and the extracted oracle ok_C06 is evaluated on the real function's output, which is also decoded by the real qmail-smtpd blast().",
   design_ref="DESIGN.md section 5 C06, section 8",
   note=COMMON_NOTE + "Modelled not verified: substdio buffering (exercised by chunked reads), read errors (temp_read) outside the model.",
   technique="Coq proof (induction over the message, decoder-state framing invariant) + extracted-model differential tie to the real blast()"),
 "C05": dict(category="proof",
   text="Theorems over all byte streams about Codec.sblast, the Gallina model of qmail-smtpd.c blast(): it returns only at the first CR LF . CR LF (exactly one occurrence in the consumed prefix, as suffix, rest handed back untouched, no bare LF consumed); exhausted input contained no terminator; the 451 path only at a bare LF before any terminator; every message sent by a conforming sender, and everything the package's own client sends, decodes to exactly the original lines. Tied to the real blast() on every run (exhaustive {CR,LF,'.',x}* to length 8/10, all chunkings, NUL/0xff, size limit armed, hop counter) with the extracted oracle ok_C05 (independent RFC 5321 reference decoder) evaluated on the real function's result.",
   design_ref="DESIGN.md section 5 C05, section 8",
   note=COMMON_NOTE + "Equality of sblast with the independent reference decoder rfc_decode on every stream is checked by the oracle on the implementation's outputs (differential), not yet proved as a theorem; the surrounding session (451 reply, nothing queued) belongs to C07/C08.",
   technique="Coq proof (decoder-state framing invariant by induction over the stream) + extracted-model differential tie to the real blast()"),
 "C15": dict(category="proof",
   text="Theorems (no bound on values or lengths): squareroot() is the exact integer square root for every 0 <= x < 2^32 (loop invariant); nextretry = birth + (floor(sqrt(age)) + 10|20)^2 and lies strictly in the future; flagdying iff age > lifetime; for every sequence of prioq insertions and deletions the array is a heap, its head a minimum, contents = inserted minus deleted (Permutation); what pqfinish writes into the mtimes is what pqstart reads back. Models are tied on every run to the real squareroot/nextretry/prioq_*/pqfinish+pqstart (function harness including qmail-send.c; thorough: every x < 2^32), direct oracles on the real answers, and a regenerated constants tie (chanskip, flagdying expression, due test).",
   design_ref="DESIGN.md section 5 C15, section 8",
   note=COMMON_NOTE + "Daemon-level timing (a pass starts only when due, ALRM makes everything due, Z handled as D when dying) is tied textually (Tie_C15.v) and by the daemon histories of C03/C04 where registered; the virtual-clock histories are not part of this check.",
   technique="Coq proof (loop invariant for squareroot, hole invariants for the heap sift loops, induction over operation sequences) + extracted-model differential tie + constants translator"),
 "C18": dict(category="proof",
   text="Theorems for every request / command / report stream: qmail-clean answers each request with exactly one status byte, changes nothing for a request it rejects, and unlinks only intd/N, mess/(N mod split)/N or todo/N for the all-digit N of a foop/ or todo/ request (N = decimal value mod 2^64, stated); the spawners produce exactly one action carrying the delivery number per complete command and open only digit/slash names starting with a digit, < 100 bytes, spawning only for a regular file owned by the queue user; qmail-send's report parser never stores more than REPORTMAX bytes, ignores out-of-range/unused delivery numbers and finishes a recipient only on a well-formed K or D (or dying Z). Tied on every run to the real qmail-clean (per-request unlink calls and status bytes under the interposer, real and injected unlink errors), the real qmail-rspawn (reports per command, files opened) and the real del_dochan() (function harness, real mark and bounce files).",
   design_ref="DESIGN.md section 5 C18, section 8",
   note=COMMON_NOTE + "Known finding clean:id-wraps-2^64 (digit strings >= 2^64 act on the number modulo 2^64) is listed in known_findings.json. qmail-lspawn shares spawn.c; its user lookup is C11. cleanuppid() (stale pid files) is outside this model.",
   technique="Coq proof (case analysis of the validation functions, induction over the report stream) + extracted-model differential tie under an LD_PRELOAD interposer"),
 "C10": dict(category="proof",
   text="Theorem rewrite_eq_spec: for every configuration (envnoathost, locals, percenthack, virtualdomains as case-insensitive maps) and every recipient byte string, the transcription of qmail-send.c rewrite()'s index loops equals an independently written statement of the documented rules (default host; percent hack repeated while the exposed domain is listed; locals on the domain after the last @; full address, domain, dot-suffixes longest first, catch-all; empty tag = remote). Plus the VERP sender expansion. The model (including control_readfile/constmap_init parsing) is tied on every run to the real rewrite()/senderadd() behind the real getcontrols()/regetcontrols(), and the declarative spec is evaluated as oracle on the real answers, before and after a re-read (HUP).",
   design_ref="DESIGN.md section 5 C10, section 8",
   note=COMMON_NOTE + "Duplicate keys in a control file (last one wins) and NUL bytes in control files are outside the domain. The order-preserving partition of a message's recipients by todo_do() is not part of this check.",
   technique="Coq proof (index-loop transcription = declarative key-list spec) + extracted-model differential tie through the real control-file parsers"),
 "C14": dict(category="proof",
   text="Theorems: for all recipient and report bytes the text addbounce() appends has exactly one paragraph start, begins <recipient>: and ends with a blank line, so a notice for n failures has exactly n paragraphs (report text cannot forge recipient paragraphs); every notice has a strictly smaller generation (2 ordinary, 1 bounce, 0 double bounce) than the message it reports on, so chains end after the double bounce; single bounces go from the empty sender to the VERP-stripped original sender, double bounces from #@[] to the postmaster address, a failing double bounce is discarded. Tied on every run to the real addbounce()/stripvdomprepend()/injectbounce() (real bounce files, real control files, stand-in qmail-queue capturing the envelope, queue exit codes 0/53/31).",
   design_ref="DESIGN.md section 5 C14, section 8",
   note=COMMON_NOTE + "The notice header (From/To/Subject, date) is checked only for containing the paragraphs and the original message; daemon-level ordering (messdone) is C03's.",
   technique="Coq proof (left-to-right characterisation of the in-place sanitising loop; paragraph-start counter invariant; rank function) + extracted-model differential tie"),
 "C01": dict(category="proof",
   text="Theorems over every message, envelope and fault plan: at every prefix of qmail-queue's file-system event sequence (= every instant the process can be killed, time out, or the machine stop) and every crash image (files cut anywhere between fsynced prefix and length), a todo entry implies mess = Received line ++ message and todo = header ++ well-formed envelope, both durable; exit 0 implies committed; a failure exit implies the message was never visible at any prefix; intermediate patterns are S1-S4 or a pid file; exit codes 0/54/91/11 by the envelope grammar (1002-byte addresses accepted, 1003 refused) and 53/63-66 for failing calls. The model is tied on every run to the real qmail-queue under the interposer: event traces for every single failing call of the observed sequence, read errors, signals after chosen calls and kills before each call are compared with the model, and the extracted oracle is evaluated on every prefix of each OBSERVED trace (fsync positions included) and against the queue on disk.",
   design_ref="DESIGN.md section 5 C01, section 8",
   note=COMMON_NOTE + "Assumes conf-qmail's file-system model (synchronous directory operations, data durable up to the last fsync, truncation durable); unsynced-data loss is covered by the theorem and by the oracle on observed fsync positions, not by physically losing data. Short writes and double faults are not injected. The Received: line is opaque.",
   technique="Coq proof (case analysis over fault plans, invariant at every event prefix, crash-image relation) + trace refinement of the real qmail-queue under an LD_PRELOAD interposer"),
 "C12": dict(category="proof",
   text="Theorems: for every content and fault plan, at every prefix of the maildir writer's events and every crash image, a name in new/ implies the file holds exactly Return-Path ++ Delivered-To ++ message, durable; success is reported iff the message became visible; with the lock held any failing write/read/fsync restores the mbox to its previous length and success appends exactly the entry; for every message (From_/>From_ lines, NUL, no final newline, empty) and sender text the mbox(5) reader splits and unquotes old ++ entry back to the old messages plus exactly the delivered message. Tied on every run to the real qmail-local under the interposer (single failing open/write/fsync/close/link, kills, forced same-name deliveries, a scheduled lock interleaving with an injected write error), with the extracted oracles and an independent Python mbox reader on the files produced.",
   design_ref="DESIGN.md section 5 C12, section 8",
   note=COMMON_NOTE + "Same file-system model as C01. Roll-back is promised only when the lock was obtained. General interleavings of several mbox writers rest on flock plus one scheduled interleaving; no interleaving theorem yet. myctime's date is opaque.",
   technique="Coq proof (event-prefix invariant for the maildir writer, list-level round trip for the mbox reader) + trace refinement of the real qmail-local under an LD_PRELOAD interposer"),
 "C09": dict(category="proof",
   text="Theorems for every byte stream a server can send (exhaustion = disconnect) and any number of recipients: the message report is K only if greeting 220, HELO 250, MAIL < 400, some RCPT < 400, DATA < 400, the whole message was sent and the reply after the final dot is < 400; per-recipient reports are the classes (r <400, s 4xx, h >=500) of the consecutive RCPT replies in argument order; any disconnect yields Z, flagged possible duplicate exactly when it happens while the final reply is awaited; bad greeting is temporary, MAIL 5xx permanent / 4xx temporary. For every exit status and output, qmail-rspawn's report() starts with K, Z or D and K only for a clean exit, no leading h/s, first K/Z/D segment K; crash -> Z, 111 -> Z, other non-zero -> D. Tied on every run to the real qmail-remote against a scripted loopback server (systematic reply forms per phase, cut replies, 1-3 recipients, partial-line messages) with an independent classifier as oracle, and to the real report() on all outputs over {r,h,s,K,Z,D,x,NUL} to length 4/5.",
   design_ref="DESIGN.md section 5 C09, section 8",
   note=COMMON_NOTE + "TCP/DNS/tcpto/timeouts outside the model (a stall is the disconnect it ends in). DATA 5xx/4xx and final 5xx/4xx classes are checked by the oracle on the real client; only MAIL and greeting classes are separate theorems besides K_sound.",
   technique="Coq proof (case analysis of the phase sequence, induction over the recipient loop) + differential tie against a scripted SMTP server and a function harness for report()"),
 "C19": dict(category="proof",
   text="Theorems for every file content, maildir and command sequence: RETR sends exactly the rfc_encode of the stored file (final newline added, plus the documented extra blank line) and C05's decoder gives the file back; TOP n k sends the header through the first empty line plus exactly k body lines; the message list never changes during a session; an accepted number names an existing unmarked message (value modulo 2^64, stated); marks change only by a successful DELE or RSET; a refused number has no effect; without QUIT nothing is removed or renamed; QUIT unlinks exactly the marked messages. Tied on every run to the real qmail-pop3d (non-root uid) on generated maildirs x command sequences (exhaustive short sequences, seeded long ones, boundary arguments, CRLF/LF, unterminated last line), byte-for-byte replies and maildir afterwards, with an independent RFC 1939 reference as oracle; root refusal checked.",
   design_ref="DESIGN.md section 5 C19, section 8",
   note=COMMON_NOTE + "Known finding pop3:msgno-wraps-2^64 is listed in known_findings.json. qmail-popup (pre-authentication verbs, credentials passed verbatim) is not yet modelled; equal mtimes and STAT's count are outside the property.",
   technique="Coq proof (line-level encoding lemmas reusing C05's decoder theorem; case analysis of the command dispatcher; induction over the session) + extracted-model differential tie to the real qmail-pop3d"),
 "C13": dict(category="proof",
   text="Theorems for every extension, file population, instruction text and outcome oracle: the sanitised extension contains no dot and every candidate is .qmail+dash+prefix+(''|default); the file used is the first regular candidate in search order with all earlier ones absent, a temporary error or a file writable by others defers; a writable or sticky home never delivers; with the x bit or +list no file/program instruction is executed; forwarding is the last step, once, only if nothing ended the run earlier; program exit codes map 99 -> stop with success, 100/64/65/70/76/77/78/112 -> permanent, other/crash -> temporary; a blank first line is refused; a message carrying its own Delivered-To line is bounced before any delivery; the Delivered-To, Return-Path and From_ lines contain exactly one LF, at the end, for all address bytes. Tied on every run to the real qmail-local: -n plans over generated homes (candidate/decoy files, modes, directories, home modes) and real runs (programs leaving an execution trace with every relevant exit code, maildir/mbox lines, forwards through a stand-in qmail-queue with exit 0/31/53, looping messages, hostile addresses).",
   design_ref="DESIGN.md section 5 C13, section 8",
   note=COMMON_NOTE + "Temporary stat/open errors cannot be produced as root and are not exercised; -owner sender rewriting and the environment handed to programs are not modelled.",
   technique="Coq proof (structural induction over candidates and instruction lines) + extracted-model differential tie to the real qmail-local in generated home directories"),
 "C08": dict(category="proof",
   text="Theorems about the command handlers of the session model, for every state, argument and configuration: DATA hands a message to the queue only inside a transaction with at least one accepted recipient, with exactly the current sender and recipients in order, and is refused with 503 otherwise; an accepted MAIL starts a fresh transaction, a 555 MAIL changes nothing; HELO, EHLO, RSET (and a completed DATA) end the transaction; no other verb touches the envelope; RCPT is accepted iff inside a transaction, the address parses (< 900 bytes), the sender is not on the bad-sender list, and relaying is enabled (suffix appended) or the IP-literal-substituted address passes rcpthosts; rcpthosts = no list / no @ / the lower-cased domain or a dot-suffix listed case-insensitively or in the compiled extra list. Tied on every run to the real qmail-smtpd (stand-in queue recording every submission) on generated configurations x command sequences incl. morercpthosts.cdb built by the real qmail-newmrh, with an independent Python reference as oracle.",
   design_ref="DESIGN.md section 5 C08, section 8",
   note=COMMON_NOTE + "The statement 'recipients are exactly those answered 250 since the most recent accepted MAIL' follows from the per-handler theorems by composition over the command list; that composition is not a separate theorem. ipme is an oracle (127.0.0.1, 0.0.0.0 in the sandbox); constmap hashing and cdb lookup are abstracted to case-insensitive / exact membership (exercised through the real code).",
   technique="Coq proof (case analysis of the command handlers, suffix-list characterisation) + extracted-model differential tie to the real qmail-smtpd with a stand-in queue"),
}

REASON_PENDING = "not yet claimed: model/correspondence for this property is still being built (DESIGN.md section 7); no check is registered for it"

m = {"version": 1,
     "setup_cmd": "make -C /verif setup",
     "hooks": {"guard": "NOTQMAIL_VERIF",
               "enable": "every check copies /repo's working tree to scratch and appends -DNOTQMAIL_VERIF to conf-cc (tools/vlib.py RepoBuild); no hook exists in the source today",
               "baseline_off_cmd": "sh /verif/tools/baseline_off.sh", "source_commits": [], "add_only": True},
     "engines": [{"name": "coq-model+correspondence", "path": "check", "serves_properties": sorted(CLAIMS),
                  "kind_free_text": "Coq 8.16.1 theorems about executable Gallina models (coq/), extracted to OCaml (ExtrOcamlBasic) and compared with the real C functions/programs rebuilt from /repo's working tree on every run"}],
     "checks": [], "not_applicable": [],
     "notes": "See DESIGN.md. fix: commits in /repo are recorded in known_findings.json."}
for p in props:
    pid = p["id"]
    if pid in CLAIMS:
        c = CLAIMS[pid]
        m["checks"].append({"property_id": pid, "quick_cmd": "./check %s" % pid, "thorough_cmd": "./check %s --thorough" % pid,
                            "evidence_file": "evidence/%s.json" % pid, "replay_cmd_template": "./check %s --replay {path}" % pid,
                            "engine": "coq-model+correspondence",
                            "level_claimed": {"category": c["category"], "text": c["text"], "design_ref": c["design_ref"]},
                            "level_note": c["note"], "technique": c["technique"]})
    else:
        m["not_applicable"].append({"property_id": pid, "reason": REASON_PENDING})
json.dump(m, open(os.path.join(V, "MANIFEST.json"), "w"), indent=1)
print("claimed:", sorted(CLAIMS))
