#!/usr/bin/env python3
"""c2gallina.py SRCDIR OUT.v  file.c:function[:alias] ...

The second translator of DESIGN 2.7 / 8.3 (round 3): small leaf functions of the C sources are turned into Gallina
on every run, from clang's own AST (clang -Xclang -ast-dump=json: integer promotions, conversions and lvalue/rvalue
steps are explicit there, so the translation does not re-implement C's typing rules).  The hand-written models are
then proved equal to the generated functions (coq/Tie2/*.v); a change of the C text changes the generated function
and the equality proof breaks.

Supported subset (anything else makes the translator stop with an error, which the caller reports):
  integer locals and parameters; pointer parameters and pointer locals that stay inside ONE array (char, unsigned char
  or wider integer elements); = and compound assignments, ++/--, unary - ! ~, binary + - * / % << >> & | ^ < <= > >= == !=
  && || ?:, casts between integer types, *p p[i] p+i p-i p-q, sizeof(type), if/else, while, for, do-while, break,
  continue, return, calls to other translated functions (integer and same-array pointer arguments).
Semantics: every integer value is a Z; an unsigned result is reduced mod 2^w, a signed one is wrapped to two's
complement (gcc's behaviour; signed overflow is undefined in C and does not occur in the functions tied).  Arrays are
lists of Z; a read outside the list yields 0 and a write outside it is dropped (the equalities are proved for
in-bounds uses).  Loops become structural recursion on a fuel argument; running out of fuel is the outcome OStuck.
"""
import json, os, re, subprocess, sys

class Unsupported(Exception):
    pass

INT_TYPES = {
    "char": (8, True), "signed char": (8, True), "unsigned char": (8, False),
    "short": (16, True), "unsigned short": (16, False),
    "int": (32, True), "unsigned int": (32, False),
    "long": (64, True), "unsigned long": (64, False),
    "long long": (64, True), "unsigned long long": (64, False),
    "_Bool": (8, False),
}

def ast_objects(text):
    dec = json.JSONDecoder(); i = 0; out = []
    while True:
        while i < len(text) and text[i].isspace(): i += 1
        if i >= len(text): break
        o, i = dec.raw_decode(text, i); out.append(o)
    return out

def clang_function(srcdir, cfile, fname):
    cmd = ["clang", "-fsyntax-only", "-w", "-I" + srcdir, "-Xclang", "-ast-dump=json", "-Xclang", "-ast-dump-filter=" + fname, cfile]
    r = subprocess.run(cmd, cwd=srcdir, stdout=subprocess.PIPE, stderr=subprocess.PIPE)
    for o in ast_objects(r.stdout.decode(errors="replace")):
        if o.get("kind") == "FunctionDecl" and o.get("name") == fname and any(c.get("kind") == "CompoundStmt" for c in o.get("inner", [])):
            return o
    raise Unsupported("%s: no definition of %s found by clang" % (cfile, fname))

def qt(node):
    t = node.get("type", {})
    return t.get("desugaredQualType", t.get("qualType", ""))

def strip_quals(t):
    return re.sub(r"\b(const|volatile|register|restrict)\b", "", t).strip()

def int_type(t):
    t = re.sub(r"\s+", " ", strip_quals(t))
    return INT_TYPES.get(t)

def is_ptr(t):
    return strip_quals(t).endswith("*")

def pointee(t):
    t = strip_quals(t)
    return strip_quals(t[:-1]) if t.endswith("*") else None

class Fn:
    # functions that report and exit: the run ends with this (negative) code
    NORETURN = {"temp_read": -2, "perm_partialline": -3, "straynewline": -4, "temp_nomem": -5, "resources": -6, "badproto": -7, "die_nomem": -5, "_exit": -8}
    def __init__(self, node, alias, known, chk=False):
        self.node = node; self.name = alias; self.known = known; self.chk = chk
        self.structs = []       # names of pointer-to-struct parameters (their fields become variables/arrays on first use)
        self.field_arrays = []  # arrays that came from struct fields or address-taken locals, in order of discovery
        self.addr_taken = set()
        self.vars = []          # integer / pointer-offset variables, in order
        self.arrays = []        # array names
        self.base = {}          # pointer variable -> array name
        self.vtype = {}         # variable -> C type
        self.loops = []         # generated loop fixpoints (text)
        self.nloop = 0; self.nfresh = 0
        self.params = [c for c in node.get("inner", []) if c.get("kind") == "ParmVarDecl"]
        self.body = [c for c in node.get("inner", []) if c.get("kind") == "CompoundStmt"][0]
        rt = strip_quals(qt(node).split("(")[0])
        self.ret = rt
        for p in self.params:
            self.declare(p["name"], qt(p), param=True)
        self.collect_locals(self.body)
        if chk: self.vars.append("_oob"); self.vtype["_oob"] = "int"

    # ---- declarations
    def declare(self, name, t, param=False):
        if name in self.vtype: return
        if param and "(*)" in t:
            # a function pointer parameter (substdio's op): calls through it are the read/write oracle; it has no value in the state
            self.fnptrs = getattr(self, "fnptrs", []) + [name]; self.vtype[name] = t; return
        if is_ptr(t) and int_type(pointee(t)) is None and not is_ptr(pointee(t)):
            if not param: raise Unsupported("local pointer to a struct: " + name)
            self.vtype[name] = t; self.structs.append(name)                 # fields appear on use
        elif is_ptr(t):
            self.vtype[name] = t; self.vars.append(name)
            if param:
                self.arrays.append(name); self.base[name] = name
        elif int_type(t):
            self.vtype[name] = t; self.vars.append(name)
        elif re.match(r".*\[\d*\]$", strip_quals(t)):
            self.vtype[name] = t; self.arrays.append(name); self.base[name] = name
        elif not param and strip_quals(t).startswith("struct ") and not is_ptr(t):
            # a local structure: its fields become variables/arrays on first use (integers 0, sized arrays zero-filled - the C
            # object is uninitialised, so a proof about the translation covers the run in which it happened to hold zeros;
            # functions that read such a field before writing it are outside what the translation says)
            self.vtype[name] = t; self.structs.append(name); self.lstructs = getattr(self, "lstructs", []) + [name]
        else:
            raise Unsupported("variable %s of type %s" % (name, t))
    def collect_locals(self, n):
        if n.get("kind") == "VarDecl":
            self.declare(n["name"], qt(n))
        for c in n.get("inner", []):
            self.collect_locals(c)

    def field(self, e):
        """MemberExpr p->f on a struct parameter -> ('var', name) | ('arr', name); declares it on first use"""
        inner = e["inner"][0]
        while inner.get("kind") in ("ImplicitCastExpr", "ParenExpr"): inner = inner["inner"][0]
        if inner.get("kind") == "DeclRefExpr" and inner["referencedDecl"]["name"] not in self.vtype and not e.get("isArrow") \
           and inner["referencedDecl"].get("kind") == "VarDecl":
            self.structs.append(inner["referencedDecl"]["name"]); self.gstructs = getattr(self, "gstructs", []) + [inner["referencedDecl"]["name"]]
            self.vtype[inner["referencedDecl"]["name"]] = "struct (file scope)"
        if inner.get("kind") != "DeclRefExpr" or inner["referencedDecl"]["name"] not in self.structs:
            raise Unsupported("member access on something that is not a struct parameter")
        nm = "%s__%s" % (inner["referencedDecl"]["name"], e["name"]); t = qt(e)
        if nm not in self.vtype:
            self.vtype[nm] = t
            if is_ptr(t) or re.match(r".*\[\d*\]$", strip_quals(t)):
                self.arrays.append(nm); self.base[nm] = nm
            elif int_type(t): self.vars.append(nm)
            else: raise Unsupported("field %s of type %s" % (nm, t))
            if inner["referencedDecl"]["name"] in getattr(self, "gstructs", []): self.globals_ = getattr(self, "globals_", []) + [nm]
        return ("arr", nm) if nm in self.arrays else ("var", nm)
    def declare_global(self, e):
        """a file-scope variable: it becomes a further parameter of run (integers; arrays of integers)"""
        rd = e.get("referencedDecl", {}); nm = rd.get("name"); t = qt(e)
        if rd.get("kind") != "VarDecl": raise Unsupported("reference to " + str(nm))
        if int_type(t):
            self.vtype[nm] = t; self.vars.append(nm)
        elif re.match(r".*\[\d*\]$", strip_quals(t)) and int_type(re.sub(r"\[\d*\]$", "", strip_quals(t)).strip()):
            self.vtype[nm] = t; self.arrays.append(nm); self.base[nm] = nm
        else: raise Unsupported("global %s of type %s" % (nm, t))
        self.globals_ = getattr(self, "globals_", []) + [nm]
    def fresh(self, p="s"):
        self.nfresh += 1; return "%s%d" % (p, self.nfresh)

    # ---- expressions.  tr(e, s) -> (lets, value, s') : lets is a list of "let x := t in" strings
    def wrap(self, t, v):
        it = int_type(t)
        if it is None: raise Unsupported("integer type expected, got " + t)
        w, signed = it
        return "(%s %d %s)" % ("wraps" if signed else "wrapu", w, v)
    def ptr(self, e, s):
        """pointer-valued expression -> (lets, base array, offset term, s')"""
        k = e.get("kind")
        if k in ("ParenExpr",): return self.ptr(e["inner"][0], s)
        if k in ("ImplicitCastExpr", "CStyleCastExpr"):
            ck = e.get("castKind")
            if ck in ("LValueToRValue", "NoOp", "BitCast"):
                return self.ptr(e["inner"][0], s)
            if ck == "ArrayToPointerDecay":
                inner = e["inner"][0]
                while inner.get("kind") == "ParenExpr": inner = inner["inner"][0]
                if inner.get("kind") == "DeclRefExpr":
                    nm = inner["referencedDecl"]["name"]
                    if nm not in self.vtype: self.declare_global(inner)
                    if nm in self.arrays: return [], nm, "0", s
                if inner.get("kind") == "MemberExpr":
                    kind, nm = self.field(inner)
                    if kind == "arr": return [], nm, "0", s
                if inner.get("kind") == "StringLiteral":
                    return self.ptr(inner, s)
                raise Unsupported("array decay of " + inner.get("kind", "?"))
            if ck == "NullToPointer": return [], None, "(-1)", s          # the null pointer: offset -1, no array
            raise Unsupported("pointer cast " + str(ck))
        if k == "StringLiteral":
            v = json.loads(e["value"]) if e["value"].startswith('"') else e["value"]
            lst = "[" + "; ".join([str(b) for b in v.encode("latin1")] + ["0"]) + "]"
            self.lits = getattr(self, "lits", {})
            for nm, l in self.lits.items():
                if l == lst: return [], nm, "0", s
            nm = "lit%d" % (len(self.lits) + 1); self.lits[nm] = lst
            self.arrays.append(nm); self.base[nm] = nm; self.vtype[nm] = "char [%d]" % (len(v) + 1)
            return [], nm, "0", s
        if k == "MemberExpr":
            kind, nm = self.field(e)
            if kind != "arr": raise Unsupported("integer field used as a pointer")
            return [], nm, "0", s
        if k == "DeclRefExpr":
            nm = e["referencedDecl"]["name"]
            if nm not in self.vtype: self.declare_global(e)
            if nm in self.arrays and nm not in self.vars: return [], nm, "0", s
            if nm not in self.base: raise Unsupported("pointer %s has no known array" % nm)
            return [], self.base[nm], "(v_%s %s)" % (nm, s), s
        if k == "BinaryOperator" and e["opcode"] in ("+", "-"):
            a, b = e["inner"]
            if is_ptr(qt(a)):
                l1, base, off, s1 = self.ptr(a, s); l2, v, s2 = self.tr(b, s1)
                return l1 + l2, base, "(%s %s %s)" % (off, e["opcode"], v), s2
            if is_ptr(qt(b)) and e["opcode"] == "+":
                l1, v, s1 = self.tr(a, s); l2, base, off, s2 = self.ptr(b, s1)
                return l1 + l2, base, "(%s + %s)" % (off, v), s2
        if k == "UnaryOperator" and e["opcode"] in ("++", "--"):
            inner = e["inner"][0]
            while inner.get("kind") == "ParenExpr": inner = inner["inner"][0]
            if inner.get("kind") != "DeclRefExpr": raise Unsupported("++ on a pointer expression")
            nm = inner["referencedDecl"]["name"]; base = self.base.get(nm)
            if base is None: raise Unsupported("pointer %s has no known array" % nm)
            s1 = self.fresh(); old = self.fresh("p")
            d = "+ 1" if e["opcode"] == "++" else "- 1"
            lets = ["let %s := v_%s %s in" % (old, nm, s), "let %s := set_v_%s %s (%s %s) in" % (s1, nm, s, old, d)]
            return lets, base, (old if e.get("isPostfix") else "(%s %s)" % (old, d)), s1
        if k == "BinaryOperator" and e["opcode"] in ("=",):
            lhs, rhs = e["inner"]
            while lhs.get("kind") == "ParenExpr": lhs = lhs["inner"][0]
            if lhs.get("kind") == "DeclRefExpr":
                nm = lhs["referencedDecl"]["name"]
                l1, base, off, s1 = self.ptr(rhs, s)
                self.bind_base(nm, base)
                s2 = self.fresh()
                return l1 + ["let %s := set_v_%s %s %s in" % (s2, nm, s1, off)], base, "(v_%s %s)" % (nm, s2), s2
        if k == "CompoundAssignOperator" and e["opcode"] in ("+=", "-="):
            lhs, rhs = e["inner"]
            while lhs.get("kind") == "ParenExpr": lhs = lhs["inner"][0]
            if lhs.get("kind") == "DeclRefExpr":
                nm = lhs["referencedDecl"]["name"]; base = self.base.get(nm)
                if base is None: raise Unsupported("pointer %s has no known array" % nm)
                l1, v, s1 = self.tr(rhs, s); s2 = self.fresh()
                return l1 + ["let %s := set_v_%s %s (v_%s %s %s %s) in" % (s2, nm, s1, nm, s1, e["opcode"][0], v)], base, "(v_%s %s)" % (nm, s2), s2
        raise Unsupported("pointer expression " + k + " " + str(e.get("opcode", "")))
    def bind_base(self, nm, base):
        if base is None: return
        if self.base.get(nm, base) != base:
            raise Unsupported("pointer %s used with two arrays (%s, %s)" % (nm, self.base[nm], base))
        self.base[nm] = base
    def elem_read(self, t, base, off, s):
        it = int_type(t)
        if it is None: raise Unsupported("element type " + t)
        w, signed = it
        raw = "(rd (a_%s %s) %s)" % (base, s, off)
        return "(wraps %d %s)" % (w, raw) if signed else "(wrapu %d %s)" % (w, raw)
    def lvalue(self, e, s):
        """-> ('var', name, lets, s') | ('mem', base, offset term, elem type, lets, s')"""
        while e.get("kind") == "ParenExpr": e = e["inner"][0]
        k = e.get("kind")
        if k == "DeclRefExpr":
            nm = e["referencedDecl"]["name"]
            if nm not in self.vtype: self.declare_global(e)
            if nm in self.arrays and nm not in self.vars: raise Unsupported("array %s used as a scalar" % nm)
            return ("var", nm, [], s)
        if k == "MemberExpr":
            kind, nm = self.field(e)
            if kind == "var": return ("var", nm, [], s)
            raise Unsupported("pointer field as an lvalue")
        if k == "UnaryOperator" and e["opcode"] == "*":
            inner = e["inner"][0]
            while inner.get("kind") in ("ParenExpr",): inner = inner["inner"][0]
            if inner.get("kind") == "CallExpr" and self.callee_name(inner) == "__errno_location":
                if "errno" not in self.vtype: self.vtype["errno"] = "int"; self.vars.append("errno")
                return ("var", "errno", [], s)
            l, base, off, s1 = self.ptr(e["inner"][0], s)
            return self.mem_lv(base, off, qt(e), l, s1)
        if k == "ArraySubscriptExpr":
            a, i = e["inner"]
            l1, base, off, s1 = self.ptr(a, s); l2, v, s2 = self.tr(i, s1)
            return self.mem_lv(base, "(%s + %s)" % (off, v), qt(e), l1 + l2, s2)
        raise Unsupported("lvalue " + k)
    def mem_lv(self, base, off, et, lets, s):
        if base is None: raise Unsupported("access through a null pointer")
        if not self.chk: return ("mem", base, off, et, lets, s)
        o = self.fresh("o"); s1 = self.fresh()
        lets = lets + ["let %s := %s in" % (o, off),
                       "let %s := set_v__oob %s (Z.lor (v__oob %s) (b2z (negb (inb (a_%s %s) %s)))) in" % (s1, s, s, base, s, o)]
        return ("mem", base, o, et, lets, s1)
    def store(self, lv, val, s):
        """-> (lets, s')"""
        s1 = self.fresh()
        if lv[0] == "var":
            return ["let %s := set_v_%s %s %s in" % (s1, lv[1], s, val)], s1
        _, base, off, et, _, _ = lv
        it = int_type(et)
        if it is None: raise Unsupported("store of type " + et)
        return ["let %s := set_a_%s %s (wr (a_%s %s) %s (wrapu %d %s)) in" % (s1, base, s, base, s, off, it[0], val)], s1
    def load(self, lv, s):
        if lv[0] == "var": return "(v_%s %s)" % (lv[1], s)
        return self.elem_read(lv[3], lv[1], lv[2], s)

    BIN = {"+": "+", "-": "-", "*": "*", "&": "Z.land", "|": "Z.lor", "^": "Z.lxor"}
    CMP = {"<": "<?", "<=": "<=?", ">": ">?", ">=": ">=?", "==": "=?"}
    def tr(self, e, s):
        k = e.get("kind"); t = qt(e)
        if k == "ParenExpr": return self.tr(e["inner"][0], s)
        if k == "ConstantExpr":
            if "value" in e: return [], "(%s)" % e["value"], s
            return self.tr(e["inner"][0], s)
        if k == "IntegerLiteral": return [], "(%s)" % e["value"], s
        if k == "CharacterLiteral": return [], "(%d)" % e["value"], s
        if k == "UnaryExprOrTypeTraitExpr" and e.get("name") == "sizeof":
            at = e.get("argType", {}).get("desugaredQualType", e.get("argType", {}).get("qualType"))
            it = int_type(at) if at else None
            if it: return [], "(%d)" % (it[0] // 8), s
            raise Unsupported("sizeof " + str(at))
        if k in ("ImplicitCastExpr", "CStyleCastExpr"):
            ck = e.get("castKind"); inner = e["inner"][0]
            if ck == "LValueToRValue":
                if is_ptr(t): raise Unsupported("pointer value used as an integer")
                lv = self.lvalue(inner, s)
                if lv[0] == "var": return [], self.load(lv, s), s
                return lv[4], self.load(lv, lv[5]), lv[5]
            if ck in ("IntegralCast", "NoOp", "IntegralToBoolean"):
                l, v, s1 = self.tr(inner, s)
                if ck == "IntegralToBoolean": return l, "(b2z (negb (%s =? 0)))" % v, s1
                return l, self.wrap(t, v), s1
            raise Unsupported("cast " + str(ck))
        if k == "DeclRefExpr":
            raise Unsupported("bare lvalue " + e["referencedDecl"]["name"])
        if k == "UnaryOperator":
            op = e["opcode"]; inner = e["inner"][0]
            if op in ("++", "--"):
                if is_ptr(qt(inner)): raise Unsupported("pointer ++ used as an integer")
                lv = self.lvalue(inner, s)
                lets = [] if lv[0] == "var" else lv[4]
                s0 = s if lv[0] == "var" else lv[5]
                old = self.fresh("x")
                lets = lets + ["let %s := %s in" % (old, self.load(lv, s0))]
                new = self.wrap(qt(inner), "(%s %s 1)" % (old, "+" if op == "++" else "-"))
                l2, s2 = self.store(lv, new, s0)
                return lets + l2, (old if e.get("isPostfix") else new), s2
            if op == "!" and is_ptr(qt(inner)):
                l, _, off, s1 = self.ptr(inner, s)
                return l, "(b2z (%s =? -1))" % off, s1
            l, v, s1 = self.tr(inner, s)
            if op == "-": return l, self.wrap(t, "(- %s)" % v), s1
            if op == "+": return l, v, s1
            if op == "!": return l, "(b2z (%s =? 0))" % v, s1
            if op == "~": return l, self.wrap(t, "(Z.lnot %s)" % v), s1
            raise Unsupported("unary " + op)
        if k == "BinaryOperator":
            op = e["opcode"]; a, b = e["inner"]
            if op == "=":
                if is_ptr(qt(a)):
                    l, base, off, s1 = self.ptr(e, s); return l, off, s1
                lv = self.lvalue(a, s)
                lets = [] if lv[0] == "var" else lv[4]
                s0 = s if lv[0] == "var" else lv[5]
                l2, v, s1 = self.tr(b, s0)
                x = self.fresh("x")
                if lv[0] == "mem":      # offset was computed in s0; keep it as a let so later state changes do not move it
                    o = self.fresh("o"); lets = lets + ["let %s := %s in" % (o, lv[2])]; lv = ("mem", lv[1], o, lv[3], [], s0)
                l3, s2 = self.store(lv, x, s1)
                return lets + l2 + ["let %s := %s in" % (x, v)] + l3, x, s2
            if op == ",":
                l1, _, s1 = self.tr(a, s); l2, v, s2 = self.tr(b, s1); return l1 + l2, v, s2
            if op in ("&&", "||"):
                l1, v1, s1 = self.tr(a, s); l2, v2, s2 = self.tr(b, s1)
                if l2 or s2 != s1:
                    # the right operand has side effects: it runs only when the left one does not decide
                    r = self.fresh("r"); x = self.fresh("x"); s3 = self.fresh()
                    rhs = "(%s (b2z (negb (%s =? 0)), %s))" % (" ".join(l2), v2, s2)
                    if op == "&&": pair = "(if %s =? 0 then (0, %s) else %s)" % (v1, s1, rhs)
                    else: pair = "(if %s =? 0 then %s else (1, %s))" % (v1, rhs, s1)
                    return l1 + ["let %s := %s in" % (r, pair), "let %s := fst %s in" % (x, r), "let %s := snd %s in" % (s3, r)], x, s3
                if op == "&&": return l1, "(if %s =? 0 then 0 else b2z (negb (%s =? 0)))" % (v1, v2), s1
                return l1, "(if %s =? 0 then b2z (negb (%s =? 0)) else 1)" % (v1, v2), s1
            if is_ptr(qt(a)) and is_ptr(qt(b)):
                l1, b1, o1, s1 = self.ptr(a, s); l2, b2, o2, s2 = self.ptr(b, s1)
                if b1 != b2 and b1 is not None and b2 is not None: raise Unsupported("pointers into different arrays compared")
                if op == "-": return l1 + l2, "(%s - %s)" % (o1, o2), s2
                if op in self.CMP: return l1 + l2, "(b2z (%s %s %s))" % (o1, self.CMP[op], o2), s2
                if op == "!=": return l1 + l2, "(b2z (negb (%s =? %s)))" % (o1, o2), s2
            if is_ptr(t):
                raise Unsupported("pointer arithmetic used as an integer")
            l1, v1, s1 = self.tr(a, s); l2, v2, s2 = self.tr(b, s1)
            lets = l1 + l2
            if l2 and not self.pure_after(v1):
                x = self.fresh("x"); lets = l1 + ["let %s := %s in" % (x, v1)] + l2; v1 = x
            if op in ("+", "-", "*"): return lets, self.wrap(t, "(%s %s %s)" % (v1, op, v2)), s2
            if op in ("&", "|", "^"): return lets, self.wrap(t, "(%s %s %s)" % (self.BIN[op], v1, v2)), s2
            if op == "/": return lets, self.wrap(t, "(Z.quot %s %s)" % (v1, v2)), s2
            if op == "%": return lets, self.wrap(t, "(Z.rem %s %s)" % (v1, v2)), s2
            if op == "<<": return lets, self.wrap(t, "(Z.shiftl %s %s)" % (v1, v2)), s2
            if op == ">>": return lets, self.wrap(t, "(Z.shiftr %s %s)" % (v1, v2)), s2
            if op in self.CMP: return lets, "(b2z (%s %s %s))" % (v1, self.CMP[op], v2), s2
            if op == "!=": return lets, "(b2z (negb (%s =? %s)))" % (v1, v2), s2
            raise Unsupported("binary " + op)
        if k == "CompoundAssignOperator":
            op = e["opcode"][:-1]; a, b = e["inner"]
            if is_ptr(qt(a)):
                l, base, off, s1 = self.ptr(e, s); return l, off, s1
            lv = self.lvalue(a, s)
            lets = [] if lv[0] == "var" else lv[4]
            s0 = s if lv[0] == "var" else lv[5]
            if lv[0] == "mem":
                o = self.fresh("o"); lets = lets + ["let %s := %s in" % (o, lv[2])]; lv = ("mem", lv[1], o, lv[3], [], s0)
            old = self.fresh("x"); lets = lets + ["let %s := %s in" % (old, self.load(lv, s0))]
            l2, v, s1 = self.tr(b, s0)
            ct = e.get("computeResultType", {}).get("desugaredQualType", e.get("computeResultType", {}).get("qualType", qt(a)))
            lt = e.get("computeLHSType", {}).get("desugaredQualType", e.get("computeLHSType", {}).get("qualType", qt(a)))
            oldc = self.wrap(lt, old)
            if op in ("+", "-", "*"): r = "(%s %s %s)" % (oldc, op, v)
            elif op in ("&", "|", "^"): r = "(%s %s %s)" % (self.BIN[op], oldc, v)
            elif op == "<<": r = "(Z.shiftl %s %s)" % (oldc, v)
            elif op == ">>": r = "(Z.shiftr %s %s)" % (oldc, v)
            elif op == "/": r = "(Z.quot %s %s)" % (oldc, v)
            elif op == "%": r = "(Z.rem %s %s)" % (oldc, v)
            else: raise Unsupported("compound " + op)
            new = self.fresh("x")
            lets = lets + l2 + ["let %s := %s in" % (new, self.wrap(qt(a), self.wrap(ct, r)))]
            l3, s2 = self.store(lv, new, s1)
            return lets + l3, new, s2
        if k == "ConditionalOperator":
            c, a, b = e["inner"]
            l0, vc, s0 = self.tr(c, s); l1, v1, s1 = self.tr(a, s0); l2, v2, s2 = self.tr(b, s0)
            if l1 or l2 or s1 != s0 or s2 != s0: raise Unsupported("side effect inside ?:")
            return l0, "(if %s =? 0 then %s else %s)" % (vc, v2, v1), s0
        if k == "ArraySubscriptExpr" or (k == "UnaryOperator" and e.get("opcode") == "*"):
            raise Unsupported("bare memory lvalue")
        if k == "CallExpr":
            return self.call(e, s)
        raise Unsupported("expression " + k)
    def pure_after(self, v):
        return not re.search(r"\bs\d*\b", v) or True

    def callee_name(self, e):
        callee = e["inner"][0]
        while callee.get("kind") in ("ImplicitCastExpr", "ParenExpr"): callee = callee["inner"][0]
        return callee.get("referencedDecl", {}).get("name")
    def addr_local(self, a):
        """&x for an integer local x -> its name, else None"""
        while a.get("kind") in ("ParenExpr", "ImplicitCastExpr", "CStyleCastExpr"): a = a["inner"][0]
        if a.get("kind") == "UnaryOperator" and a.get("opcode") == "&":
            x = a["inner"][0]
            while x.get("kind") == "ParenExpr": x = x["inner"][0]
            if x.get("kind") == "DeclRefExpr" and x["referencedDecl"]["name"] in self.vars: return x["referencedDecl"]["name"]
        return None
    def str_literal(self, a):
        while a.get("kind") in ("ParenExpr", "ImplicitCastExpr", "CStyleCastExpr"): a = a["inner"][0]
        if a.get("kind") == "StringLiteral":
            v = json.loads(a["value"]) if a["value"].startswith('"') else a["value"]
            return "[" + "; ".join([str(b) for b in v.encode("latin1")] + ["0"]) + "]"
        return None
    def builtin(self, nm, e, s):
        args = e["inner"][1:]
        if nm in ("__builtin_mul_overflow", "__builtin_add_overflow"):
            l1, a, s1 = self.tr(args[0], s); l2, b, s2 = self.tr(args[1], s1)
            r = self.addr_local(args[2])
            if r is None: raise Unsupported(nm + " into something that is not a local")
            exact = self.fresh("x"); op = "*" if "mul" in nm else "+"
            lets = l1 + l2 + ["let %s := (%s %s %s) in" % (exact, a, op, b)]
            w = self.wrap(self.vtype[r], exact); s3 = self.fresh()
            lets.append("let %s := set_v_%s %s %s in" % (s3, r, s2, w))
            return lets, "(b2z (negb (%s =? %s)))" % (w, exact), s3
        NORETURN = self.NORETURN
        if nm in NORETURN: raise Unsupported("call of the non-returning %s inside an expression" % nm)
        def io_struct(a):
            while a.get("kind") in ("ImplicitCastExpr", "ParenExpr", "CStyleCastExpr"): a = a["inner"][0]
            if a.get("kind") == "UnaryOperator" and a.get("opcode") == "&":
                x = a["inner"][0]
                while x.get("kind") == "ParenExpr": x = x["inner"][0]
                if x.get("kind") == "DeclRefExpr": return x["referencedDecl"]["name"]
            # a file-scope substdio* (subfdinsmall, subfdoutsmall): the stream's lists are file-scope state under that name
            if a.get("kind") == "DeclRefExpr" and a["referencedDecl"].get("kind") == "VarDecl" and a["referencedDecl"]["name"] not in self.vtype \
               and strip_quals(qt(a)).replace(" ", "") in ("substdio*", "structsubstdio*"):
                return a["referencedDecl"]["name"]
            # a substdio* / struct qmail* parameter: the stream's lists are parameters of run under the parameter's name
            if a.get("kind") == "DeclRefExpr" and a["referencedDecl"]["name"] in self.structs and a["referencedDecl"]["name"] not in getattr(self, "gstructs", []):
                return a["referencedDecl"]["name"]
            raise Unsupported(nm + " on something that is not the address of a file-scope structure")
        def ensure(nm_, arr):
            # the descriptor's input, read position, output and failure flag are file-scope state: further parameters of run,
            # handed on to and taken back from called functions like any other file-scope variable
            if nm_ not in self.vtype:
                self.vtype[nm_] = "char *" if arr else "int"
                if arr: self.arrays.append(nm_); self.base[nm_] = nm_
                else: self.vars.append(nm_)
                if nm_.split("__")[0] not in [p_["name"] for p_ in self.params]: self.globals_ = getattr(self, "globals_", []) + [nm_]
        if nm == "substdio_get":
            # reads the next byte of the descriptor's input (the list in_<ss>); 0 at end of input - or, where the program's read
            # function exits at end of input (option eofdie), the run ends with code -9
            ss = io_struct(args[0]); ensure(ss + "__in", True); ensure(ss + "__pos", False)
            l, n, s1 = self.tr(args[2], s)
            a2 = args[2]
            while a2.get("kind") in ("ImplicitCastExpr", "ParenExpr", "CStyleCastExpr"): a2 = a2["inner"][0]
            if a2.get("kind") != "IntegerLiteral" or a2.get("value") != "1": raise Unsupported("substdio_get of more than one byte")
            loc = self.addr_local(args[1])
            r = self.fresh("x"); s2 = self.fresh()
            avail = "(v_%s__pos %s <? alen (a_%s__in %s))" % (ss, s1, ss, s1)
            if loc is None:
                l3, base, off, s1 = self.ptr(args[1], s1); l = l + l3
                if base is None: raise Unsupported("substdio_get through a null pointer")
                avail = "(v_%s__pos %s <? alen (a_%s__in %s))" % (ss, s1, ss, s1)
                upd = "set_a_%s %s (wr (a_%s %s) %s (wrapu 8 (rd (a_%s__in %s) (v_%s__pos %s))))" % (base, s1, base, s1, off, ss, s1, ss, s1)
            else:
                upd = "set_v_%s %s %s" % (loc, s1, self.wrap(self.vtype[loc], "(rd (a_%s__in %s) (v_%s__pos %s))" % (ss, s1, ss, s1)))
            lets = l + ["let %s := b2z %s in" % (r, avail),
                        "let %s := if %s then set_v_%s__pos (%s) (v_%s__pos %s + 1) else %s in" % (s2, avail, ss, upd, ss, s1, s1)]
            return lets, r, s2
        if nm in getattr(self, "fnptrs", []) and getattr(self, "read_oracle", False):
            # op(fd,buf,len) on the input side (option rd): the k-th call answers from element e of the run parameter g_rd__script_ like the
            # write oracle (e >= 0: at most e + 1 bytes; -1: EINTR; <= -2: error; exhausted: as many as asked for), never more than what is
            # left of the source g_rd__src_ from position g_rd__pos_; the bytes are stored at buf (MiniC.splice), their number is returned (0 = end of file)
            ensure("rd__script", True); ensure("rd__src", True); ensure("rd__n", False); ensure("rd__pos", False)
            if "errno" not in self.vtype: self.vtype["errno"] = "int"; self.vars.append("errno")
            l1, _, s1 = self.tr(args[0], s)
            l2, base, off, s1 = self.ptr(args[1], s1)
            if base is None: raise Unsupported("read into a null pointer")
            l3, n, s1 = self.tr(args[2], s1)
            ev = self.fresh("x"); w = self.fresh("x"); s2 = self.fresh()
            lets = l1 + l2 + l3 + [
                "let %s := if v_rd__n %s <? alen (a_rd__script %s) then rd (a_rd__script %s) (v_rd__n %s) else %s - 1 in" % (ev, s1, s1, s1, s1, n),
                "let %s := if %s <? 0 then -1 else Z.min (Z.min (%s + 1) %s) (alen (a_rd__src %s) - v_rd__pos %s) in" % (w, ev, ev, n, s1, s1),
                "let %s := set_v_errno (set_v_rd__n (set_v_rd__pos (set_a_%s %s (if %s <? 0 then a_%s %s else splice (a_%s %s) %s (firstn (Z.to_nat %s) (skipn (Z.to_nat (v_rd__pos %s)) (a_rd__src %s))))) (if %s <? 0 then v_rd__pos %s else v_rd__pos %s + %s)) (v_rd__n %s + 1)) (if %s <? 0 then (if %s =? -1 then 4 else 5) else v_errno %s) in"
                % (s2, base, s1, w, base, s1, base, s1, off, w, s1, s1, w, s1, s1, w, s1, ev, ev, s1)]
            return lets, w, s2
        if nm in getattr(self, "fnptrs", []):
            # op(fd,buf,len) on the output side: the k-th call answers from the k-th element e of the run parameter g_wr__script_:
            # e >= 0: min(e + 1, len) bytes are accepted (appended to a_wr__out) and that number is returned; e = -1: -1 with errno = EINTR;
            # e <= -2: -1 with errno = EIO; script exhausted: all len bytes are accepted
            ensure("wr__script", True); ensure("wr__out", True); ensure("wr__n", False)
            if "errno" not in self.vtype: self.vtype["errno"] = "int"; self.vars.append("errno")
            l1, _, s1 = self.tr(args[0], s)
            l2, base, off, s1 = self.ptr(args[1], s1)
            if base is None: raise Unsupported("write from a null pointer")
            l3, n, s1 = self.tr(args[2], s1)
            ev = self.fresh("x"); w = self.fresh("x"); s2 = self.fresh()
            lets = l1 + l2 + l3 + [
                "let %s := if v_wr__n %s <? alen (a_wr__script %s) then rd (a_wr__script %s) (v_wr__n %s) else %s - 1 in" % (ev, s1, s1, s1, s1, n),
                "let %s := if %s <? 0 then -1 else Z.min (%s + 1) %s in" % (w, ev, ev, n),
                "let %s := set_v_errno (set_v_wr__n (set_a_wr__out %s (a_wr__out %s ++ firstn (Z.to_nat %s) (skipn (Z.to_nat %s) (a_%s %s)))) (v_wr__n %s + 1)) (if %s <? 0 then (if %s =? -1 then 4 else 5) else v_errno %s) in"
                % (s2, s1, s1, w, off, base, s1, s1, ev, ev, s1)]
            return lets, w, s2
        if nm in ("chdir", "sig_pipeignore", "cleanuppid"):
            # outside the translation: no effect on the translated state, success
            return [], "(0)", s
        if nm == "memcmp":
            # -1 / 0 / 1 (the C function returns some negative / zero / some positive value; only its sign is meaningful)
            def operand(a_, s_):
                lit_ = self.str_literal(a_)
                if lit_ is not None: return [], lit_, s_
                l_, base_, off_, s_ = self.ptr(a_, s_)
                if base_ is None: raise Unsupported("memcmp of a null pointer")
                return l_, "(skipn (Z.to_nat %s) (a_%s %s))" % (off_, base_, s_), s_
            l1, x1, s1 = operand(args[0], s); l2, x2, s1 = operand(args[1], s1); l3, n, s1 = self.tr(args[2], s1)
            return l1 + l2 + l3, "(memcmpz (firstn (Z.to_nat %s) %s) (firstn (Z.to_nat %s) %s))" % (n, x1, n, x2), s1
        if nm == "getln":
            # getln(ss,&sa,&match,sep): the next line of the descriptor's input up to and including sep (match = 1), or what is left
            # (match = 0); read errors are outside the stub
            ss = io_struct(args[0]); ensure(ss + "__in", True); ensure(ss + "__pos", False)
            sa = io_struct(args[1]); ensure(sa + "__s", True); ensure(sa + "__len", False)
            m = self.addr_local(args[2])
            if m is None: raise Unsupported("getln with a match argument that is not the address of a local")
            l, sep, s1 = self.tr(args[3], s)
            ln = self.fresh("x"); s2 = self.fresh()
            lets = l + ["let %s := getln_line (skipn (Z.to_nat (v_%s__pos %s)) (a_%s__in %s)) (wrapu 8 %s) in" % (ln, ss, s1, ss, s1, sep),
                        "let %s := set_v_%s (set_v_%s__pos (set_v_%s__len (set_a_%s__s %s (fst %s)) (alen (fst %s))) (v_%s__pos %s + alen (fst %s))) (b2z (snd %s)) in"
                        % (s2, m, ss, sa, sa, s1, ln, ln, ss, s1, ln, ln)]
            return lets, "(0)", s2
        if nm == "unlink":
            # oracle: the k-th call returns what the k-th element of the run parameter g_unlink__res_ says (0: removed, e > 0: -1 with
            # errno = e; when the list is exhausted: removed); the path (a C string) is appended to the log a_unlink__log with a 0 after it
            ensure("unlink__res", True); ensure("unlink__log", True); ensure("unlink__n", False)
            if "errno" not in self.vtype: self.vtype["errno"] = "int"; self.vars.append("errno")
            l, base, off, s1 = self.ptr(args[0], s)
            if base is None: raise Unsupported("unlink of a null pointer")
            r = self.fresh("x"); s2 = self.fresh()
            lets = l + ["let %s := rd (a_unlink__res %s) (v_unlink__n %s) in" % (r, s1, s1),
                        "let %s := set_v_errno (set_v_unlink__n (set_a_unlink__log %s (a_unlink__log %s ++ cstrz (skipn (Z.to_nat %s) (a_%s %s)) ++ [0])) (v_unlink__n %s + 1)) (if %s =? 0 then v_errno %s else %s) in"
                        % (s2, s1, s1, off, base, s1, s1, r, s1, r)]
            return lets, "(if %s =? 0 then 0 else -1)" % r, s2
        if nm in ("substdio_put", "substdio_bput", "qmail_put", "substdio_putflush"):
            ss = io_struct(args[0]); ensure(ss + "__out", True)
            l2, n, s1 = self.tr(args[2], s)
            lit = self.str_literal(args[1]); loc = self.addr_local(args[1])
            if lit is not None: data = "(firstn (Z.to_nat %s) %s)" % (n, lit)
            elif loc is not None: data = "(firstn (Z.to_nat %s) [wrapu 8 (v_%s %s)])" % (n, loc, s1)
            else:
                l3, base, off, s1 = self.ptr(args[1], s1); l2 = l2 + l3
                data = "(firstn (Z.to_nat %s) (skipn (Z.to_nat %s) (a_%s %s)))" % (n, off, base, s1)
            s2 = self.fresh()
            return l2 + ["let %s := set_a_%s__out %s (a_%s__out %s ++ %s) in" % (s2, ss, s1, ss, s1, data)], "(0)", s2
        if nm in ("substdio_puts", "substdio_bputs", "qmail_puts"):
            # the C string at the argument: the bytes before the first NUL (cstrz); with checked accesses, a string with no NUL inside
            # its array is recorded as an access outside it
            ss = io_struct(args[0]); ensure(ss + "__out", True)
            lit = self.str_literal(args[1]); s1 = s; l2 = []
            if lit is not None: data = "(cstrz %s)" % lit
            else:
                l2, base, off, s1 = self.ptr(args[1], s1)
                if base is None: raise Unsupported(nm + " of a null pointer")
                data = "(cstrz (skipn (Z.to_nat %s) (a_%s %s)))" % (off, base, s1)
                if self.chk:
                    s3 = self.fresh()
                    l2 = l2 + ["let %s := set_v__oob %s (Z.lor (v__oob %s) (b2z (negb (andb (0 <=? %s) (existsb (Z.eqb 0) (skipn (Z.to_nat %s) (a_%s %s))))))) in" % (s3, s1, s1, off, off, base, s1)]
                    s1 = s3
            s2 = self.fresh()
            return l2 + ["let %s := set_a_%s__out %s (a_%s__out %s ++ %s) in" % (s2, ss, s1, ss, s1, data)], "(0)", s2
        if nm in ("stralloc_append", "stralloc_copys"):
            # a file-scope stralloc as the list of its len bytes (allocation is Mem/Stralloc.v's subject): append one byte / set to a string
            sa = io_struct(args[0]); ensure(sa + "__s", True); ensure(sa + "__len", False)
            s1 = s; l2 = []
            if nm == "stralloc_copys":
                lit = self.str_literal(args[1])
                if lit is None: raise Unsupported("stralloc_copys of something that is not a literal")
                data = "(removelast %s)" % lit; s2 = self.fresh()
                return ["let %s := set_v_%s__len (set_a_%s__s %s %s) (alen %s) in" % (s2, sa, sa, s1, data, data)], "(1)", s2
            loc = self.addr_local(args[1])
            if loc is not None: b = "(wrapu 8 (v_%s %s))" % (loc, s1)
            else:
                l2, base, off, s1 = self.ptr(args[1], s1); b = "(wrapu 8 (rd (a_%s %s) %s))" % (base, s1, off)
            s2 = self.fresh()
            return l2 + ["let %s := set_v_%s__len (set_a_%s__s %s (firstn (Z.to_nat (v_%s__len %s)) (a_%s__s %s) ++ [%s])) (wrapu 32 (v_%s__len %s + 1)) in"
                         % (s2, sa, sa, s1, sa, s1, sa, s1, b, sa, s1)], "(1)", s2
        if nm == "ipme_is":
            # oracle: is this address one of the host's own?  The host's addresses are the run parameter g_ipme_ (four elements per
            # address); ipme.c itself (interface enumeration) is outside the translation
            aa = args[0]
            while aa.get("kind") in ("ImplicitCastExpr", "ParenExpr"): aa = aa["inner"][0]
            if aa.get("kind") == "UnaryOperator" and aa.get("opcode") == "&": aa = aa["inner"][0]
            if aa.get("kind") != "DeclRefExpr" or aa["referencedDecl"]["name"] not in self.structs: raise Unsupported("ipme_is of something that is not a structure")
            fld = aa["referencedDecl"]["name"] + "__d"
            if fld not in self.vtype: self.vtype[fld] = "unsigned char[4]"; self.arrays.append(fld); self.base[fld] = fld
            ensure("ipme", True)
            return [], "(b2z (ipme_mem (a_%s %s) (a_ipme %s)))" % (fld, s, s), s
        if nm == "stralloc_cat":
            sa = io_struct(args[0]); sb = io_struct(args[1])
            for x in (sa, sb): ensure(x + "__s", True); ensure(x + "__len", False)
            s2 = self.fresh()
            return ["let %s := set_v_%s__len (set_a_%s__s %s (firstn (Z.to_nat (v_%s__len %s)) (a_%s__s %s) ++ firstn (Z.to_nat (v_%s__len %s)) (a_%s__s %s))) (wrapu 32 (v_%s__len %s + v_%s__len %s)) in"
                    % (s2, sa, sa, s, sa, s, sa, s, sb, s, sb, s, sa, s, sb, s)], "(1)", s2
        if nm == "substdio_flush":
            io_struct(args[0]); return [], "(0)", s
        if nm == "qmail_fail":
            ss = io_struct(args[0]); ensure(ss + "__fail", False); s2 = self.fresh()
            return ["let %s := set_v_%s__fail %s 1 in" % (s2, ss, s)], "(0)", s2
        if nm in ("stralloc_ready", "stralloc_readyplus"):
            # gen_alloc.h: make room for n (or len + n) elements; growth to need + need/8 + 30; failure of the allocator is the
            # run parameter alloc_ok.  (The arithmetic of the real function, incl. its overflow tests, is Mem/Stralloc.v's.)
            sa = args[0]
            while sa.get("kind") in ("ImplicitCastExpr", "ParenExpr"): sa = sa["inner"][0]
            if sa.get("kind") == "UnaryOperator" and sa.get("opcode") == "&":
                # a file-scope stralloc is kept as the list of its len bytes: making room changes nothing and succeeds
                io_struct(args[0]); l, _, s1 = self.tr(args[1], s); return l, "(1)", s1
            if sa.get("kind") != "DeclRefExpr" or sa["referencedDecl"]["name"] not in self.structs: raise Unsupported(nm + " on something that is not a struct parameter")
            p = sa["referencedDecl"]["name"]
            for f, t in (("s", "char *"), ("len", "unsigned int"), ("a", "unsigned int")):
                fn_ = "%s__%s" % (p, f)
                if fn_ not in self.vtype:
                    self.vtype[fn_] = t
                    if f == "s": self.arrays.append(fn_); self.base[fn_] = fn_
                    else: self.vars.append(fn_)
            if "alloc_ok" not in self.vtype: self.vtype["alloc_ok"] = "int"; self.vars.append("alloc_ok"); self.extra_params = getattr(self, "extra_params", []) + ["alloc_ok"]
            l, n, s1 = self.tr(args[1], s)
            need = self.fresh("x"); s2 = self.fresh(); ok = self.fresh("x")
            needv = n if nm == "stralloc_ready" else "(v_%s__len %s + %s)" % (p, s1, n)
            lets = l + ["let %s := %s in" % (need, needv),
                        "let %s := b2z (orb (%s <=? v_%s__a %s) (negb (v_alloc_ok %s =? 0))) in" % (ok, need, p, s1, s1),
                        "let %s := if orb (%s <=? v_%s__a %s) (v_alloc_ok %s =? 0) then %s else set_a_%s__s (set_v_%s__a %s (%s + Z.shiftr %s 3 + 30)) (pad (a_%s__s %s) (%s + Z.shiftr %s 3 + 30)) in"
                        % (s2, need, p, s1, s1, s1, p, p, s1, need, need, p, s1, need, need)]
            return lets, ok, s2
        raise Unsupported("call of " + str(nm))
    def call(self, e, s):
        nm = self.callee_name(e)
        if nm not in self.known: return self.builtin(nm, e, s)
        g = self.known[nm]
        lets = []; args = []; arr_args = []
        for a, p in zip(e["inner"][1:], g.params):
            if p["name"] in getattr(g, "fnptrs", []): continue
            if p["name"] in g.structs:
                aa = a
                while aa.get("kind") in ("ImplicitCastExpr", "ParenExpr"): aa = aa["inner"][0]
                if aa.get("kind") == "UnaryOperator" and aa.get("opcode") == "&":
                    aa = aa["inner"][0]
                    while aa.get("kind") == "ParenExpr": aa = aa["inner"][0]
                    if aa.get("kind") != "DeclRefExpr" or aa["referencedDecl"]["name"] not in getattr(self, "lstructs", []): raise Unsupported("address of something that is not a local structure as a struct argument")
                if aa.get("kind") != "DeclRefExpr" or aa["referencedDecl"]["name"] not in self.structs: raise Unsupported("struct argument that is not a struct parameter")
                mine = aa["referencedDecl"]["name"]
                for f in g.arrays + g.vars:
                    if not f.startswith(p["name"] + "__"): continue
                    fld = f[len(p["name"]) + 2:]; my = "%s__%s" % (mine, fld)
                    if my not in self.vtype:
                        self.vtype[my] = g.vtype[f]
                        if f in g.arrays: self.arrays.append(my); self.base[my] = my
                        else: self.vars.append(my)
                    if f in g.arrays: args.append("(a_%s %s)" % (my, s)); arr_args.append((f, my))
                    else: args.append("(v_%s %s)" % (my, s)); arr_args.append((f, "=" + my))
                continue
            loc = self.addr_local(a) if is_ptr(qt(p)) else None
            lit = self.str_literal(a) if is_ptr(qt(p)) else None
            if loc is not None:
                # the cell holds the object representation: for a signed (or plain char) local its value reduced to the unsigned range
                it_ = int_type(self.vtype[loc])
                cell = "(wrapu %d (v_%s %s))" % (it_[0], loc, s) if it_ and it_[1] else "(v_%s %s)" % (loc, s)
                args.append("[%s]" % cell); args.append("0"); arr_args.append((p["name"], "&" + loc)); continue
            if lit is not None:
                args.append(lit); args.append("0"); continue
            if is_ptr(qt(p)):
                l, base, off, s = self.ptr(a, s); lets += l
                if base is None: args.append("[]"); args.append(off)          # a null pointer argument
                else: args.append("(a_%s %s)" % (base, s)); args.append(off); arr_args.append((p["name"], base))
            else:
                l, v, s = self.tr(a, s); lets += l; args.append(v)
        for x in getattr(g, "extra_params", []):
            if x not in self.vtype: self.vtype[x] = "int"; self.vars.append(x); self.extra_params = getattr(self, "extra_params", []) + [x]
            args.append("(v_%s %s)" % (x, s))
        for x in getattr(g, "globals_", []):
            if x not in self.vtype:
                self.vtype[x] = g.vtype[x]; self.globals_ = getattr(self, "globals_", []) + [x]
                if x in g.arrays: self.arrays.append(x); self.base[x] = x
                else: self.vars.append(x)
            if x in g.arrays: args.append("(a_%s %s)" % (x, s)); arr_args.append((x, x))
            else: args.append("(v_%s %s)" % (x, s)); arr_args.append((x, "=" + x))
        r = self.fresh("r"); s1 = s
        lets.append("let %s := %s.run fuel0 %s in" % (r, g.name, " ".join(args)))
        if getattr(g, "may_exit", False):
            # the callee can end the program (exit codes are negative; its ordinary results are not): the caller ends with the same code
            it = int_type(g.ret)
            if g.ret != "void" and (it is None or it[1]): raise Unsupported("call of %s, which may exit and returns a signed value" % nm)
            self.may_exit = True
            self.pending_exit = getattr(self, "pending_exit", []) + ["(match %s with Some (v, _) => v | None => 0 end)" % r]
        # result: option (Z * st); written arrays are copied back
        val = "(match %s with Some (v, _) => v | None => 0 end)" % r
        # two pointer arguments into ONE array of the caller (byte_copyr(s->x + q,r,s->x)): the callee sees two arrays; only the one it
        # writes is copied back (a callee that writes both is refused).  The callee reads the other one as it was before the call:
        # right for code that is overlap-correct (the comparison with the compiled function is what notices when it is not)
        bases = [b for _, b in arr_args if not b.startswith(("=", "&"))]
        if len(set(bases)) < len(bases):
            gtext = "\n".join(l_ for l_ in getattr(g, "text", "").split("\n") if not l_.startswith("Definition set_"))
            keep = []
            for pn, base in arr_args:
                if base.startswith(("=", "&")) or bases.count(base) == 1 or ("set_a_%s " % pn) in gtext: keep.append((pn, base))
            kb = [b for _, b in keep if not b.startswith(("=", "&"))]
            if len(set(kb)) < len(kb): raise Unsupported("call of %s writes through two pointers into one array" % nm)
            arr_args = keep
        for pn, base in arr_args:
            s2 = self.fresh()
            if base.startswith("="):
                lets.append("let %s := match %s with Some (_, t) => set_v_%s %s (%s.v_%s t) | None => %s end in" % (s2, r, base[1:], s1, g.name, pn, s1))
            elif base.startswith("&"):
                it_ = int_type(self.vtype[base[1:]])
                back = "(wraps %d (rd (%s.a_%s t) 0))" % (it_[0], g.name, pn) if it_ and it_[1] else "(rd (%s.a_%s t) 0)" % (g.name, pn)
                lets.append("let %s := match %s with Some (_, t) => set_v_%s %s %s | None => %s end in" % (s2, r, base[1:], s1, back, s1))
            else:
                lets.append("let %s := match %s with Some (_, t) => set_a_%s %s (%s.a_%s t) | None => %s end in" % (s2, r, base, s1, g.name, pn, s1))
            s1 = s2
        if self.chk and getattr(g, "chk", False):
            s2 = self.fresh()
            lets.append("let %s := match %s with Some (_, t) => set_v__oob %s (Z.lor (v__oob %s) (%s.v__oob t)) | None => %s end in" % (s2, r, s1, s1, g.name, s1))
            s1 = s2
        return lets, val, s1

    # ---- statements: term of type outcome st, given the current state name
    def seq(self, stmts, s):
        if not stmts: return "ONormal %s" % s
        first, rest = stmts[0], stmts[1:]
        k = first.get("kind")
        if k == "CallExpr" and self.callee_name(first) in self.NORETURN:
            self.may_exit = True
            return "OReturn (%d) %s" % (self.NORETURN[self.callee_name(first)], s)
        if k == "CallExpr" and self.callee_name(first) == "substdio_get" and getattr(self, "eofdie", False):
            # the program's read function exits at end of input: the run ends with code -9
            lets, r, s1 = self.tr(first, s)
            self.may_exit = True
            return " ".join(lets) + " (if %s =? 0 then OReturn (-9) %s else %s)" % (r, s1, self.seq(rest, s1))
        if k in ("BinaryOperator", "CompoundAssignOperator", "UnaryOperator", "CallExpr", "ParenExpr", "ImplicitCastExpr", "CStyleCastExpr"):
            self.pending_exit = []
            if is_ptr(qt(first)) and k != "CallExpr":
                lets, _, _, s1 = self.ptr(first, s)
            else:
                lets, _, s1 = self.tr(first, s)
            pend = self.pending_exit; self.pending_exit = []
            tail = self.seq(rest, s1)
            for v in reversed(pend):
                tail = "(if %s <? 0 then OReturn %s %s else %s)" % (v, v, s1, tail)
            return " ".join(lets) + " " + tail
        if k == "DeclStmt":
            lets = []; s1 = s
            for d in first.get("inner", []):
                if d.get("kind") != "VarDecl": continue
                init = [c for c in d.get("inner", []) if c.get("kind") not in ("BuiltinType",)]
                if init:
                    if is_ptr(qt(d)):
                        l, base, off, s1 = self.ptr(init[0], s1); self.bind_base(d["name"], base)
                        s2 = self.fresh(); lets += l + ["let %s := set_v_%s %s %s in" % (s2, d["name"], s1, off)]; s1 = s2
                    elif d["name"] in self.arrays:
                        raise Unsupported("array initialiser")
                    else:
                        l, v, s1 = self.tr(init[0], s1)
                        s2 = self.fresh(); lets += l + ["let %s := set_v_%s %s %s in" % (s2, d["name"], s1, v)]; s1 = s2
            return " ".join(lets) + " " + self.seq(rest, s1)
        if k == "NullStmt": return self.seq(rest, s)
        if k == "CompoundStmt":
            inner = self.seq(first.get("inner", []), s)
        elif k == "ReturnStmt":
            if first.get("inner"):
                if is_ptr(qt(first["inner"][0])):
                    lets, _, v, s1 = self.ptr(first["inner"][0], s)
                else:
                    lets, v, s1 = self.tr(first["inner"][0], s)
                return " ".join(lets) + " OReturn %s %s" % (v, s1)
            return "OReturn 0 %s" % s
        elif k == "BreakStmt": return "OBreak %s" % s
        elif k == "ContinueStmt": return "OContinue %s" % s
        elif k == "IfStmt":
            parts = first["inner"]; c = parts[0]; th = parts[1]; el = parts[2] if len(parts) > 2 else None
            lets, vc, s1 = self.tr_cond(c, s)
            inner = " ".join(lets) + " (if %s =? 0 then %s else %s)" % (vc, self.seq([el], s1) if el else "ONormal %s" % s1, self.seq([th], s1))
        elif k in ("WhileStmt", "ForStmt", "DoStmt"):
            inner = self.loop(first, s)
        elif k == "SwitchStmt":
            inner = self.switch(first, s)
        else:
            raise Unsupported("statement " + k)
        if not rest: return "(" + inner + ")"
        s2 = self.fresh()
        return "(obind (%s) (fun %s => %s))" % (inner, s2, self.seq(rest, s2))
    def switch(self, n, s):
        parts = [c for c in n["inner"] if c.get("kind")]
        cond, body = parts[0], parts[-1]
        lets, v, s1 = self.tr(cond, s)
        x = self.fresh("x"); lets = lets + ["let %s := %s in" % (x, v)]
        items = body.get("inner", []) if body.get("kind") == "CompoundStmt" else [body]
        groups = []          # (labels or None for default, statements)
        for it in items:
            if it.get("kind") in ("CaseStmt", "DefaultStmt"):
                labels = []; default = False; cur = it
                while cur.get("kind") in ("CaseStmt", "DefaultStmt"):
                    if cur["kind"] == "DefaultStmt": default = True; cur = cur["inner"][0]
                    else:
                        l, lv, _ = self.tr(cur["inner"][0], s1)
                        if l: raise Unsupported("case label with side effects")
                        labels.append(lv); cur = cur["inner"][-1]
                groups.append([labels, default, [cur]])
            else:
                if not groups: raise Unsupported("statement before the first case label")
                groups[-1][2].append(it)
        def terminated(st):
            return bool(st) and st[-1].get("kind") in ("BreakStmt", "ReturnStmt", "ContinueStmt")
        for i in range(len(groups) - 2, -1, -1):      # fall-through: a group that does not end in break/return runs on into the next
            if not terminated(groups[i][2]): groups[i][2] = groups[i][2] + groups[i + 1][2]
        chain = "ONormal %s" % s1
        dflt = [g for g in groups if g[1]]
        if dflt: chain = self.seq(dflt[0][2], s1)
        for labels, default, st in reversed(groups):
            if not labels: continue
            test = " || ".join("(%s =? %s)" % (x, l) for l in labels)
            chain = "(if (%s)%%bool then %s else %s)" % (test, self.seq(st, s1), chain)
        return " ".join(lets) + " match (%s) with OBreak t => ONormal t | o => o end" % chain
    def tr_cond(self, c, s):
        self.pending_exit = []
        r = self.tr_cond0(c, s)
        if getattr(self, "pending_exit", []): raise Unsupported("call of a function that may exit inside a condition")
        return r
    def tr_cond0(self, c, s):
        if is_ptr(qt(c)):
            l, _, off, s1 = self.ptr(c, s)
            return l, "(b2z (negb (%s =? -1)))" % off, s1
        return self.tr(c, s)
    def loop(self, n, s):
        k = n["kind"]; self.nloop += 1; name = "loop%d" % self.nloop
        if k == "WhileStmt":
            cond, body = n["inner"][0], n["inner"][1]; init = None; inc = None
        elif k == "DoStmt":
            body, cond = n["inner"][0], n["inner"][1]; init = None; inc = None
        else:
            init, _, cond, inc, body = (n["inner"] + [None] * 5)[:5]
        pre = ""
        s_in = s
        if init and init.get("kind"):
            # the initialiser runs once, before the loop
            tmp = self.seq([init], s)
            s_in = self.fresh()
            pre = "obind (%s) (fun %s => " % (tmp, s_in)
        st = "s"
        if cond and cond.get("kind"):
            lets, vc, s1 = self.tr_cond(cond, st)
        else:
            lets, vc, s1 = [], "1", st
        b = self.seq([body], s1 if k != "DoStmt" else st)
        s2 = self.fresh()
        if inc and inc.get("kind"):
            if is_ptr(qt(inc)): li, _, _, s3 = self.ptr(inc, s2)
            else: li, _, s3 = self.tr(inc, s2)
            after = " ".join(li) + " %s fuel0 f %s" % (name, s3)
        else:
            after = "%s fuel0 f %s" % (name, s2)
        if k == "DoStmt":
            lets2, vc2, s4 = self.tr_cond(cond, s2)
            txt = ("match (%s) with\n      | ONormal %s | OContinue %s => %s if %s =? 0 then ONormal %s else %s fuel0 f %s\n      | OBreak t => ONormal t\n      | o => o\n      end"
                   % (b, s2, s2, " ".join(lets2), vc2, s4, name, s4))
        else:
            txt = ("%s if %s =? 0 then ONormal %s else\n      match (%s) with\n      | ONormal %s | OContinue %s => %s\n      | OBreak t => ONormal t\n      | o => o\n      end"
                   % (" ".join(lets), vc, s1, b, s2, s2, after))
        self.loops.append("Fixpoint %s (fuel0 fuel : nat) (s : st) : outcome st :=\n  match fuel with\n  | O => OStuck\n  | S f =>\n      %s\n  end." % (name, txt))
        call = "%s fuel0 fuel0 %s" % (name, s_in)
        return (pre + call + ")") if pre else call

    # ---- whole function
    def emit(self):
        body = self.seq(self.body.get("inner", []), "s0")
        fields = ["v_%s : Z" % v for v in self.vars] + ["a_%s : list Z" % a for a in self.arrays]
        out = ["Module %s." % self.name, "Record st := { %s }." % "; ".join(fields)]
        allf = ["v_" + v for v in self.vars] + ["a_" + a for a in self.arrays]
        for f in allf:
            out.append("Definition set_%s (s : st) (x : %s) : st := {| %s |}." % (f, "Z" if f.startswith("v_") else "list Z", "; ".join("%s := %s" % (g, "x" if g == f else "%s s" % g) for g in allf)))
        out += self.loops
        out.append("Definition body (fuel0 : nat) (s0 : st) : outcome st :=\n  %s." % body)
        pnames = []; inits = {}
        for p in self.params:
            n = p["name"]
            if n in getattr(self, "fnptrs", []): continue
            if n in self.structs:
                for f in self.arrays + self.vars:
                    if f.startswith(n + "__"):
                        if f in self.arrays: pnames.append("(a_%s_ : list Z)" % f); inits["a_" + f] = "a_%s_" % f
                        else: pnames.append("(%s_ : Z)" % f); inits["v_" + f] = f + "_"
            elif is_ptr(qt(p)):
                pnames += ["(a_%s_ : list Z)" % n, "(%s_ : Z)" % n]; inits["v_" + n] = n + "_"; inits["a_" + n] = "a_%s_" % n
            else:
                pnames.append("(%s_ : Z)" % n); inits["v_" + n] = n + "_"
        for x in getattr(self, "extra_params", []):
            pnames.append("(%s_ : Z)" % x); inits["v_" + x] = x + "_"
        for x in getattr(self, "globals_", []):
            if x in self.arrays: pnames.append("(g_%s_ : list Z)" % x); inits["a_" + x] = "g_%s_" % x
            else: pnames.append("(g_%s_ : Z)" % x); inits["v_" + x] = "g_%s_" % x
        for a, l in getattr(self, "lits", {}).items(): inits["a_" + a] = l
        for a in self.arrays:
            m = re.match(r".*\[(\d+)\]$", strip_quals(self.vtype.get(a, "")))
            if m and "a_" + a not in inits: inits["a_" + a] = "(repeat 0 %s)" % m.group(1)
        init = "; ".join("%s := %s" % (f, inits.get(f, "0" if f.startswith("v_") else "[]")) for f in allf)
        out.append("Definition run (fuel0 : nat) %s : option (Z * st) :=\n  match body fuel0 {| %s |} with\n  | OReturn v s => Some (v, s)\n  | ONormal s => Some (0, s)\n  | _ => None\n  end." % (" ".join(pnames), init))
        out.append("End %s." % self.name)
        return "\n".join(out)

def main():
    srcdir, outv = sys.argv[1], sys.argv[2]
    known = {}; chunks = []; errors = []
    for spec in sys.argv[3:]:
        parts = spec.split(":"); cfile, fname = parts[0], parts[1]; alias = parts[2] if len(parts) > 2 and parts[2] else "C_" + fname
        chk = len(parts) > 3 and "chk" in parts[3].split(",")
        eofdie = len(parts) > 3 and "eofdie" in parts[3].split(",")
        Fn.read_oracle = len(parts) > 3 and "rd" in parts[3].split(",")
        try:
            kn = {k: v for k, v in known.items() if getattr(v, "chk", False) == chk}
            Fn.eofdie = eofdie
            f = Fn(clang_function(srcdir, cfile, fname), alias, {k.split("#")[0]: v for k, v in kn.items()}, chk=chk)
            f.text = f.emit()
            chunks.append("(* %s: %s()%s *)\n" % (cfile, fname, " with every array access checked (v__oob)" if chk else "") + f.text); known[fname + ("#chk" if chk else "")] = f
        except Unsupported as e:
            errors.append("%s:%s: %s" % (cfile, fname, e))
            chunks.append("(* %s: %s() NOT TRANSLATED: %s *)" % (cfile, fname, str(e).replace("*)", "* )")))
    hdr = ("(* GENERATED on every run by tools/c2gallina.py from the current sources - do not edit *)\n"
           "From Coq Require Import ZArith List.\nFrom NQ Require Import Base.MiniC.\nImport ListNotations.\nLocal Open Scope Z_scope.\n")
    txt = hdr + "\n\n".join(chunks) + "\n"
    os.makedirs(os.path.dirname(outv), exist_ok=True)
    if not os.path.exists(outv) or open(outv).read() != txt:
        open(outv, "w").write(txt)
    for e in errors: print("c2gallina: " + e)
    print("c2gallina: %d functions translated, %d refused -> %s" % (len(known), len(errors), outv))
    return 1 if errors else 0

if __name__ == "__main__":
    sys.exit(main())
