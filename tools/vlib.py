"""Shared plumbing for the /verif checks.

Every check (checks/Cxx.py) uses this module to
  * copy /repo's current working tree to a scratch directory and build it there,
  * recompile the property's Coq theorems (and capture Print Assumptions),
  * build the extracted OCaml model driver and the C harnesses,
  * report violations / known findings and write the evidence file.
Nothing here is specific to one property.
"""
import atexit, hashlib, json, os, random, re, shutil, signal, subprocess, sys, time

VERIF = os.path.dirname(os.path.dirname(os.path.abspath(__file__)))
REPO = os.environ.get("VERIF_REPO", "/repo")
COQ = os.path.join(VERIF, "coq")
BUILD = os.path.join(VERIF, "build")
GUARD = "NOTQMAIL_VERIF"

_T0 = time.time()
_scratch = None


def log(*a):
    print(*a, file=sys.stderr, flush=True)


def scratch():
    """Per-process scratch directory outside /repo and /verif, removed at exit."""
    global _scratch
    if _scratch is None:
        base = os.environ.get("VERIF_SCRATCH_BASE", "/var/tmp")
        _scratch = os.path.join(base, "nqverif.%d" % os.getpid())
        shutil.rmtree(_scratch, ignore_errors=True)
        os.makedirs(_scratch)
        atexit.register(_cleanup)
        for s in (signal.SIGTERM, signal.SIGINT, signal.SIGHUP):
            signal.signal(s, _sig)
    return _scratch


def _cleanup():
    global _scratch
    if _scratch and os.path.isdir(_scratch) and not os.environ.get("VERIF_KEEP"):
        subprocess.call(["chmod", "-R", "u+rwx", _scratch], stderr=subprocess.DEVNULL)
        shutil.rmtree(_scratch, ignore_errors=True)
    _scratch = None


def _sig(n, f):
    _cleanup()
    os._exit(128 + n)


def run(cmd, **kw):
    kw.setdefault("stdout", subprocess.PIPE)
    kw.setdefault("stderr", subprocess.STDOUT)
    kw.setdefault("timeout", 900)
    return subprocess.run(cmd, **kw)


# ----------------------------------------------------------------------------------------
# building the repository copy
# ----------------------------------------------------------------------------------------
class RepoBuild:
    """A scratch copy of /repo's working tree, built with -DNOTQMAIL_VERIF.

    conf-qmail is pointed at <dir>/home so that everything the programs touch lives in
    the scratch directory.  `sanitize=True` builds with ASan+UBSan.
    """

    def __init__(self, name="repo", sanitize=False, targets=("it",), home=None, conf=None):
        self.dir = os.path.join(scratch(), name)
        self.home = home or os.path.join(scratch(), name + ".home")
        os.makedirs(self.dir)
        files = subprocess.run(["git", "-C", REPO, "ls-files", "-c", "-o", "--exclude-standard"],
                               stdout=subprocess.PIPE, check=True).stdout.decode().split("\n")
        files = [f for f in files if f and os.path.isfile(os.path.join(REPO, f))
                 and not re.match(r"tests/(unittest_[a-z-]+|.*-without-main\.c)$", f)]
        p = subprocess.Popen(["tar", "-C", REPO, "-c", "-T", "-"], stdin=subprocess.PIPE,
                             stdout=subprocess.PIPE)
        q = subprocess.Popen(["tar", "-C", self.dir, "-x"], stdin=p.stdout)
        p.stdin.write("\n".join(files).encode())
        p.stdin.close()
        q.wait()
        p.wait()
        self._set_first_line("conf-qmail", self.home)
        for cf, val in (conf or {}).items():          # e.g. {"conf-spawn": "255"}: a build-time configuration of the repo
            self._set_first_line(cf, val)
        cc = open(os.path.join(self.dir, "conf-cc")).read().split("\n")
        ld = open(os.path.join(self.dir, "conf-ld")).read().split("\n")
        if sanitize:
            cc[0] = "cc -O1 -g -fsanitize=address,undefined -fno-sanitize-recover=all -fno-omit-frame-pointer"
            ld[0] = "cc -fsanitize=address,undefined"
        cc[0] += " -D" + GUARD
        open(os.path.join(self.dir, "conf-cc"), "w").write("\n".join(cc))
        open(os.path.join(self.dir, "conf-ld"), "w").write("\n".join(ld))
        env = dict(os.environ, ASAN_OPTIONS="detect_leaks=0")
        r = run(["make", "-j16"] + list(targets), cwd=self.dir, env=env)
        self.ok = r.returncode == 0
        self.log = r.stdout.decode(errors="replace")
        self.sanitize = sanitize

    def _set_first_line(self, f, v):
        p = os.path.join(self.dir, f)
        lines = open(p).read().split("\n")
        lines[0] = v
        open(p, "w").write("\n".join(lines))

    def path(self, *a):
        return os.path.join(self.dir, *a)

    def compile_harness(self, src, out, objs=(), extra_cflags=(), libs=()):
        """cc -I<repo copy> harness.c <objs/libs from the copy> -o out"""
        cc = open(self.path("conf-cc")).read().split("\n")[0].split()
        ldf = ["-fsanitize=address,undefined"] if self.sanitize else []
        cmd = cc + ["-I" + self.dir, "-w"] + list(extra_cflags) + [src] + \
            [self.path(o) for o in objs] + ldf + list(libs) + ["-o", out]
        r = run(cmd, cwd=self.dir)
        if r.returncode != 0:
            raise HarnessBuildError(r.stdout.decode(errors="replace"))
        return out

    def link_deps(self, prog):
        """Objects and libraries the repo's Makefile links into <prog> (without prog.o)."""
        mk = open(self.path("Makefile")).read()
        m = re.search(r"^\t\./load %s ((?:.*\\\n)*.*)$" % re.escape(prog), mk, re.M)
        if not m:
            raise HarnessBuildError("no link rule for " + prog)
        txt = m.group(1).replace("\\\n", " ")
        objs, libs = [], []
        for lib in re.findall(r"`cat\s+([a-z.]+)`", txt):
            libs += open(self.path(lib)).read().split()
        txt = re.sub(r"`[^`]*`", " ", txt)
        for w in txt.split():
            objs.append(w)
        return objs, libs

    def harness(self, name, prog, extra_objs=(), cflags=(), exclude=()):
        """Compile /verif/harness/<name>.c against the link closure of <prog>."""
        objs, libs = self.link_deps(prog)
        objs = [o for o in objs if o not in exclude]
        out = os.path.join(scratch(), name + (".san" if self.sanitize else ""))
        return self.compile_harness(os.path.join(VERIF, "harness", name + ".c"), out,
                                    objs=list(objs) + list(extra_objs), libs=libs, extra_cflags=cflags)

    def make_home(self, split=23, users=True):
        """Create <home>/{bin,control,queue/...,users,alias} as hier.c would."""
        h = self.home
        for d in ["bin", "control", "users", "alias", "queue", "queue/pid", "queue/intd",
                  "queue/todo", "queue/bounce", "queue/lock", "queue/mess", "queue/info",
                  "queue/local", "queue/remote"]:
            os.makedirs(os.path.join(h, d), exist_ok=True)
        for d in ["mess", "info", "local", "remote"]:
            for i in range(split):
                os.makedirs(os.path.join(h, "queue", d, str(i)), exist_ok=True)
        lk = os.path.join(h, "queue/lock")
        for f in ["sendmutex", "tcpto"]:
            open(os.path.join(lk, f), "ab").close()
        if not os.path.exists(os.path.join(lk, "trigger")):
            os.mkfifo(os.path.join(lk, "trigger"), 0o622)
        for b in os.listdir(self.dir):
            p = self.path(b)
            if b.startswith("qmail-") and os.access(p, os.X_OK) and os.path.isfile(p) \
                    and "." not in b:
                dst = os.path.join(h, "bin", b)
                if not os.path.exists(dst):
                    os.symlink(p, dst)
        return h


QMAIL_USERS = {"alias": 7790, "qmaild": 7791, "qmaill": 7792, "root": 0, "qmailp": 7793, "qmailq": 7794,
               "qmailr": 7795, "qmails": 7796}
QMAIL_GROUPS = {"qmail": 2107, "nofiles": 2108}
SHIM = os.path.join(BUILD, "sysshim.so")


def shim_env(home, log=None, extra=None, users=None):
    """environment that runs a program under the interposer with the qmail accounts served by it"""
    pw = os.path.join(scratch(), "passwd.%d" % (len(os.listdir(scratch()))))
    with open(pw, "w") as f:
        for n, u in QMAIL_USERS.items():
            f.write("%s:%d:%d:%s\n" % (n, u, QMAIL_GROUPS["qmail" if n in ("qmailq", "qmailr", "qmails") else "nofiles"] if n != "root" else 0,
                                       os.path.join(home, "alias") if n == "alias" else home))
        for line in (users or []):
            f.write(line + "\n")
    gr = pw + ".group"
    with open(gr, "w") as f:
        for n, g in QMAIL_GROUPS.items():
            f.write("%s:%d\n" % (n, g))
    if not os.path.exists(SHIM) or os.path.getmtime(SHIM) < os.path.getmtime(os.path.join(VERIF, "shim", "sysshim.c")):
        os.makedirs(BUILD, exist_ok=True)
        subprocess.check_call(["gcc", "-shared", "-fPIC", "-O1", "-o", SHIM, os.path.join(VERIF, "shim", "sysshim.c"), "-ldl"])
    env = dict(os.environ, LD_PRELOAD=SHIM, SYSSHIM_PASSWD=pw, SYSSHIM_GROUP=gr)
    if log:
        env["SYSSHIM_LOG"] = log
    if extra:
        env.update(extra)
    return env


class HarnessBuildError(Exception):
    pass


# ----------------------------------------------------------------------------------------
# Coq
# ----------------------------------------------------------------------------------------
FORBIDDEN = re.compile(
    r"\b(Admitted|admit|Axiom|Axioms|Parameter|Parameters|Conjecture|Conjectures|"
    r"Admit Obligations|bypass_check|native_compute)\b|Unset\s+Guard|Unset\s+Positivity|"
    r"Unset\s+Universe|type-in-type|impredicative-set")


def coq_forbidden_scan():
    """Returns a list of 'file:line: text' for forbidden tokens in our .v sources."""
    bad = []
    for root, _, fs in os.walk(COQ):
        for f in fs:
            if not f.endswith(".v"):
                continue
            p = os.path.join(root, f)
            txt = open(p).read()
            # strip comments (non-nested is enough for our sources; nested handled crudely)
            depth, out, i = 0, [], 0
            while i < len(txt):
                if txt.startswith("(*", i):
                    depth += 1; i += 2; continue
                if txt.startswith("*)", i) and depth:
                    depth -= 1; i += 2; continue
                out.append(txt[i] if depth == 0 or txt[i] == "\n" else " ")
                i += 1
            for n, line in enumerate("".join(out).split("\n"), 1):
                if FORBIDDEN.search(line):
                    bad.append("%s:%d: %s" % (os.path.relpath(p, VERIF), n, line.strip()))
                if re.match(r"\s*(Variable|Variables|Hypothesis|Hypotheses|Context)\b", line):
                    # allowed only inside a Section; checked crudely: file must open a section earlier
                    pre = "".join(out).split("\n")[:n]
                    opened = sum(1 for l in pre if re.match(r"\s*Section\b", l))
                    closed = sum(1 for l in pre if re.match(r"\s*End\b", l))
                    mods = sum(1 for l in pre if re.match(r"\s*Module\b", l))
                    if opened - max(0, closed - mods) <= 0:
                        bad.append("%s:%d: %s (outside section)" % (os.path.relpath(p, VERIF), n, line.strip()))
    return bad


def coq_makefile():
    if not os.path.exists(os.path.join(COQ, "Makefile")) or \
            os.path.getmtime(os.path.join(COQ, "Makefile")) < os.path.getmtime(os.path.join(COQ, "_CoqProject")):
        r = run(["coq_makefile", "-f", "_CoqProject", "-o", "Makefile"], cwd=COQ)
        if r.returncode:
            raise RuntimeError(r.stdout.decode())


# C leaf functions turned into Gallina on every run (tools/c2gallina.py -> coq/gen/CGen.v); coq/Tie/Gen_*.v prove the
# hand-written models equal to them
CGEN_FUNCTIONS = ["constmap.c:hash:C_cm_hash", "cdb_hash.c:cdb_hash", "cdb_unpack.c:cdb_unpack", "case_diffb.c:case_diffb",
                  "cdbmake_hash.c:cdbmake_hashadd", "cdbmake_pack.c:cdbmake_pack", "byte_chr.c:byte_chr", "byte_rchr.c:byte_rchr",
                  "byte_copy.c:byte_copy", "byte_cr.c:byte_copyr", "byte_zero.c:byte_zero", "str_chr.c:str_chr", "str_rchr.c:str_rchr",
                  "str_start.c:str_start", "case_lowerb.c:case_lowerb", "case_diffs.c:case_diffs", "case_starts.c:case_starts",
                  "scan_ulong.c:scan_ulong", "scan_8long.c:scan_8long", "fmt_ulong.c:fmt_ulong", "fmt_uint.c:fmt_uint",
                  "fmt_uint0.c:fmt_uint0", "fmt_str.c:fmt_str", "qmail-send.c:squareroot",
                  "ip.c:ip_scan", "ip.c:ip_scanbracket", "ip.c:ip_fmt", "quote.c:doit:C_quote_doit",
                  "received.c:issafe:C_issafe", "token822.c:atomcheck", "dns.c:getshort", "hfield.c:hmatch",
                  "qmail-send.c:nextretry", "control.c:striptrailingwhitespace", "token822.c:needspace", "token822.c:atomok",
                  # the same code with every array access checked (field v__oob): memory-safety statements are about these
                  "scan_ulong.c:scan_ulong:K_scan_ulong:chk", "ip.c:ip_scan:K_ip_scan:chk", "ip.c:ip_scanbracket:K_ip_scanbracket:chk",
                  "quote.c:doit:K_quote_doit:chk", "byte_chr.c:byte_chr:K_byte_chr:chk", "str_chr.c:str_chr:K_str_chr:chk",
                  "case_diffb.c:case_diffb:K_case_diffb:chk", "fmt_ulong.c:fmt_ulong:K_fmt_ulong:chk", "fmt_str.c:fmt_str:K_fmt_str:chk",
                  "byte_copy.c:byte_copy:K_byte_copy:chk", "cdb_unpack.c:cdb_unpack:K_cdb_unpack:chk", "constmap.c:hash:K_cm_hash:chk",
                  "quote.c:quote_need", "quote.c:quote_need:K_quote_need:chk", "hfield.c:hmatch:K_hmatch:chk", "token822.c:atomcheck:K_atomcheck:chk",
                  "control.c:striptrailingwhitespace:K_striptrailingwhitespace:chk", "case_lowerb.c:case_lowerb:K_case_lowerb:chk",
                  "byte_rchr.c:byte_rchr:K_byte_rchr:chk", "str_rchr.c:str_rchr:K_str_rchr:chk",
                  # with I/O stubs (the descriptor's input/output are file-scope lists; functions that report and exit end the run with a
                  # negative code; eofdie = the program's read function exits at end of input): the two SMTP DATA codecs, the SMTP reply
                  # parser, the netstring length parser
                  "qmail-remote.c:blast:C_rblast", "qmail-smtpd.c:put:C_sput", "qmail-smtpd.c:blast:C_sblast:eofdie",
                  "qmail-remote.c:get:C_rget:eofdie", "qmail-remote.c:smtpcode:C_smtpcode:eofdie", "qmail-qmtpd.c:getlen:C_getlen:eofdie",
                  # a substdio* / struct qmail* parameter as a stream (substdio_puts = the C string at the argument): the report writers of
                  # qmail-rspawn and qmail-lspawn, safeput() of received.c, the queue file name formatter
                  "qmail-rspawn.c:report:C_rreport", "qmail-lspawn.c:report:C_lreport", "received.c:safeput:C_safeput", "fmtqfn.c:fmtqfn",
                  "qmail-rspawn.c:report:K_rreport:chk", "qmail-lspawn.c:report:K_lreport:chk", "received.c:issafe:K_issafe:chk",
                  "received.c:safeput:K_safeput:chk", "fmtqfn.c:fmtqfn:K_fmtqfn:chk",
                  # a local structure (struct ip_address ip), &ip as a struct argument, the file-scope strallocs addr and liphost
                  # (stralloc_copys/append/cat/0), ipme_is() as an oracle over the run parameter g_ipme_: the SMTP address parser
                  "qmail-smtpd.c:addrparse", "qmail-smtpd.c:addrparse:K_addrparse:chk",
                  # a whole program: main() of qmail-clean.c (file-scope substdio pointers as streams; getln = the next line of the input;
                  # unlink = an oracle that logs its path and answers from a run parameter; memcmp; chdir/sig_pipeignore/cleanuppid outside)
                  "qmail-clean.c:respond:C_clean_respond", "qmail-clean.c:main:C_clean_main",
                  # a call through a function pointer parameter = the scripted write oracle (g_wr__script_: k >= 0 accepts min(k+1,len) bytes,
                  # -1 EINTR, <= -2 error; accepted bytes go to g_wr__out_): the whole output side of substdio
                  "substdo.c:allwrite", "substdo.c:substdio_flush", "substdo.c:substdio_bput", "substdo.c:substdio_put", "substdo.c:substdio_putflush",
                  "substdo.c:allwrite:K_allwrite:chk", "substdo.c:substdio_flush:K_substdio_flush:chk", "substdo.c:substdio_bput:K_substdio_bput:chk",
                  "substdo.c:substdio_put:K_substdio_put:chk", "substdo.c:substdio_putflush:K_substdio_putflush:chk",
                  # the input side (option rd: the call through the function pointer is the scripted read oracle over g_rd__src_)
                  "byte_cr.c:byte_copyr:K_byte_copyr:chk", "substdi.c:oneread::rd", "substdi.c:getthis", "substdi.c:substdio_feed::rd", "substdi.c:substdio_get::rd",
                  "substdi.c:oneread:K_oneread:chk,rd", "substdi.c:getthis:K_getthis:chk", "substdi.c:substdio_feed:K_substdio_feed:chk,rd", "substdi.c:substdio_get:K_substdio_get:chk,rd"]

def gen_params(srcdir):
    r = run([sys.executable, os.path.join(VERIF, "tools", "extract_params.py"), srcdir])
    r2 = run([sys.executable, os.path.join(VERIF, "tools", "c2gallina.py"), srcdir, os.path.join(COQ, "gen", "CGen.v")] + CGEN_FUNCTIONS)
    if r2.returncode != 0:
        log("c2gallina: " + r2.stdout.decode(errors="replace")[-600:])
    return r.returncode == 0


def coq_props(pid, extra_targets=(), timeout=1500):
    """Recompile Props/Properties_<pid>.vo (forcing it) and whatever it depends on.

    Returns dict(ok, log, theorems=[names], assumptions={name: text}, closed=bool).
    """
    coq_makefile()
    vfile = os.path.join(COQ, "Props", "Properties_%s.v" % pid)
    vo = vfile + "o"
    if os.path.exists(vo):
        os.remove(vo)
    targets = ["Props/Properties_%s.vo" % pid] + list(extra_targets)
    tie = os.path.join(COQ, "Tie", "Tie_%s.v" % pid)
    if os.path.exists(tie):
        if os.path.exists(tie + "o"):
            os.remove(tie + "o")
        targets.append("Tie/Tie_%s.vo" % pid)
    try:
        r = run(["make", "-k", "-j16"] + targets, cwd=COQ, timeout=timeout)
        out = r.stdout.decode(errors="replace")
        ok = r.returncode == 0 and os.path.exists(vo) and (not os.path.exists(tie) or os.path.exists(tie + "o"))
    except subprocess.TimeoutExpired as e:
        out = (e.stdout or b"").decode(errors="replace") + "\nTIMEOUT"
        ok = False
    src = open(vfile).read()
    theorems = re.findall(r"^\s*Theorem\s+([A-Za-z0-9_']+)", src, re.M)
    if os.path.exists(tie):
        theorems += ["Tie." + t for t in re.findall(r"^\s*Lemma\s+([A-Za-z0-9_']+)", open(tie).read(), re.M)]
    assumptions = {}
    # Print Assumptions output: "Closed under the global context" or "Axioms:\n..."
    blocks = re.split(r"(?=^Closed under the global context|^Axioms:)", out, flags=re.M)
    pa = [b for b in blocks if b.startswith("Closed under") or b.startswith("Axioms:")]
    printed = re.findall(r"^\s*Print Assumptions\s+([A-Za-z0-9_'.]+)", src, re.M)
    for name, b in zip(printed, pa):
        txt = b.strip().split("\n")
        if txt[0].startswith("Closed"):
            assumptions[name] = "Closed under the global context"
        else:
            keep = []
            for l in txt:
                if re.match(r"^(make|COQC|coqc|File |Makefile)", l):
                    break
                keep.append(l)
            assumptions[name] = " ".join(x.strip() for x in keep)
    return dict(ok=ok, log=out, theorems=theorems, assumptions=assumptions,
                n_printed=len(printed))


# ----------------------------------------------------------------------------------------
# OCaml driver of the extracted model
# ----------------------------------------------------------------------------------------
def build_driver(pid):
    """build/<pid>/driver from coq extraction of Extract_<pid>.v + extract/conv.ml + extract/<pid>_driver.ml"""
    coq_makefile()
    d = os.path.join(BUILD, pid)
    os.makedirs(d, exist_ok=True)
    r = run(["make", "-j16", "Extract_%s.vo" % pid], cwd=COQ, timeout=1500)
    if r.returncode:
        raise RuntimeError("coq extraction build failed:\n" + r.stdout.decode(errors="replace")[-3000:])
    ml = os.path.join(COQ, "extracted_%s.ml" % pid)
    exe = os.path.join(d, "driver")
    srcs = [ml, os.path.join(VERIF, "extract", "conv.ml")]
    if re.search(r"^type z =", open(ml).read(), re.M):
        srcs.append(os.path.join(VERIF, "extract", "conv_z.ml"))
    srcs.append(os.path.join(VERIF, "extract", "%s_driver.ml" % pid))
    if os.path.exists(exe) and all(os.path.getmtime(exe) > os.path.getmtime(s) for s in srcs):
        return exe
    allml = os.path.join(d, "all.ml")
    with open(allml, "w") as f:
        for s in srcs:
            f.write("# 1 \"%s\"\n" % s)
            f.write(open(s).read())
            f.write("\n")
    r = run(["ocamlfind", "ocamlopt", "-O3", "-w", "-a", "-package", "str", "-linkpkg", allml, "-o", exe], cwd=d)
    if r.returncode:
        r = run(["ocamlfind", "ocamlopt", "-w", "-a", "-package", "str", "-linkpkg", allml, "-o", exe], cwd=d)
    if r.returncode:
        raise RuntimeError("ocaml build failed:\n" + r.stdout.decode(errors="replace")[-3000:])
    return exe


def run_lines(exe, lines, timeout=1800, env=None, cwd=None, strict=True):
    """Feed text lines to a line-protocol program; returns list of output lines."""
    data = ("\n".join(lines) + "\n").encode()
    r = subprocess.run([exe] if isinstance(exe, str) else exe, input=data, stdout=subprocess.PIPE,
                       stderr=subprocess.PIPE, timeout=timeout, env=env, cwd=cwd)
    out = r.stdout.decode(errors="replace").split("\n")
    if out and out[-1] == "":
        out.pop()
    if strict and len(out) != len(lines):
        raise RuntimeError("line protocol broken: %d lines in, %d out (rc=%s) %s" % (len(lines), len(out), r.returncode, r.stderr.decode(errors="replace")[-400:]))
    return out, r.returncode, r.stderr.decode(errors="replace")


def hx(b):
    return bytes(b).hex() if len(b) else "-"


def unhx(s):
    return b"" if s == "-" else bytes.fromhex(s)


# ----------------------------------------------------------------------------------------
# known findings, violations, evidence
# ----------------------------------------------------------------------------------------
def known_findings(pid):
    p = os.path.join(VERIF, "known_findings.json")
    if not os.path.exists(p):
        return {}
    d = json.load(open(p))
    return {e["key"]: e for e in d.get("findings", []) if e["property"] == pid and e["status"] == "known"}


class Check:
    def __init__(self, pid, level="proof"):
        self.pid = pid
        self.level = level
        self.tier = "thorough" if (os.environ.get("VERIF_TIER") == "thorough" or "--thorough" in sys.argv) else "quick"
        self.seed = int(os.environ.get("VERIF_SEED", "1"))
        self.rng = random.Random(self.seed * 1000003 + int(hashlib.sha1(pid.encode()).hexdigest()[:6], 16))
        self.known = known_findings(pid)
        self.violations = []      # (key, replay_path, nofail)
        self.known_hits = {}
        self.cov = dict(evaluations=0, distinct_nontrivial=0, rule="", samples=[],
                        obligations=0, discharged=0, checker_cmd="", trusted_base=[],
                        disagreements_checked=0)
        self.assumptions = []
        self.dist = {}
        self._nontrivial = set()
        self.t0 = time.time()
        os.makedirs(os.path.join(VERIF, "replays"), exist_ok=True)
        os.makedirs(os.path.join(VERIF, "evidence"), exist_ok=True)

    @property
    def thorough(self):
        return self.tier == "thorough"

    # -- counting -----------------------------------------------------------------------
    def count(self, kind, n=1):
        self.dist[kind] = self.dist.get(kind, 0) + n

    def evaluated(self, n=1):
        self.cov["evaluations"] += n

    def nontrivial(self, key):
        self._nontrivial.add(key if isinstance(key, (str, bytes, int, tuple)) else repr(key))

    def sample(self, s, cap=6):
        if len(self.cov["samples"]) < cap:
            self.cov["samples"].append(s)

    # -- reporting ----------------------------------------------------------------------
    def replay_file(self, tag, obj):
        h = hashlib.sha1(json.dumps(obj, sort_keys=True, default=str).encode()).hexdigest()[:10]
        p = os.path.join(VERIF, "replays", "%s_%s_%s.json" % (self.pid, tag, h))
        obj = dict(obj)
        obj.setdefault("property", self.pid)
        obj.setdefault("how_to_replay", "./check %s --replay %s" % (self.pid, os.path.relpath(p, VERIF)))
        json.dump(obj, open(p, "w"), indent=1, default=str)
        return p

    def violation(self, key, obj, nofail=False, what=""):
        """A failing case.  key = classifier string (matched against known_findings.json)."""
        if key in self.known:
            if key not in self.known_hits:
                self.known_hits[key] = 0
                print("KNOWN-FINDING: property=%s %s (%s)" % (self.pid, key, self.known[key]["what"][:150].rstrip() + ("..." if len(self.known[key]["what"]) > 150 else "")), flush=True)
            self.known_hits[key] += 1
            return
        if any(v[0] == key for v in self.violations) and len(self.violations) >= 1:
            # one replay per classifier key is enough
            self.count("suppressed_dup_" + key)
            return
        obj = dict(obj, key=key, what=what)
        p = self.replay_file(re.sub(r"[^A-Za-z0-9]+", "-", key)[:40], obj)
        self.violations.append((key, p, nofail))
        print("VIOLATION property=%s replay=%s%s" % (self.pid, p, " no-failing-input-found" if nofail else ""),
              flush=True)
        if what:
            log("  " + what)

    # -- proofs -------------------------------------------------------------------------
    def proofs(self, extra_targets=(), ties=(), srcdir=None):
        """Recompile the property theorems; a failure is a violation (searched by caller)."""
        bad = coq_forbidden_scan()
        gen_params(srcdir or REPO)
        res = coq_props(self.pid, extra_targets=extra_targets)
        nth = len(res["theorems"]) + len(ties)
        self.cov["obligations"] = nth
        self.cov["checker_cmd"] = "make -C coq -k Props/Properties_%s.vo (coqc 8.16.1, full .vo build; forced recompile of the property file each run)" % self.pid
        self.cov["theorems"] = res["theorems"]
        self.cov["print_assumptions"] = res["assumptions"]
        self.proof_ok = res["ok"] and not bad
        self.proof_log = res["log"]
        if bad:
            self.proof_ok = False
            self.proof_log += "\nFORBIDDEN TOKENS:\n" + "\n".join(bad)
        self.cov["discharged"] = nth if self.proof_ok else 0
        nonclosed = {k: v for k, v in res["assumptions"].items() if not v.startswith("Closed")}
        self.cov["axioms_used"] = nonclosed
        return self.proof_ok

    def proof_failure_violation(self, found_failing_input):
        """Called at the end when the proof build failed."""
        if self.proof_ok:
            return
        if not found_failing_input:
            self.violation("proof-broken", dict(kind="proof", broken="Props/Properties_%s.v or its dependencies / constants tie" % self.pid,
                                                log=self.proof_log[-4000:]), nofail=True,
                           what="Coq proof obligation no longer checks")

    # -- evidence -----------------------------------------------------------------------
    def finish(self, trusted_base=(), assumptions=(), explanation=None):
        self.cov["distinct_nontrivial"] = len(self._nontrivial)
        self.cov["trusted_base"] = list(trusted_base)
        self.cov["input_distribution"] = self.dist
        self.cov["known_findings_hit"] = self.known_hits
        if explanation:
            self.cov["explanation"] = explanation
        ev = dict(property_id=self.pid, tier=self.tier, seed=self.seed, level=self.level,
                  coverage=self.cov, assumptions=list(assumptions),
                  wall_s=round(time.time() - self.t0, 2), violations=len(self.violations))
        p = os.path.join(VERIF, "evidence", "%s.json" % self.pid)
        json.dump(ev, open(p + ".tmp", "w"), indent=1, default=str)
        os.replace(p + ".tmp", p)
        _cleanup()
        if self.violations:
            sys.exit(1)
        log("%s: OK (%d evaluations, %d obligations, %.1fs)" % (self.pid, self.cov["evaluations"], self.cov["obligations"], time.time() - self.t0))
        sys.exit(0)


EXTRACTION_TB = ("Coq extraction to OCaml with ExtrOcamlBasic only (Extract Inductive bool, option, unit, list, prod, "
                 "sumbool=>bool, sumor=>option; Extract Inlined Constant andb=>(&&), orb=>(||)); N/positive/nat stay "
                 "extracted inductives; ocamlopt 4.13.1; hand-written extract/conv.ml and extract/<id>_driver.ml")
KERNEL_TB = "Coq 8.16.1 kernel (coqc, full .vo build); vm_compute used in Examples/finite sweeps; native_compute not used"
