/* function harness for qmail-lspawn.c report(): "rep <crashed 0|1> <exitcode> <hex output>" -> hex of what it wrote */
#include "h_common.h"
#include "qmail-lspawn.c"
static unsigned char *h_out; static size_t h_outlen, h_outcap;
static ssize_t h_write(int fd, const char *buf, size_t len) {
  if (h_outlen + len > h_outcap) { h_outcap = 2 * (h_outlen + len) + 64; h_out = realloc(h_out, h_outcap); }
  memcpy(h_out + h_outlen, buf, len); h_outlen += len; return len;
}
int main(void) {
  static char line[1 << 20]; static unsigned char in[1 << 19]; static char obuf[256]; substdio ss;
  h_init();
  while (fgets(line, sizeof line, stdin)) {
    int crashed, ec; char hex[16]; char *p; size_t n; int wstat;
    if (sscanf(line, "rep %d %d", &crashed, &ec) != 2) { fputs("?\n", h_res); continue; }
    p = strrchr(line, ' ') + 1; n = h_unhex(p, in); in[n] = 0;      /* sentinel: an unterminated output is read as a C string */
    wstat = crashed ? 11 : (ec << 8);
    h_outlen = 0; substdio_fdbuf(&ss, h_write, -1, obuf, sizeof obuf);
    report(&ss, wstat, (char *) in, (int) n);
    substdio_flush(&ss);
    h_puthex(h_out, h_outlen); fputc('\n', h_res);
  }
  fflush(h_res); return 0;
}
/* symbols spawn.c would provide */
uid_t auto_uidq;
