#!/bin/sh
# stand-in for qmail-queue as run by qmail-send for a bounce: the first $QQFAIL_N runs fail with exit code $QQFAIL_CODE without reading
# anything; later runs are the real qmail-queue ($QQFAIL_REAL)
n=0; [ -e "$QQFAIL_COUNT" ] && n=$(cat "$QQFAIL_COUNT")
n=$((n + 1)); echo "$n" > "$QQFAIL_COUNT"
if [ "$n" -le "${QQFAIL_N:-1}" ]; then exit "${QQFAIL_CODE:-31}"; fi
exec "$QQFAIL_REAL" "$@"
