/* function harness for quote.c, token822.c and qmail-inject.c's header-field handling: the real
   functions.  Commands (hex arguments, '-' = empty):
     qn <s>  q2 <s>  tok <s>  hf <dh> <dd> <pd> <flags> <field>      -- see extract/C17_driver.ml */
#include "h_common.h"
static jmp_buf h_jmp;
static int h_code;
static void h_exit(int c) { h_code = c; longjmp(h_jmp, 1); }
#define _exit(c) h_exit(c)
#define main x_main
#define puts inject_puts
#include "qmail-inject.c"
#undef main
#undef puts

static void put_tokens(token822_alloc *ta) {
  int i;
  for (i = 0; i < ta->len; i++) {
    struct token822 *t = ta->t + i;
    if (i) fputc(' ', h_res);
    switch (t->type) {
      case TOKEN822_ATOM: fputc('A', h_res); h_puthex((unsigned char *)t->s, t->slen); break;
      case TOKEN822_QUOTE: fputc('Q', h_res); h_puthex((unsigned char *)t->s, t->slen); break;
      case TOKEN822_LITERAL: fputc('L', h_res); h_puthex((unsigned char *)t->s, t->slen); break;
      case TOKEN822_COMMENT: fputc('C', h_res); h_puthex((unsigned char *)t->s, t->slen); break;
      case TOKEN822_COMMA: fputc(',', h_res); break;
      case TOKEN822_AT: fputc('@', h_res); break;
      case TOKEN822_DOT: fputc('.', h_res); break;
      case TOKEN822_LEFT: fputc('<', h_res); break;
      case TOKEN822_RIGHT: fputc('>', h_res); break;
      case TOKEN822_SEMI: fputc(';', h_res); break;
      case TOKEN822_COLON: fputc(':', h_res); break;
      default: fputc('?', h_res);
    }
  }
}
static void put_saa(saa *l) {
  int i;
  if (!l->len) { fputc('-', h_res); return; }
  for (i = 0; i < l->len; i++) { if (i) fputc(',', h_res); h_puthex((unsigned char *)l->sa[i].s, l->sa[i].len); }
}
static void set_ctl(token822_alloc *ta, stralloc *buf, char pre, unsigned char *v, size_t n) {
  static stralloc sa = {0};
  stralloc_copyb(&sa, &pre, 1); stralloc_catb(&sa, (char *)v, n);
  if (token822_parse(ta, &sa, buf) != 1) { fputs("cfg-error\n", h_res); }
}
int main(void) {
  static char line[1 << 20]; static unsigned char a[1 << 19], b[1 << 16], c[1 << 16];
  static stralloc in = {0}, out = {0}, buf = {0}; static token822_alloc ta = {0};
  h_init();
  saa_readyplus(&hrlist, 1); saa_readyplus(&tocclist, 1); saa_readyplus(&hrrlist, 1); saa_readyplus(&reciplist, 1);
  while (fgets(line, sizeof line, stdin)) {
    char *p = strchr(line, ' '); size_t n;
    if (!p) { fputs("?\n", h_res); continue; }
    *p++ = 0;
    if (!strcmp(line, "qn")) { n = h_unhex(p, a); fprintf(h_res, "%d\n", quote_need((char *)a, n)); }
    else if (!strcmp(line, "q2")) {
      n = h_unhex(p, a); a[n] = 0;
      if (!quote2(&out, (char *)a)) fputs("nomem", h_res); else h_puthex((unsigned char *)out.s, out.len);
      fputc('\n', h_res);
    }
    else if (!strcmp(line, "tok")) {
      n = h_unhex(p, a); stralloc_copyb(&in, (char *)a, n);
      if (token822_parse(&ta, &in, &buf) != 1) { fputs("F\n", h_res); continue; }
      put_tokens(&ta); fputs(" | ", h_res);
      token822_unquote(&out, &ta); h_puthex((unsigned char *)out.s, out.len); fputs(" | ", h_res);
      token822_unparse(&out, &ta, 80); h_puthex((unsigned char *)out.s, out.len); fputc('\n', h_res);
    }
    else if (!strcmp(line, "cnt")) {
      /* fresh allocations: GEN_ALLOC_ready on a null field allocates exactly what the counting pass asked for */
      stralloc fin = {0}, fbuf = {0}; token822_alloc fta = {0};
      n = h_unhex(p, a); stralloc_copyb(&fin, (char *)a, n);
      if (token822_parse(&fta, &fin, &fbuf) != 1) fputs("F\n", h_res);
      else fprintf(h_res, "%u %u\n", fta.a, fbuf.a);
      if (fin.s) free(fin.s); if (fbuf.s) free(fbuf.s); if (fta.t) free(fta.t);
    }
    else if (!strcmp(line, "hf")) {
      char *f[5]; int i; size_t na, nb, nc;
      for (i = 0; i < 5; i++) { f[i] = p; p = strchr(p, ' '); if (p) *p++ = 0; else break; }
      if (i < 4) { fputs("?\n", h_res); continue; }
      na = h_unhex(f[0], a); nb = h_unhex(f[1], b); nc = h_unhex(f[2], c);
      set_ctl(&defaulthost, &defaulthostbuf, '@', a, na);
      set_ctl(&defaultdomain, &defaultdomainbuf, '.', b, nb);
      set_ctl(&plusdomain, &plusdomainbuf, '.', c, nc);
      flagdeletesender = f[3][0] == '1'; flagdeletefrom = f[3][1] == '1'; flagdeletemessid = f[3][2] == '1'; flaghackrecip = f[3][3] == '1';
      hrlist.len = 0; hrrlist.len = 0; tocclist.len = 0; savedh.len = 0;
      sender.s = 0; sender.len = 0; sender.a = 0;
      for (i = 0; i < H_NUM; i++) htypeseen[i] = 0;
      n = h_unhex(f[4], a); stralloc_copyb(&in, (char *)a, n);
      if (!setjmp(h_jmp)) {
        int first = 1;
        doheaderfield(&in);
        fputs("hr=", h_res); put_saa(&hrlist); fputs(" hrr=", h_res); put_saa(&hrrlist);
        fputs(" sender=", h_res); if (sender.s) h_puthex((unsigned char *)sender.s, sender.len); else fputs("none", h_res);
        fputs(" saved=", h_res); if (savedh.len) h_puthex((unsigned char *)savedh.sa[0].s, savedh.sa[0].len); else fputs("none", h_res);
        fputs(" seen=", h_res);
        for (i = 0; i < H_NUM; i++) if (htypeseen[i]) { fprintf(h_res, first ? "%d" : ",%d", i); first = 0; }
        fputc('\n', h_res);
      } else fputs(h_code == 100 ? "P\n" : "E\n", h_res);
    }
    else fputs("?\n", h_res);
  }
  fflush(h_res);
  return 0;
}
