/* function harness for dns.c: the resolver call is replaced by scripted responses.
   "mxip <hex name> <hex response 1> [<hex response 2> ...]"  -> "r=<ret> n=<addresses>"
   "ip <hex name> <resp...>" / "ptr <a.b.c.d> <resp...>"
   Each call of the resolver consumes the next response (then returns -1 / HOST_NOT_FOUND). */
#include "h_common.h"
#define main x_main
#include "dns.c"
#undef main
static unsigned char *resp[16]; static int resplen[16]; static int nresp, cur;
static int fake_lookup(const char *name, int class, int type, unsigned char *buf, int buflen) {
  int n;
  if (cur >= nresp) { h_errno = HOST_NOT_FOUND; return -1; }
  n = resplen[cur];
  memcpy(buf, resp[cur], n < buflen ? n : buflen);     /* like res_query: fills at most buflen, returns the full size */
  cur++;
  return n;
}
int main(void) {
  static char line[1 << 21]; static unsigned char store[16][70000]; static unsigned char nm[70000];
  h_init();
  while (fgets(line, sizeof line, stdin)) {
    char *tok[20]; int nt = 0; char *p = line; int r = -99, i; size_t nl;
    line[strcspn(line, "\n")] = 0;
    while (nt < 20 && p && *p) { tok[nt++] = p; p = strchr(p, ' '); if (p) *p++ = 0; }
    if (nt < 2) { fputs("?\n", h_res); continue; }
    nresp = 0; cur = 0;
    for (i = 2; i < nt && nresp < 16; i++) { resplen[nresp] = h_unhex(tok[i], store[nresp]); resp[nresp] = store[nresp]; nresp++; }
    lookup = fake_lookup;
    if (!strcmp(tok[0], "mxip") || !strcmp(tok[0], "ip")) {
      static ipalloc ia = {0}; static stralloc sa = {0};
      nl = h_unhex(tok[1], nm); stralloc_copyb(&sa, (char *) nm, nl);
      r = !strcmp(tok[0], "mxip") ? dns_mxip(&ia, &sa, 1) : dns_ip(&ia, &sa);
      fprintf(h_res, "r=%d n=%d\n", r, r == 0 ? (int) ia.len : -1);
    } else if (!strcmp(tok[0], "ptr")) {
      static stralloc sa = {0}; struct ip_address ip; unsigned int a, b, c, d;
      sscanf(tok[1], "%u.%u.%u.%u", &a, &b, &c, &d); ip.d[0] = a; ip.d[1] = b; ip.d[2] = c; ip.d[3] = d;
      r = dns_ptr(&sa, &ip);
      fprintf(h_res, "r=%d len=%d\n", r, r == 0 ? (int) sa.len : -1);
    } else fputs("?\n", h_res);
    fflush(h_res);
  }
  return 0;
}
