/* shared by the function harnesses: hex line protocol, result stream on fd 3 */
#include <stdio.h>
#include <stdlib.h>
#include <string.h>
#include <setjmp.h>
#include <unistd.h>
#include <fcntl.h>
#include <errno.h>

static FILE *h_res;                 /* results go here (dup of the original stdout) */
static void h_init(void) {
  int fd = dup(1);
  int nul = open("/dev/null", O_WRONLY);
  h_res = fdopen(fd, "w");
  dup2(nul, 1);                     /* whatever the code under test prints on fd 1 is dropped */
  setvbuf(h_res, 0, _IOFBF, 1 << 16);
}
static int h_hexval(int c) { return c <= '9' ? c - '0' : (c | 32) - 'a' + 10; }
static size_t h_unhex(const char *s, unsigned char *out) {
  size_t n = 0;
  if (s[0] == '-' ) return 0;
  while (s[0] && s[1] && s[0] != ' ' && s[0] != '\n') { out[n++] = h_hexval(s[0]) * 16 + h_hexval(s[1]); s += 2; }
  return n;
}
static void h_puthex(const unsigned char *b, size_t n) {
  size_t i;
  if (!n) { fputc('-', h_res); return; }
  for (i = 0; i < n; i++) fprintf(h_res, "%02x", b[i]);
}
