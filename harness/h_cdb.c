/* function harness for the cdb writer (cdbmss.c, cdbmake_*.c) and reader (cdb_seek.c, cdb_hash.c):
     mk <keyhex>:<datahex>;...|-      -> hex of the file the real cdbmss_start/add/finish write
     get <filehex> <keyhex>           -> "E" | "N" | "F <datahex>"   (cdb_seek, then cdb_bread of the data)
     hash <keyhex>                    -> decimal cdb_hash */
#include "h_common.h"
#include "cdb.h"
#include "cdbmss.h"
static struct cdbmss c;
static unsigned char buf[1 << 20], key[1 << 16], data[1 << 16], file[1 << 20];
int main(int argc, char **argv) {
  static char line[1 << 22]; char *tmp = argv[1];
  h_init();
  while (fgets(line, sizeof line, stdin)) {
    if (!strncmp(line, "mk ", 3)) {
      int fd = open(tmp, O_RDWR | O_CREAT | O_TRUNC, 0600); char *p = line + 3; int bad = 0; ssize_t n;
      if (cdbmss_start(&c, fd) == -1) bad = 1;
      while (!bad && *p && *p != '\n' && *p != '-') {
        char *q = strchr(p, ':'), *e; size_t kl, dl;
        *q = 0; kl = (q == p) ? 0 : h_unhex(p, key); e = q + 1 + strcspn(q + 1, ";\n"); 
        { char sv = *e; *e = 0; dl = (e == q + 1) ? 0 : h_unhex(q + 1, data); *e = sv; }
        if (cdbmss_add(&c, key, kl, data, dl) == -1) bad = 1;
        p = (*e == ';') ? e + 1 : e;
      }
      if (!bad && cdbmss_finish(&c) == -1) bad = 1;
      if (bad) { fputs("E\n", h_res); close(fd); continue; }
      lseek(fd, 0, SEEK_SET); n = read(fd, buf, sizeof buf); close(fd);
      h_puthex(buf, n > 0 ? n : 0); fputc('\n', h_res);
    } else if (!strncmp(line, "get ", 4)) {
      char *sp = strchr(line + 4, ' '); size_t fl, kl; int fd, r; uint32 dlen;
      *sp = 0; fl = h_unhex(line + 4, file); kl = h_unhex(sp + 1, key);
      fd = open(tmp, O_RDWR | O_CREAT | O_TRUNC, 0600); if (fl) write(fd, file, fl);
      r = cdb_seek(fd, key, kl, &dlen);
      if (r == -1) fputs("E\n", h_res);
      else if (r == 0) fputs("N\n", h_res);
      else {
        if (dlen > sizeof data) fputs("E\n", h_res);
        else if (dlen && cdb_bread(fd, data, dlen) == -1) fputs("E\n", h_res);
        else { fputs("F ", h_res); h_puthex(data, dlen); fputc('\n', h_res); }
      }
      close(fd);
    } else if (!strncmp(line, "hash ", 5)) {
      size_t kl = h_unhex(line + 5, key);
      fprintf(h_res, "%lu\n", (unsigned long) cdb_hash(key, kl));
    } else fputs("?\n", h_res);
    fflush(h_res);
  }
  return 0;
}
