/* function harness for qmail-send.c del_dochan(): the real report parser driven through a pipe,
   with real delivery/job tables and real mark/bounce files in a scratch queue.
   usage: h_deldochan <queue dir>; commands are read from fd 0 (moved away before the code runs):
     del <conc> <used,comma list|-> <dying list|-> <hex stream>
   -> one line: per initially used slot "s<slot>:u<used>:n<numtodo>:m<mark byte>:b<hex of bounce file>" joined by ' ' and "cu<concurrencyused>" */
#include "h_common.h"
#include <sys/stat.h>
#include <sys/syscall.h>
/* qsutil.c logs to fd 0 one byte per write(); drop those in-process instead of 10^7 system calls */
ssize_t write(int fd, const void *buf, size_t n) { if (fd == 0) return n; return syscall(SYS_write, fd, buf, n); }
#define main x_main
#include "qmail-send.c"
#undef main

static int inlist(const char *l, int v) {
  char buf[1024]; char *t;
  if (!l || l[0] == '-') return 0;
  strncpy(buf, l, sizeof buf - 1); buf[sizeof buf - 1] = 0;
  for (t = strtok(buf, ","); t; t = strtok(0, ",")) if (atoi(t) == v) return 1;
  return 0;
}
int main(int argc, char **argv) {
  static char line[1 << 20]; static unsigned char in[1 << 19];
  FILE *cmd; int nul;
  h_init();
  cmd = fdopen(dup(0), "r");
  nul = open("/dev/null", O_WRONLY); dup2(nul, 0);           /* qsutil logs to fd 0 */
  if (argc > 1 && chdir(argv[1]) == -1) return 111;
  fnmake_init();
  constmap_init(&mapvdoms, "", 0, 1); constmap_init(&maplocals, "", 0, 0);
  while (fgets(line, sizeof line, cmd)) {
    int conc; char used[1024], dying[1024]; char *hex; int s; size_t n, off; int pi[2];
    if (sscanf(line, "del %d %1023s %1023s", &conc, used, dying) != 3) { fputs("?\n", h_res); continue; }
    hex = strrchr(line, ' ') + 1;
    n = h_unhex(hex, in);
    concurrency[0] = conc; concurrencyused[0] = 0;
    numjobs = conc > 0 ? conc : 1;
    job_init();
    d[0] = (struct del *) alloc((conc + 1) * sizeof(struct del));
    dline[0].s = 0; dline[0].len = 0; dline[0].a = 0;
    stralloc_copys(&dline[0], "");
    flagspawnalive[0] = 1;
    for (s = 0; s < conc; s++) {
      d[0][s].used = 0; d[0][s].recip.s = 0;
      if (inlist(used, s)) {
        char rec[64]; int fd;
        jo[s].refs = 2; jo[s].id = 1000 + s; jo[s].channel = 0; jo[s].numtodo = 1; jo[s].flaghiteof = 0;
        jo[s].flagdying = inlist(dying, s); jo[s].retry = 0;
        stralloc_copys(&jo[s].sender, "sender@x"); stralloc_0(&jo[s].sender);
        d[0][s].used = 1; d[0][s].j = s; d[0][s].delid = s + 1; d[0][s].mpos = 0;
        sprintf(rec, "r%d@x", s);
        stralloc_copys(&d[0][s].recip, rec); stralloc_0(&d[0][s].recip);
        ++concurrencyused[0];
        fnmake_chanaddr(1000 + s, 0);
        fd = open(fn.s, O_WRONLY | O_CREAT | O_TRUNC, 0600); write(fd, "T", 1); write(fd, rec, strlen(rec) + 1); close(fd);
        fnmake2_bounce(1000 + s); unlink(fn2.s);
      }
    }
    /* feed the stream in pipe-sized pieces */
    off = 0;
    while (off < n) {
      size_t k = n - off > 1500 ? 1500 : n - off;
      if (pipe(pi) == -1) return 111;
      write(pi[1], in + off, k); close(pi[1]);
      chanfdin[0] = pi[0];
      del_dochan(0);
      close(pi[0]);
      off += k;
    }
    for (s = 0; s < conc; s++) if (inlist(used, s)) {
      char mark = '?'; int fd; static unsigned char b[1 << 17]; int bl = 0;
      fnmake_chanaddr(1000 + s, 0); fd = open(fn.s, O_RDONLY); if (fd >= 0) { read(fd, &mark, 1); close(fd); }
      fnmake2_bounce(1000 + s); fd = open(fn2.s, O_RDONLY); if (fd >= 0) { bl = read(fd, b, sizeof b); close(fd); unlink(fn2.s); }
      fprintf(h_res, "s%d:u%d:n%d:m%c:b", s, d[0][s].used, jo[s].numtodo, mark);
      h_puthex(b, bl > 0 ? bl : 0); fputc(' ', h_res);
      fnmake_chanaddr(1000 + s, 0); unlink(fn.s);
    }
    fprintf(h_res, "cu%u dl%u\n", concurrencyused[0], dline[0].len);
  }
  fflush(h_res);
  return 0;
}
