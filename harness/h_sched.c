/* function harness for qmail-send.c squareroot()/nextretry()/pqfinish()/pqstart() and prioq.c.
   sqrt <x> ; retry <birth> <recent> <c> ; pq <ops> ; restart <c:id:dt,...>  (cwd must be a queue directory) */
#include "h_common.h"
#include <sys/stat.h>
#include <sys/time.h>
#define main x_main
#include "qmail-send.c"
#undef main

static void show(prioq *pq) {
  unsigned int i;
  for (i = 0; i < pq->len; i++) fprintf(h_res, "%s%ld:%lu", i ? "," : "", (long) pq->p[i].dt, pq->p[i].id);
}
static void touch(const char *fn) { int fd = open(fn, O_WRONLY | O_CREAT, 0600); if (fd >= 0) close(fd); }
int main(int argc, char **argv) {
  static char line[1 << 20];
  h_init();
  if (argc > 1 && chdir(argv[1]) == -1) return 111;
  fnmake_init();
  while (fgets(line, sizeof line, stdin)) {
    char *p = strchr(line, ' ');
    line[strcspn(line, "\n")] = 0;
    if (!strncmp(line, "sqrt ", 5)) fprintf(h_res, "%ld\n", (long) squareroot((datetime_sec) atol(line + 5)));
    else if (!strncmp(line, "retry ", 6)) {
      long b, r; int c; sscanf(line + 6, "%ld %ld %d", &b, &r, &c);
      recent = r; fprintf(h_res, "%ld\n", (long) nextretry((datetime_sec) b, c));
    } else if (!strncmp(line, "pq ", 3)) {
      static prioq pq; struct prioq_elt pe; char *t; int first = 1;
      pq.len = 0;
      for (t = strtok(line + 3, ","); t; t = strtok(0, ",")) {
        if (t[0] == 'i') { long d; unsigned long id; sscanf(t, "i:%ld:%lu", &d, &id); pe.dt = d; pe.id = id; prioq_insert(&pq, &pe); }
        else if (t[0] == 'd') prioq_delmin(&pq);
        else continue;
        if (!first) fputc(' ', h_res); first = 0;
        if (prioq_min(&pq, &pe)) fprintf(h_res, "m%ld:%lu", (long) pe.dt, pe.id); else fputs("m-", h_res);
      }
      fputs(" | ", h_res); show(&pq); fputc('\n', h_res);
    } else if (!strncmp(line, "restart ", 8)) {
      /* entries c:id:dt ; every channel file named gets created (with info), then pqfinish + pqstart */
      char *t; int c; struct prioq_elt pe; int first = 1;
      for (c = 0; c < CHANNELS; ++c) pqchan[c].len = 0;
      pqdone.len = 0; pqfail.len = 0;
      for (t = strtok(line + 8, ","); t; t = strtok(0, ",")) {
        long d; unsigned long id; int ch;
        if (sscanf(t, "%d:%lu:%ld", &ch, &id, &d) != 3) continue;
        fnmake_info(id); touch(fn.s);
        fnmake_chanaddr(id, ch); touch(fn.s);
        pe.dt = d; pe.id = id; prioq_insert(&pqchan[ch], &pe);
      }
      pqfinish();
      for (c = 0; c < CHANNELS; ++c) if (pqchan[c].len) fputs("NOTEMPTY ", h_res);
      pqstart();
      for (c = 0; c < CHANNELS; ++c) {
        unsigned int i;
        for (i = 0; i < pqchan[c].len; i++) { fprintf(h_res, "%s%d:%lu:%ld", first ? "" : ",", c, pqchan[c].p[i].id, (long) pqchan[c].p[i].dt); first = 0; }
      }
      if (first) fputc('-', h_res);
      fprintf(h_res, " done=%u fail=%u\n", pqdone.len, pqfail.len);
      /* clean the files again */
      for (c = 0; c < CHANNELS; ++c) { unsigned int i; for (i = 0; i < pqchan[c].len; i++) { fnmake_chanaddr(pqchan[c].p[i].id, c); unlink(fn.s); fnmake_info(pqchan[c].p[i].id); unlink(fn.s); } }
    } else fputs("?\n", h_res);
  }
  fflush(h_res);
  return 0;
}
