/* function harness for constmap.c (static hash() reached by inclusion):
     cm <flagcolon> <hex of the NUL-terminated lines> <keyhex>  -> "N" | "F <valuehex>"  (value: text after the colon up to NUL; "-" for plain maps)
     dump <flagcolon> <hex buffer>                               -> "<mask> <first,...> <inputlen:hash:next,...>"
     hash <hex>                                                  -> decimal */
#include "h_common.h"
#include "constmap.c"
static unsigned char buf[1 << 20], key[1 << 16];
int main(void) {
  static char line[1 << 22];
  h_init();
  while (fgets(line, sizeof line, stdin)) {
    struct constmap cm; int fc; 
    if (!strncmp(line, "cm ", 3) || !strncmp(line, "dump ", 5)) {
      char *p = strchr(line, ' ') + 1; char *q, *r; size_t bl, kl = 0; int isdump = line[0] == 'd';
      fc = atoi(p); q = strchr(p, ' ') + 1; r = strchr(q, ' ');
      if (r) { *r = 0; kl = h_unhex(r + 1, key); }
      bl = h_unhex(q, buf);
      if (!constmap_init(&cm, (char *) buf, bl, fc)) { fputs("E\n", h_res); fflush(h_res); continue; }
      if (isdump) {
        unsigned long i; int n = 0, j, i0 = 0;
        fprintf(h_res, "%lu ", (unsigned long) cm.mask);
        for (i = 0; i <= cm.mask; i++) fprintf(h_res, "%s%d", i ? "," : "", cm.first[i]);
        fputc(' ', h_res);
        /* entries actually stored: recount as constmap_init does */
        for (j = 0; j < (int) bl; j++) if (!buf[j]) { int k; if (fc) { for (k = i0; k < j; k++) if (buf[k] == ':') break; if (k >= j) { i0 = j + 1; continue; } } n++; i0 = j + 1; }
        if (!n) fputc('-', h_res);
        for (j = 0; j < n; j++) fprintf(h_res, "%s%d:%lu:%d", j ? "," : "", cm.inputlen[j], (unsigned long) cm.hash[j], cm.next[j]);
        fputc('\n', h_res);
      } else {
        char *v = constmap(&cm, (char *) key, kl);
        if (!v) fputs("N\n", h_res);
        else { fputs("F ", h_res); if (fc) h_puthex((unsigned char *) v, strlen(v)); else fputc('-', h_res); fputc('\n', h_res); }
      }
      constmap_free(&cm);
    } else if (!strncmp(line, "hash ", 5)) {
      size_t kl = h_unhex(line + 5, key);
      fprintf(h_res, "%lu\n", (unsigned long) hash((char *) key, kl));
    } else fputs("?\n", h_res);
    fflush(h_res);
  }
  return 0;
}
