#!/bin/sh
# stand-in for qmail-queue used when one session submits several messages:
# n-th invocation: fd 0 -> $QQOUT.n.msg, fd 1 -> $QQOUT.n.env, exit code = n-th line of $QQOUT.exits (default 0),
# optional $QQOUT.n.err is written to fd 6
n=$(cat "$QQOUT.count" 2>/dev/null || echo 0); n=$((n+1)); echo $n > "$QQOUT.count"
cat > "$QQOUT.$n.msg"
cat <&1 > "$QQOUT.$n.env"
[ -f "$QQOUT.$n.err" ] && cat "$QQOUT.$n.err" >&6 2>/dev/null
code=$(sed -n "${n}p" "$QQOUT.exits" 2>/dev/null)
exit ${code:-0}
