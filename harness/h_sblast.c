/* function harness for qmail-smtpd.c blast(): the real function; network input, network
   output and the pipe to qmail-queue replaced by memory buffers.
   Protocol: "dec <hex stream> <chunk> [<databytes>]" -> "D <body> <rest> <hops> [F<flagerr>]" | "X" (451 stray newline)
   | "N <body>" (input exhausted = client gone, die_read) | "E <code>" */
#include "h_common.h"
static jmp_buf h_jmp;
static int h_code;
static void h_exit(int c) { h_code = c; longjmp(h_jmp, 1); }
#define _exit(c) h_exit(c)
#define main x_main
#include "qmail-smtpd.c"
#undef main

static unsigned char *h_in; static size_t h_inlen, h_inpos, h_chunk;
static unsigned char *h_out; static size_t h_outlen, h_outcap;
static char h_reply[64]; static size_t h_replylen;
static ssize_t h_read(int fd, char *buf, size_t len) {
  size_t n = h_inlen - h_inpos;
  if (n == 0) h_exit(1000);                 /* what saferead does at EOF: die_read */
  if (n > len) n = len;
  if (h_chunk && n > h_chunk) n = h_chunk;
  memcpy(buf, h_in + h_inpos, n); h_inpos += n; return n;
}
static ssize_t h_write(int fd, const char *buf, size_t len) {
  if (h_outlen + len > h_outcap) { h_outcap = 2 * (h_outlen + len) + 64; h_out = realloc(h_out, h_outcap); }
  memcpy(h_out + h_outlen, buf, len); h_outlen += len; return len;
}
static ssize_t h_wreply(int fd, const char *buf, size_t len) {
  size_t i; for (i = 0; i < len && h_replylen < sizeof h_reply; i++) h_reply[h_replylen++] = buf[i];
  return len;
}
int main(void) {
  static char line[1 << 22]; static unsigned char in[1 << 21];
  h_init();
  while (fgets(line, sizeof line, stdin)) {
    char *p = strchr(line, ' '); if (!p) continue;
    char *q = strchr(p + 1, ' ');
    char *q2 = q ? strchr(q + 1, ' ') : 0;
    int hops = -1;
    h_in = in; h_inlen = h_unhex(p + 1, in); h_inpos = 0; h_chunk = q ? atoi(q + 1) : 0;
    h_outlen = 0; h_replylen = 0;
    { substdio tin = SUBSTDIO_FDBUF(h_read, 0, ssinbuf, sizeof ssinbuf);
      substdio tout = SUBSTDIO_FDBUF(h_wreply, 1, ssoutbuf, sizeof ssoutbuf);
      ssin = tin; ssout = tout; }
    qqt.flagerr = 0;
    substdio_fdbuf(&qqt.ss, h_write, -1, qqt.buf, sizeof qqt.buf);
    databytes = q2 ? strtoul(q2 + 1, 0, 10) : 0;         /* as smtp_data() arms the size limit */
    bytestooverflow = databytes ? databytes + 1 : 0;
    if (!setjmp(h_jmp)) {
      blast(&hops);
      substdio_flush(&qqt.ss);
      fputs("D ", h_res); h_puthex(h_out, h_outlen); fputc(' ', h_res);
      h_puthex(h_in + (h_inpos - ssin.p), h_inlen - (h_inpos - ssin.p));
      fprintf(h_res, " %d", hops);
      if (databytes) fprintf(h_res, " F%d", qqt.flagerr);
      fputc('\n', h_res);
    } else if (h_code == 1000) {
      substdio_flush(&qqt.ss);
      fputs("N ", h_res); h_puthex(h_out, h_outlen); fputc('\n', h_res);
    } else if (h_code == 1 && h_replylen >= 3 && !memcmp(h_reply, "451", 3)) fputs("X\n", h_res);
    else fprintf(h_res, "E %d\n", h_code);
  }
  fflush(h_res);
  return 0;
}
