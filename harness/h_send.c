/* function harness for qmail-send.c rewrite()/senderadd()/stripvdomprepend()/addbounce()/injectbounce()
   with the control files read by the real getcontrols()/regetcontrols().
   usage: h_send <qmail home>   (control files are (re)written by the caller before "ctl"/"reread")
     ctl                      -> calls getcontrols() ; prints "ok"/"fail"
     reread                   -> calls regetcontrols()
     rw <hex recip>           -> "L <hex>" | "R <hex>" | "E"
     sadd <hex sender> <hex recip> -> hex
     svp <hex recip>          -> hex
     bounce <hex recip> <hex report> -> hex of what addbounce() appended to bounce/<id>
     inject <hex sender>      -> runs injectbounce(id) with a bounce file present; "ret=<r> bouncefile=<0|1>" (QMAILQUEUE captures the rest) */
#include "h_common.h"
#include <sys/stat.h>
#include <sys/syscall.h>
ssize_t write(int fd, const void *buf, size_t n) { if (fd == 0) return n; return syscall(SYS_write, fd, buf, n); }
#define main x_main
#include "qmail-send.c"
#undef main
static unsigned char a1[1 << 18], a2[1 << 18];
int main(int argc, char **argv) {
  static char line[1 << 20]; FILE *cmd; int nul; unsigned long id = 4242;
  h_init();
  cmd = fdopen(dup(0), "r"); nul = open("/dev/null", O_WRONLY); dup2(nul, 0);
  if (argc < 2 || chdir(argv[1]) == -1) return 111;
  fnmake_init();
  while (fgets(line, sizeof line, cmd)) {
    char *p = strchr(line, ' '), *q = p ? strchr(p + 1, ' ') : 0; size_t n1 = 0, n2 = 0;
    line[strcspn(line, "\n")] = 0;
    if (p) { n1 = h_unhex(p + 1, a1); a1[n1] = 0; }
    if (q) { n2 = h_unhex(q + 1, a2); a2[n2] = 0; }
    if (!strncmp(line, "ctl", 3)) { if (chdir(argv[1]) == -1) return 111; fputs(getcontrols() ? "ok\n" : "fail\n", h_res); if (chdir("queue") == -1) return 111; }
    else if (!strncmp(line, "reread", 6)) { if (chdir(argv[1]) == -1) return 111; regetcontrols(); if (chdir("queue") == -1) return 111; fputs("ok\n", h_res); }
    else if (!strncmp(line, "rw ", 3)) {
      int r = rewrite((char *) a1);
      if (!r) fputs("E\n", h_res);
      else { fputs(r == 1 ? "L " : "R ", h_res); h_puthex((unsigned char *) rwline.s + 1, rwline.len - 2); fputc('\n', h_res); }
    } else if (!strncmp(line, "sadd ", 5)) {
      static stralloc sa = {0}; stralloc_copys(&sa, ""); senderadd(&sa, (char *) a1, (char *) a2);
      h_puthex((unsigned char *) sa.s, sa.len); fputc('\n', h_res);
    } else if (!strncmp(line, "svp ", 4)) {
      char *r = stripvdomprepend((char *) a1); h_puthex((unsigned char *) r, strlen(r)); fputc('\n', h_res);
    } else if (!strncmp(line, "bounce ", 7)) {
      int fd; static unsigned char b[1 << 19]; int bl;
      fnmake2_bounce(id); unlink(fn2.s);
      addbounce(id, (char *) a1, (char *) a2);
      fnmake2_bounce(id); fd = open(fn2.s, O_RDONLY); bl = fd >= 0 ? read(fd, b, sizeof b) : 0; if (fd >= 0) close(fd); unlink(fn2.s);
      h_puthex(b, bl > 0 ? bl : 0); fputc('\n', h_res);
    } else if (!strncmp(line, "inject ", 7)) {
      int fd, r; struct stat st;
      fnmake_info(id); fd = open(fn.s, O_WRONLY | O_CREAT | O_TRUNC, 0600); write(fd, "F", 1); write(fd, a1, n1 + 1); close(fd);
      fnmake_mess(id); fd = open(fn.s, O_WRONLY | O_CREAT | O_TRUNC, 0600); write(fd, "Subject: orig\n\nbody\n", 20); close(fd);
      fnmake2_bounce(id); fd = open(fn2.s, O_WRONLY | O_CREAT | O_TRUNC, 0600); write(fd, "<x@y>:\nfailed\n\n", 15); close(fd);
      r = injectbounce(id);
      fnmake2_bounce(id);
      fprintf(h_res, "ret=%d bouncefile=%d\n", r, stat(fn2.s, &st) == 0);
      unlink(fn2.s); fnmake_info(id); unlink(fn.s); fnmake_mess(id); unlink(fn.s);
    } else fputs("?\n", h_res);
    fflush(h_res);
  }
  return 0;
}
