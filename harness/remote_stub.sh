#!/bin/sh
# stand-in for qmail-remote, selected with QMAILREMOTE: host sender recip..., report on fd 1.
# The recipient's local part chooses what it reports and how it ends; "late*" close the report
# pipe first and fail afterwards (checks/C09.py spawner stream).
ok_report() { printf 'r\000K127.0.0.1 accepted message.\nRemote host said: 250 queued\n\000'; }
case "$3" in
  ok@*)        ok_report; exit 0 ;;
  x100@*)      ok_report; exit 100 ;;
  x111@*)      ok_report; exit 111 ;;
  x1@*)        ok_report; exit 1 ;;
  crash@*)     ok_report; kill -KILL $$ ;;
  late0@*)     ok_report; exec >&- 2>&-; sleep 0.3; exit 0 ;;
  late100@*)   ok_report; exec >&- 2>&-; sleep 0.3; exit 100 ;;
  late111@*)   ok_report; exec >&- 2>&-; sleep 0.3; exit 111 ;;
  latecrash@*) ok_report; exec >&- 2>&-; sleep 0.3; kill -KILL $$ ;;
  hard@*)      printf 'h127.0.0.1 does not like recipient.\nRemote host said: 550 no\n\000DGiving up on 127.0.0.1.\n\000'; exit 0 ;;
  soft@*)      printf 's127.0.0.1 does not like recipient.\nRemote host said: 450 later\n\000ZGiving up on 127.0.0.1.\n\000'; exit 0 ;;
  silent@*)    exit 0 ;;
esac
exit 111
