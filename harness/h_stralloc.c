/* the real stralloc growth functions on states given by the caller.
   rp|rdy <null01> <a> <len> <n>   : stralloc_readyplus / stralloc_ready on {s = null ? 0 : block, a, len}; the block is
                                     real only up to min(a, 65536) bytes - these two functions never touch the bytes
   catb|copyb <null01> <a> <len> <n> : honest states only (a <= 65536, len <= a) unless the call must be refused
   append <null01> <a> <len>
   -> "<ok01> <a'|N> <len'>" */
#include "h_common.h"
#include "stralloc.h"
int main(void) {
  static char line[4096]; static char src[70000];
  h_init();
  while (fgets(line, sizeof line, stdin)) {
    char cmd[16]; int nul; unsigned long a, len, n = 0; stralloc sa; int r = -1;
    if (sscanf(line, "%15s %d %lu %lu %lu", cmd, &nul, &a, &len, &n) < 4) { fputs("?\n", h_res); continue; }
    sa.s = nul ? 0 : malloc(a < 65536 ? (a ? a : 1) : 65536); sa.a = (unsigned int) a; sa.len = (unsigned int) len;
    if (!strcmp(cmd, "rp")) r = stralloc_readyplus(&sa, (unsigned int) n);
    else if (!strcmp(cmd, "rdy")) r = stralloc_ready(&sa, (unsigned int) n);
    else if (!strcmp(cmd, "catb")) r = stralloc_catb(&sa, src, (unsigned int) n);
    else if (!strcmp(cmd, "copyb")) r = stralloc_copyb(&sa, src, (unsigned int) n);
    else if (!strcmp(cmd, "append")) r = stralloc_append(&sa, "x");
    if (sa.s) fprintf(h_res, "%d %u %u\n", r ? 1 : 0, sa.a, sa.len); else fprintf(h_res, "%d N %u\n", r ? 1 : 0, sa.len);
    if (sa.s) free(sa.s);
    fflush(h_res);
  }
  return 0;
}
