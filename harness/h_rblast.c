/* function harness for qmail-remote.c blast(): the real function, with the two substdio
   endpoints replaced by memory buffers.  Protocol: "enc <hex msg> <chunk>" ->
   "S <hex out>" (returned normally) | "P" (perm_partialline) | "E <code>" (other exit) */
#include "h_common.h"
static jmp_buf h_jmp;
static int h_code;
static void h_exit(int c) { h_code = c; longjmp(h_jmp, 1); }
#define _exit(c) h_exit(c)
#define main x_main
#include "qmail-remote.c"
#undef main

static unsigned char *h_in; static size_t h_inlen, h_inpos, h_chunk;
static unsigned char *h_out; static size_t h_outlen, h_outcap;
static ssize_t h_read(int fd, char *buf, size_t len) {
  size_t n = h_inlen - h_inpos;
  if (n > len) n = len;
  if (h_chunk && n > h_chunk) n = h_chunk;
  memcpy(buf, h_in + h_inpos, n); h_inpos += n; return n;
}
static ssize_t h_write(int fd, const char *buf, size_t len) {
  if (h_outlen + len > h_outcap) { h_outcap = 2 * (h_outlen + len) + 64; h_out = realloc(h_out, h_outcap); }
  memcpy(h_out + h_outlen, buf, len); h_outlen += len; return len;
}
static char h_outbuf[1024];
static ssize_t h_write1(int fd, const char *buf, size_t len) {
  /* what the code reports on fd 1 (e.g. the D... text of perm_partialline) */
  if (len && !h_outbuf[0]) h_outbuf[0] = buf[0];
  return len;
}
int main(void) {
  static char line[1 << 22]; static unsigned char in[1 << 21];
  static char sso[256];
  h_init();
  while (fgets(line, sizeof line, stdin)) {
    char *p = strchr(line, ' '); if (!p) continue;
    char *q = strchr(p + 1, ' ');
    h_in = in; h_inlen = h_unhex(p + 1, in); h_inpos = 0; h_chunk = q ? atoi(q + 1) : 0;
    h_outlen = 0; h_outbuf[0] = 0;
    { substdio tin = SUBSTDIO_FDBUF(h_read, -1, inbuf, sizeof inbuf);
      substdio tto = SUBSTDIO_FDBUF(h_write, -1, smtptobuf, sizeof smtptobuf);
      ssin = tin; smtpto = tto; }
    { static substdio so = SUBSTDIO_FDBUF(h_write1, 1, sso, sizeof sso); *subfdoutsmall = so; }
    flagcritical = 0;
    if (!setjmp(h_jmp)) {
      blast();
      fputs("S ", h_res); h_puthex(h_out, h_outlen); fputc('\n', h_res);
    } else {
      if (h_code == 0 && h_outbuf[0] == 'D') fputs("P\n", h_res);
      else fprintf(h_res, "E %d %c\n", h_code, h_outbuf[0] ? h_outbuf[0] : '?');
    }
  }
  fflush(h_res);
  return 0;
}
