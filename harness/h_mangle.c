/* qmail-remote.c addrmangle(): "mangle <hex>" -> <hex> */
#include "h_common.h"
static jmp_buf h_jmp;
static int h_code;
static void h_exit(int c) { h_code = c; longjmp(h_jmp, 1); }
#define _exit(c) h_exit(c)
#define main x_main
#include "qmail-remote.c"
#undef main
int main(void) {
  static char line[1 << 20]; static unsigned char a[1 << 19]; static stralloc out = {0};
  h_init();
  while (fgets(line, sizeof line, stdin)) {
    char *p = strchr(line, ' '); size_t n;
    if (!p) { fputs("?\n", h_res); continue; }
    n = h_unhex(p + 1, a); a[n] = 0;
    if (!setjmp(h_jmp)) { addrmangle(&out, (char *)a); h_puthex((unsigned char *)out.s, out.len); fputc('\n', h_res); }
    else fputs("E\n", h_res);
  }
  fflush(h_res); return 0;
}
