/* the real leaf functions that tools/c2gallina.py translates, behind one line protocol (validation of the translator):
     cm_hash H | cdb_hash H | hashadd h c | unpack H4 | pack n | case_diffb Ha Hb | case_lowerb H | byte_chr H c | byte_rchr H c |
     str_chr H c | str_rchr H c | scan_ulong H | scan_8long H | fmt_ulong u | fmt_uint0 u n | fmt_str H | byte_copy H n | byte_copyr H n |
     byte_zero H n | str_start Ha Hb | case_diffs Ha Hb | case_starts Ha Hb | ip_scan H | ip_scanbracket H | ip_fmt H4 | quote_doit H |
     safeput H | fmtqfn Hdir id flagsplit          (H = hex bytes; strings get a NUL appended) */
#include "h_common.h"
#include "constmap.c"
#include "cdb.h"
#include "cdbmake.h"
#include "byte.h"
#include "str.h"
#include "scan.h"
#include "fmt.h"
#include "ip.h"
#include "stralloc.h"
#define quote h_quote_unused
#include "quote.c"
#undef quote
#include "fmtqfn.h"
#include "auto_split.h"
/* received.c with its output captured: qmail_put/qmail_puts of safeput() and received() append to h_qq */
static unsigned char h_qq[1 << 17]; static size_t h_qqlen;
#include "qmail.h"
#define qmail_put h_qmail_put
static void h_qmail_put(struct qmail *qq, const char *s, unsigned int n) { (void) qq; memcpy(h_qq + h_qqlen, s, n); h_qqlen += n; }
#include "received.c"
#undef qmail_put
static unsigned char a[1 << 16], b[1 << 16];
int main(void) {
  static char line[1 << 18];
  h_init();
  while (fgets(line, sizeof line, stdin)) {
    char *tok[4]; int nt = 0; char *p = line; size_t la, lb;
    line[strcspn(line, "\n")] = 0;
    while (nt < 4 && p && *p) { tok[nt++] = p; p = strchr(p, ' '); if (p) *p++ = 0; }
    if (nt < 2) { fputs("?\n", h_res); continue; }
#define IS(x) (!strcmp(tok[0], x))
    if (IS("cm_hash")) { la = h_unhex(tok[1], a); fprintf(h_res, "%lu\n", (unsigned long) hash((char *) a, la)); }
    else if (IS("cdb_hash")) { la = h_unhex(tok[1], a); fprintf(h_res, "%lu\n", (unsigned long) cdb_hash(a, la)); }
    else if (IS("hashadd")) fprintf(h_res, "%lu\n", (unsigned long) cdbmake_hashadd((uint32) strtoul(tok[1], 0, 10), (unsigned int) atoi(tok[2])));
    else if (IS("unpack")) { h_unhex(tok[1], a); fprintf(h_res, "%lu\n", (unsigned long) cdb_unpack(a)); }
    else if (IS("pack")) { cdbmake_pack(a, (uint32) strtoul(tok[1], 0, 10)); h_puthex(a, 4); fputc('\n', h_res); }
    else if (IS("case_diffb")) { la = h_unhex(tok[1], a); h_unhex(tok[2], b); fprintf(h_res, "%d\n", case_diffb((char *) a, la, (char *) b)); }
    else if (IS("case_lowerb")) { la = h_unhex(tok[1], a); case_lowerb((char *) a, la); h_puthex(a, la); fputc('\n', h_res); }
    else if (IS("byte_chr")) { la = h_unhex(tok[1], a); fprintf(h_res, "%u\n", byte_chr((char *) a, la, atoi(tok[2]))); }
    else if (IS("byte_rchr")) { la = h_unhex(tok[1], a); fprintf(h_res, "%u\n", byte_rchr((char *) a, la, atoi(tok[2]))); }
    else if (IS("str_chr")) { la = h_unhex(tok[1], a); a[la] = 0; fprintf(h_res, "%u\n", str_chr((char *) a, atoi(tok[2]))); }
    else if (IS("str_rchr")) { la = h_unhex(tok[1], a); a[la] = 0; fprintf(h_res, "%u\n", str_rchr((char *) a, atoi(tok[2]))); }
    else if (IS("scan_ulong")) { unsigned long u = 77; unsigned int r; la = h_unhex(tok[1], a); a[la] = 0; r = scan_ulong((char *) a, &u); fprintf(h_res, "%u %lu\n", r, u); }
    else if (IS("scan_8long")) { unsigned long u = 77; unsigned int r; la = h_unhex(tok[1], a); a[la] = 0; r = scan_8long((char *) a, &u); fprintf(h_res, "%u %lu\n", r, u); }
    else if (IS("fmt_ulong")) { unsigned int r0 = fmt_ulong(0, strtoul(tok[1], 0, 10)), r = fmt_ulong((char *) a, strtoul(tok[1], 0, 10)); fprintf(h_res, "%u %u ", r0, r); h_puthex(a, r); fputc('\n', h_res); }
    else if (IS("fmt_uint0")) { unsigned int r = fmt_uint0((char *) a, (unsigned int) strtoul(tok[1], 0, 10), (unsigned int) atoi(tok[2])); fprintf(h_res, "%u ", r); h_puthex(a, r); fputc('\n', h_res); }
    else if (IS("fmt_str")) { unsigned int r; la = h_unhex(tok[1], a); a[la] = 0; r = fmt_str((char *) b, (char *) a); fprintf(h_res, "%u ", r); h_puthex(b, r); fputc('\n', h_res); }
    else if (IS("byte_copy") || IS("byte_copyr")) { int n; la = h_unhex(tok[1], a); n = atoi(tok[2]); memset(b, 0x2e, la); if (IS("byte_copy")) byte_copy((char *) b, n, (char *) a); else byte_copyr((char *) b, n, (char *) a); h_puthex(b, la); fputc('\n', h_res); }
    else if (IS("byte_zero")) { la = h_unhex(tok[1], a); byte_zero((char *) a, atoi(tok[2])); h_puthex(a, la); fputc('\n', h_res); }
    else if (IS("str_start")) { la = h_unhex(tok[1], a); a[la] = 0; lb = h_unhex(tok[2], b); b[lb] = 0; fprintf(h_res, "%d\n", str_start((char *) a, (char *) b)); }
    else if (IS("case_diffs")) { int r; la = h_unhex(tok[1], a); a[la] = 0; lb = h_unhex(tok[2], b); b[lb] = 0; r = case_diffs((char *) a, (char *) b); fprintf(h_res, "%d\n", r < 0 ? -1 : r > 0); }
    else if (IS("case_starts")) { la = h_unhex(tok[1], a); a[la] = 0; lb = h_unhex(tok[2], b); b[lb] = 0; fprintf(h_res, "%d\n", case_starts((char *) a, (char *) b)); }
    else if (IS("ip_scan") || IS("ip_scanbracket")) { struct ip_address ip; unsigned int r; la = h_unhex(tok[1], a); a[la] = 0; memset(&ip, 0, sizeof ip);
      r = IS("ip_scan") ? ip_scan((char *) a, &ip) : ip_scanbracket((char *) a, &ip); fprintf(h_res, "%u ", r); h_puthex(ip.d, 4); fputc('\n', h_res); }
    else if (IS("ip_fmt")) { struct ip_address ip; unsigned int r; h_unhex(tok[1], ip.d); r = ip_fmt((char *) a, &ip); fprintf(h_res, "%u ", r); h_puthex(a, r); fputc('\n', h_res); }
    else if (IS("quote_doit")) { static stralloc out = {0}, in = {0}; int r; la = h_unhex(tok[1], a); stralloc_copyb(&in, (char *) a, la); r = doit(&out, &in); fprintf(h_res, "%d %u ", r, out.len); h_puthex((unsigned char *) out.s, out.len); fputc('\n', h_res); }
    else if (IS("safeput")) { la = h_unhex(tok[1], a); a[la] = 0; h_qqlen = 0; safeput((struct qmail *) 0, (char *) a); h_puthex(h_qq, h_qqlen); fputc('\n', h_res); }
    else if (IS("fmtqfn")) { unsigned int r0, r; la = h_unhex(tok[1], a); a[la] = 0; memset(b, 0x2e, 300);
      r0 = fmtqfn((char *) 0, (char *) a, strtoul(tok[2], 0, 10), atoi(tok[3])); r = fmtqfn((char *) b, (char *) a, strtoul(tok[2], 0, 10), atoi(tok[3]));
      fprintf(h_res, "%u %u %d ", r0, r, auto_split); h_puthex(b, r); fputc('\n', h_res); }
    else fputs("?\n", h_res);
    fflush(h_res);
  }
  return 0;
}
