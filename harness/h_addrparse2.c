/* qmail-smtpd.c addrparse() with localiphost: "ipme" -> hex of the host's own addresses as ipme_init() found them (4 bytes each);
   "ap <hex arg> <liphostok 0|1> <hex liphost>" -> "S <hex addr>" | "F" | "E" */
#include "h_common.h"
static jmp_buf h_jmp;
static int h_code;
static void h_exit(int c) { h_code = c; longjmp(h_jmp, 1); }
#define _exit(c) h_exit(c)
#define main x_main
#include "qmail-smtpd.c"
#undef main
#include "ipalloc.h"
extern ipalloc ipme;
int main(void) {
  static char line[1 << 20]; static unsigned char a[1 << 19], l[1 << 12];
  h_init();
  if (ipme_init() != 1) { fputs("ipme_init failed\n", h_res); fflush(h_res); return 1; }
  while (fgets(line, sizeof line, stdin)) {
    char *tok[4]; int nt = 0; char *p = line; size_t n, nl;
    line[strcspn(line, "\n")] = 0;
    while (nt < 4 && p && *p) { tok[nt++] = p; p = strchr(p, ' '); if (p) *p++ = 0; }
    if (nt == 1 && !strcmp(tok[0], "ipme")) { unsigned int i; if (!ipme.len) fputc('-', h_res); for (i = 0; i < ipme.len; i++) h_puthex(ipme.ix[i].ip.d, 4); fputc('\n', h_res); fflush(h_res); continue; }
    if (nt < 4) { fputs("?\n", h_res); continue; }
    n = h_unhex(tok[1], a); a[n] = 0;
    liphostok = atoi(tok[2]); nl = h_unhex(tok[3], l);
    if (!stralloc_copyb(&liphost, (char *) l, nl)) return 1;
    if (!setjmp(h_jmp)) {
      if (addrparse((char *)a)) { fputs("S ", h_res); h_puthex((unsigned char *)addr.s, addr.len - 1); fputc('\n', h_res); }
      else fputs("F\n", h_res);
    } else fputs("E\n", h_res);
  }
  fflush(h_res); return 0;
}
