/* qmail-smtpd.c addrparse() without liphost: "aparse <hex arg>" -> "S <hex addr>" | "F" */
#include "h_common.h"
static jmp_buf h_jmp;
static int h_code;
static void h_exit(int c) { h_code = c; longjmp(h_jmp, 1); }
#define _exit(c) h_exit(c)
#define main x_main
#include "qmail-smtpd.c"
#undef main
int main(void) {
  static char line[1 << 20]; static unsigned char a[1 << 19];
  h_init();
  liphostok = 0;
  while (fgets(line, sizeof line, stdin)) {
    char *p = strchr(line, ' '); size_t n;
    if (!p) { fputs("?\n", h_res); continue; }
    n = h_unhex(p + 1, a); a[n] = 0;
    if (!setjmp(h_jmp)) {
      if (addrparse((char *)a)) { fputs("S ", h_res); h_puthex((unsigned char *)addr.s, addr.len - 1); fputc('\n', h_res); }
      else fputs("F\n", h_res);
    } else fputs("E\n", h_res);
  }
  fflush(h_res); return 0;
}
