/* function harness for substdo.c / substdi.c / getln.c with a scripted descriptor:
     out <cap> <script> <ops>     script: comma list of  k<n> (write accepts n+1 bytes at most) | i (EINTR) | e (error) | -
                                  ops:    comma list of  p<hex> (put) | b<hex> (bput) | f (flush) | P<hex> (putflush)
        -> "<ok 1|0> <hex of everything the descriptor accepted> <bytes waiting in the buffer>"   (stops at the first failing op)
     in <cap> <script> <sephex> <srchex>    script: k<n> (read returns at most n+1 bytes) | i | e | -
        -> lines "hex:match" joined by ',' then " <ok 1|0>"      (getln until end of file or error)
     get <cap> <script> <len,len,..> <srchex>  -> "r:hex,..." for successive substdio_get calls, stopping after the first r <= 0  */
#include "h_common.h"
#include "substdio.h"
#include "stralloc.h"
#include "getln.h"
#include "error.h"
static char *scr[1 << 16]; static int nscr, cur;
static unsigned char sink[1 << 22]; static size_t sinklen;
static unsigned char src[1 << 22]; static size_t srclen, srcpos;
static ssize_t w_op(int fd, const char *buf, size_t len) {
  size_t k = len;
  if (cur < nscr) { char *t = scr[cur++]; if (t[0] == 'i') { errno = error_intr; return -1; } if (t[0] == 'e') { errno = EIO; return -1; } if (t[0] == 'k') { k = atoi(t + 1) + 1; if (k > len) k = len; } }
  memcpy(sink + sinklen, buf, k); sinklen += k; return k;
}
static ssize_t r_op(int fd, char *buf, size_t len) {
  size_t k = len, left = srclen - srcpos;
  if (cur < nscr) { char *t = scr[cur++]; if (t[0] == 'i') { errno = error_intr; return -1; } if (t[0] == 'e') { errno = EIO; return -1; } if (t[0] == 'k') { k = atoi(t + 1) + 1; if (k > len) k = len; } }
  if (k > left) k = left;
  memcpy(buf, src + srcpos, k); srcpos += k; return k;
}
static int split(char *s, char **out, int max) { int n = 0; if (!strcmp(s, "-")) return 0; while (n < max && s && *s) { out[n++] = s; s = strchr(s, ','); if (s) *s++ = 0; } return n; }
int main(void) {
  static char line[1 << 23]; static unsigned char data[1 << 22]; static char *ops[1 << 16];
  h_init();
  while (fgets(line, sizeof line, stdin)) {
    char *tok[6]; int nt = 0; char *p = line;
    line[strcspn(line, "\n")] = 0;
    while (nt < 6 && p && *p) { tok[nt++] = p; p = strchr(p, ' '); if (p) *p++ = 0; }
    if (nt >= 4 && !strcmp(tok[0], "out")) {
      int cap = atoi(tok[1]), nops, i, ok = 1; substdio ss; char *x = malloc(cap + 1);
      nscr = split(tok[2], scr, 1 << 16); cur = 0; sinklen = 0;
      nops = split(tok[3], ops, 1 << 16);
      substdio_fdbuf(&ss, w_op, 1, x, cap);
      for (i = 0; i < nops && ok; i++) {
        size_t n = ops[i][0] == 'f' ? 0 : h_unhex(ops[i] + 1, data); int r = 0;
        if (ops[i][1] == '-' || ops[i][1] == 0) n = 0;
        switch (ops[i][0]) { case 'p': r = substdio_put(&ss, (char *) data, n); break; case 'b': r = substdio_bput(&ss, (char *) data, n); break;
                             case 'f': r = substdio_flush(&ss); break; case 'P': r = substdio_putflush(&ss, (char *) data, n); break; }
        if (r == -1) ok = 0;
      }
      fprintf(h_res, "%d ", ok); h_puthex(sink, sinklen); fprintf(h_res, " %d\n", ss.p); free(x);
    } else if (nt >= 5 && !strcmp(tok[0], "in")) {
      int cap = atoi(tok[1]); substdio ss; char *x = malloc(cap + 1); static stralloc sa = {0}; int match, first = 1, ok = 1; unsigned char sep[4];
      nscr = split(tok[2], scr, 1 << 16); cur = 0; h_unhex(tok[3], sep); srclen = h_unhex(tok[4], src); srcpos = 0;
      substdio_fdbuf(&ss, r_op, 0, x, cap);
      for (;;) {
        if (getln(&ss, &sa, &match, sep[0]) == -1) { ok = 0; break; }
        if (!first) fputc(',', h_res); first = 0;
        h_puthex((unsigned char *) sa.s, sa.len); fprintf(h_res, ":%d", match);
        if (!match) break;
      }
      if (first) fputc('-', h_res);
      fprintf(h_res, " %d\n", ok); free(x);
    } else if (nt >= 5 && !strcmp(tok[0], "get")) {
      /* get <cap> <script> <len,len,...> <srchex>: successive substdio_get calls -> "r:hex,r:hex,..." (stops after the first r <= 0) */
      int cap = atoi(tok[1]), nl, i; substdio ss; char *x = malloc(cap + 1); static char *lens[1 << 12]; static unsigned char out[1 << 16];
      nscr = split(tok[2], scr, 1 << 16); cur = 0; nl = split(tok[3], lens, 1 << 12); srclen = h_unhex(tok[4], src); srcpos = 0;
      substdio_fdbuf(&ss, r_op, 0, x, cap);
      for (i = 0; i < nl; i++) {
        ssize_t r = substdio_get(&ss, (char *) out, atoi(lens[i]));
        if (i) fputc(',', h_res);
        fprintf(h_res, "%zd:", r); h_puthex(out, r > 0 ? (size_t) r : 0);
        if (r <= 0) break;
      }
      if (!nl) fputc('-', h_res);
      fputc('\n', h_res); free(x);
    } else fputs("?\n", h_res);
    fflush(h_res);
  }
  return 0;
}
