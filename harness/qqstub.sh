#!/bin/sh
# stand-in for qmail-queue: message on fd 0 -> $QQOUT.msg, envelope on fd 1 -> $QQOUT.env,
# exit status from $QQOUT.exit (default 0); optional custom error text $QQOUT.err goes to fd 6
cat > "$QQOUT.msg"
cat <&1 > "$QQOUT.env"
if [ -f "$QQOUT.err" ]; then cat "$QQOUT.err" >&6 2>/dev/null; fi
if [ -f "$QQOUT.exit" ]; then exit "$(cat "$QQOUT.exit")"; fi
exit 0
