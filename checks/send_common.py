"""shared by C10 and C14: control-file generators and the h_send harness wrapper"""
import os, subprocess
import vlib

DOMS = [b"a.dom", b"b.a.dom", b"c.b.a.dom", b"x.org", b"hack.dom", b"hack2.dom", b"local.dom", b"me.too", b"w.dom", b"sub.w.dom", b"z", b"me.host"]
USERS = [b"joe", b"ann", b"list", b"u.v", b"o"]
TAGS = [b"tag", b"alice", b"v-list", b"t2", b"X"]

def flipcase(rng, b):
    return bytes((c ^ 0x20) if (65 <= c <= 90 or 97 <= c <= 122) and rng.random() < 0.3 else c for c in b)

def gen_ctl(rng):
    locs = rng.sample(DOMS, rng.randint(0, 3))
    pct = rng.sample(DOMS, rng.randint(0, 3))
    keys = set()
    vd = []
    for _ in range(rng.randint(0, 6)):
        kind = rng.random()
        d = rng.choice(DOMS)
        if kind < 0.25:
            k = rng.choice(USERS) + b"@" + d
        elif kind < 0.55:
            k = d
        elif kind < 0.8:
            k = b"." + d
        elif kind < 0.9:
            k = b""
        else:
            k = b"." + d.split(b".", 1)[-1]
        if k.lower() in keys:
            continue
        keys.add(k.lower())
        tag = b"" if rng.random() < 0.15 else rng.choice(TAGS)
        vd.append(flipcase(rng, k) + b":" + tag)
    def render(lines, colon=False):
        out = b""
        for l in lines:
            if rng.random() < 0.1:
                out += b"# comment\n"
            if rng.random() < 0.1:
                out += b"\n"
            out += l + rng.choice([b"", b"", b" ", b"\t ", b"  "]) + b"\n"
        if out and rng.random() < 0.1:
            out = out[:-1]
        return out
    if rng.random() < 0.1:
        vd.append(b"nocolonline")
    return dict(env=rng.choice([b"def.host", b"local.dom", b"hack.dom", b"a.dom"]),
                locals=render([flipcase(rng, l) for l in locs]), pct=render([flipcase(rng, p) for p in pct]), vdoms=render(vd))

def gen_recips(rng, n):
    out = []
    for _ in range(n):
        u = rng.choice(USERS)
        d = rng.choice(DOMS)
        k = rng.random()
        if k < 0.3:
            r = u + b"@" + d
        elif k < 0.4:
            r = u
        elif k < 0.5:
            r = u + b"@"
        elif k < 0.7:
            r = u + b"%" + rng.choice(DOMS) + b"@" + d
        elif k < 0.8:
            r = u + b"%" + rng.choice(DOMS) + b"%" + rng.choice(DOMS) + b"@" + d
        elif k < 0.85:
            r = u + b"@" + rng.choice(DOMS) + b"@" + d
        elif k < 0.9:
            r = u + b"%" + rng.choice(USERS) + b"@" + rng.choice(DOMS) + b"%" + rng.choice(DOMS) + b"@" + d
        elif k < 0.95:
            r = u + b"@x." + d
        else:
            r = rng.choice(TAGS) + b"-" + u + b"@" + d
        out.append(flipcase(rng, r))
    return out

class SendHarness:
    def __init__(self, rb, home=None):
        self.rb = rb
        self.home = home or rb.make_home()
        self.exe = rb.harness("h_send", "qmail-send")
        self.qqout = os.path.join(vlib.scratch(), "qqout")
        open(os.path.join(self.home, "control", "me"), "wb").write(b"me.host\n")
        env = dict(os.environ, QMAILQUEUE=os.path.join(vlib.VERIF, "harness", "qqstub.sh"), QQOUT=self.qqout)
        self.p = subprocess.Popen([self.exe, self.home], stdin=subprocess.PIPE, stdout=subprocess.PIPE, env=env)
    def cmd(self, line):
        self.p.stdin.write((line + "\n").encode()); self.p.stdin.flush()
        return self.p.stdout.readline().decode().rstrip("\n")
    def write_ctl(self, c):
        cd = os.path.join(self.home, "control")
        for f, k in (("envnoathost", "env"), ("locals", "locals"), ("percenthack", "pct"), ("virtualdomains", "vdoms")):
            p = os.path.join(cd, f)
            if c.get(k) is None:
                if os.path.exists(p):
                    os.remove(p)
            else:
                open(p, "wb").write(c[k] + (b"\n" if k == "env" else b""))
    def close(self):
        try:
            self.p.stdin.close(); self.p.wait(timeout=5)
        except Exception:
            self.p.kill()

def ctl_eff(c):
    """what the documented defaults make of absent control files: locals and envnoathost default to me, the others to empty"""
    return dict(c, env=b"me.host" if c.get("env") is None else c["env"], locals=b"me.host\n" if c.get("locals") is None else c["locals"],
                pct=c.get("pct") or b"", vdoms=c.get("vdoms") or b"")

def gen_absent(rng, c):
    """some control files absent (the documented minimal installation has only control/me)"""
    c = dict(c)
    for k, pr in (("locals", 0.25), ("vdoms", 0.15), ("env", 0.15), ("pct", 0.15)):
        if rng.random() < pr: c[k] = None
    return c

def ctl_args(c):
    c = ctl_eff(c)
    return "%s %s %s %s" % (vlib.hx(c["env"]), vlib.hx(c["locals"]), vlib.hx(c["pct"]), vlib.hx(c["vdoms"]))
