"""Shared by C02/C03/C04: scenarios with the real qmail-queue, qmail-send and qmail-clean under the interposer,
translation of the interposer's system-call log into the events of coq/Queue/QueueSpec.v, and oracles that
look at the real queue directory."""
import os, re, signal, stat, subprocess, time
import vlib
import daemon_common as dc

FILES = ["mess", "intd", "todo", "info", "local", "remote", "bounce"]
SPLIT = 23

def qpath(home, d, n):
    if d in ("intd", "todo", "bounce"): return os.path.join(home, "queue", d, str(n))
    return os.path.join(home, "queue", d, str(n % SPLIT), str(n))

def listing(home):
    """{n: {file: (inode, size)}} for every message number present anywhere in the queue"""
    out = {}
    q = os.path.join(home, "queue")
    for d in FILES:
        base = os.path.join(q, d)
        subs = [base] if d in ("intd", "todo", "bounce") else [os.path.join(base, s) for s in os.listdir(base)]      # bounce/ is not split
        for sd in subs:
            try: names = os.listdir(sd)
            except OSError: continue
            for x in names:
                if not x.isdigit(): continue
                try: st = os.lstat(os.path.join(sd, x))
                except OSError: continue
                out.setdefault(int(x), {})[d] = (st.st_ino, st.st_size)
    return out

def pattern_documented(fs):
    """INTERNALS.md section 2"""
    h = lambda f: f in fs
    if not fs: return "S1"
    if not h("mess"): return None
    if not h("todo") and not h("info") and not h("local") and not h("remote") and not h("bounce"):
        return "S3" if h("intd") else "S2"
    if h("todo") and not h("bounce"): return "S4"
    if not h("intd") and not h("todo") and h("info"): return "S5"
    return None

def records(path):
    """[(status, address)] of a local/ or remote/ file"""
    try: b = open(path, "rb").read()
    except OSError: return None
    out = []
    for r in b.split(b"\0"):
        if r: out.append((r[:1].decode("latin1"), r[1:]))
    return out

class Translator:
    """system-call log lines -> QueueSpec events (strings for extract/C02_driver.ml)"""
    def __init__(self, aged=()):
        self.fds = {}            # pid -> {fd: path}
        self.send = None; self.clean = None
        self.pre = None          # message being preprocessed by qmail-send
        self.chanbuf = {}        # (n, chan) -> bytes written during preprocessing
        self.recs = {}           # n -> [[addr...], [addr...]]
        self.state = {}          # (n, c, i) -> "T" | "D"
        self.inflight = {}       # (c, slot) -> (n, i)
        self.owed = []           # [(n, c, i, v)]
        self.cmdbuf = {0: b"", 1: b""}; self.repbuf = {0: b"", 1: b""}
        self.intd_content = {}   # pid -> bytes written to its intd file
        self.injn = {}           # pid -> n
        self.bouncing = None     # n whose bounce the daemon is injecting
        self.bounce_children = set()
        self.bounce_committed = False
        self.todo_present = set()
        self.aged = set(aged)
        self.events = []         # (event string, log line index)
        self.markpos = {}        # (pid, fd) -> last lseek position
        self.recs_emitted = set()
        self.notes = []
        self.marked = set()          # (n, 'l'|'r', address) whose completion mark was written
        self.passidx = {}            # (n, chan) -> record index of the last delivery command
        self.skip = {0: 0, 1: 0}     # bytes of the spawner's start-up announcement still to be skipped
        self.alias = {}              # big numbers (inodes, pids) -> small ones for the extracted automaton
    def al(self, n):
        if n not in self.alias: self.alias[n] = len(self.alias) + 1
        return self.alias[n]
    def emit(self, e, k):
        w = e.split(" ")
        # message numbers and process ids are renamed; channel, slot and record indices are kept
        pos = {"injmess": (1, 2), "injintd": (1, 2), "injcommit": (1, 2), "injabort": (1, 2), "preunlink": (1,), "create": (1,), "sync": (1,),
               "recs": (1,), "cleanintd": (1,), "cleantodo": (1,), "cmd": (3,), "note": (1,), "mark": (1,), "unlinkchan": (1,),
               "bouncequeued": (1,), "bouncediscard": (1,), "unlinkbounce": (1,), "unlinkinfo": (1,), "cleanfoop": (1,)}.get(w[0], ())
        for i in pos: w[i] = str(self.al(int(w[i])))
        self.events.append((" ".join(w), k, e))
    @staticmethod
    def num(path):
        m = re.search(r"(\d+)$", path); return int(m.group(1)) if m else None
    def feed(self, lines, send_pid=None, clean_pid=None):
        if send_pid: self.send = send_pid
        if clean_pid: self.clean = clean_pid
        pids = {}
        for l in lines:
            if l.startswith("0 MARK pids "):
                w = l.split(" "); pids[w[3]] = (int(w[4]), int(w[5]))
        for k, l in enumerate(lines):
            w = l.split(" ")
            if len(w) < 2: continue
            if w[0] == "0" and w[1] == "MARK":
                if w[2] == "crash":
                    self.emit("crash", k); self.inflight.clear(); self.owed = []; self.pre = None; self.bouncing = None; self.passidx = {}
                    self.cmdbuf = {0: b"", 1: b""}; self.repbuf = {0: b"", 1: b""}
                elif w[2] == "start":
                    self.emit("start %s %s" % (w[3], w[4]), k); self.skip = {0: 1, 1: 1}
                    if w[5] in pids: self.send, self.clean = pids[w[5]]
                elif w[2] == "aged":
                    self.aged.add(int(w[3]))
                continue
            if not w[0].isdigit(): continue
            pid = int(w[0]); op = w[1]
            fdt = self.fds.setdefault(pid, {})
            if op == "open" and len(w) >= 6:
                path, flags, fd = w[2], int(w[3], 8), int(w[5])
                if fd < 0: continue
                fdt[fd] = (path, flags)
                n = self.num(path); d = path.split("/")[0]
                creat = bool(flags & os.O_CREAT) and bool(flags & os.O_EXCL)
                if pid == self.send:
                    if d == "todo" and n is not None: self.pre = n; self.chanbuf[(n, 0)] = b""; self.chanbuf[(n, 1)] = b""; self.recs_emitted.discard(n)
                    elif d in ("info", "local", "remote") and creat: self.emit("create %d %s" % (n, d), k)
                    elif d == "bounce" and (flags & os.O_ACCMODE) == os.O_RDONLY: self.bouncing = n; self.bounce_committed = False
                    elif d == "bounce" and (flags & os.O_APPEND): self.on_note(n, b"", k)      # the record exists from here on, even if the process dies before writing
                elif d == "intd" and creat:
                    self.injn[pid] = n; self.intd_content[pid] = b""; self.emit("injintd %d %d" % (pid, n), k)
            elif op == "link" and w[-2] == "0" and len(w) >= 6:
                src, dst = w[2], w[3]
                n = self.num(dst); d = dst.split("/")[0]
                if d == "mess": self.injn[pid] = n; self.emit("injmess %d %d" % (pid, n), k)
                elif d == "todo":
                    env = self.intd_content.get(pid, b"")
                    parts = env.split(b"\0")
                    sender = b""; nr = 0
                    for p in parts:
                        if p[:1] == b"F": sender = p[1:]
                        elif p[:1] == b"T": nr += 1
                    self.emit("injcommit %d %d %d %d" % (pid, n, nr, 1 if sender == b"#@[]" else 0), k)
                    self.todo_present.add(n)
                    if self.bouncing is not None and pid != self.send and pid not in (self.clean,) and self.parent_is_send(pid):
                        self.bounce_committed = True
                        self.emit("bouncequeued %d" % self.bouncing, k)
            elif op == "unlink" and len(w) >= 5:
                path, rc = w[2], w[4]
                if rc != "0": continue
                n = self.num(path); d = path.split("/")[0]
                if d == "pid" or n is None: continue
                if pid == self.send:
                    if d in ("info", "local", "remote") and self.pre == n: self.emit("preunlink %d %s" % (n, d), k)
                    elif d in ("local", "remote"): self.emit("unlinkchan %d %d" % (n, 0 if d == "local" else 1), k)
                    elif d == "info": self.emit("unlinkinfo %d" % n, k)
                    elif d == "bounce":
                        if not (self.bouncing == n and self.bounce_committed): self.emit("bouncediscard %d" % n, k)
                        self.emit("unlinkbounce %d" % n, k); self.bouncing = None
                elif pid == self.clean:
                    if d == "intd":
                        if n in self.todo_present: self.emit_recs(n, k); self.emit("cleanintd %d" % n, k)
                        else: self.emit("cleanfoop %d intd %d" % (n, 1 if n in self.aged else 0), k)
                    elif d == "todo":
                        self.emit_recs(n, k); self.emit("cleantodo %d" % n, k); self.todo_present.discard(n)
                        if self.pre == n: self.pre = None
                    elif d == "mess": self.emit("cleanfoop %d mess %d" % (n, 1 if n in self.aged else 0), k)
                else:
                    if d in ("intd", "mess"): self.emit("injabort %d %d %s" % (pid, n, d), k)
            elif op == "fsync" and w[3] == "=" and w[4] == "0":
                fd = int(w[2]); pf = fdt.get(fd)
                if pid == self.send and pf:
                    d = pf[0].split("/")[0]; n = self.num(pf[0])
                    if d in ("info", "local", "remote"): self.emit("sync %d %s" % (n, d), k)
            elif op == "lseek":
                self.markpos[(pid, int(w[2]))] = int(w[3])
            elif op == "write" and len(w) >= 7 and w[2].isdigit():
                fd = int(w[2]); data = b"" if w[4] == "-" else bytes.fromhex(w[4]); rc = int(w[6])
                if rc <= 0: continue
                data = data[:rc] if len(data) >= rc else data
                pf = fdt.get(fd)
                if pid == self.send and fd in (1, 3):
                    self.on_cmd(0 if fd == 1 else 1, data, k)
                elif pf:
                    d = pf[0].split("/")[0]; n = self.num(pf[0])
                    if pid == self.send and d in ("local", "remote"):
                        c = 0 if d == "local" else 1
                        if pf[1] & os.O_CREAT: self.chanbuf[(n, c)] = self.chanbuf.get((n, c), b"") + data
                        elif data == b"D":
                            pos = self.markpos.get((pid, fd), 0)
                            self.on_mark(n, c, pos, k)
                    elif d == "intd" and pid != self.send:
                        self.intd_content[pid] = self.intd_content.get(pid, b"") + data
            elif op == "read" and pid == self.send and w[2] in ("2", "4") and len(w) >= 6:
                rc = int(w[5])
                if rc > 0: self.on_rep(0 if w[2] == "2" else 1, bytes.fromhex(w[3])[:rc], k)
            elif op == "close" and w[2].isdigit():
                fdt.pop(int(w[2]), None)
    def parent_is_send(self, pid):
        return True
    def emit_recs(self, n, k):
        if n in self.recs_emitted: return
        rl = []
        for c in (0, 1):
            b = self.chanbuf.get((n, c), b"")
            rl.append([r[1:] for r in b.split(b"\0") if r[:1] == b"T"])
        self.recs[n] = rl; self.recs_emitted.add(n)
        for c in (0, 1):
            for i in range(len(rl[c])): self.state[(n, c, i)] = "T"
        self.emit("recs %d %d %d" % (n, len(rl[0]), len(rl[1])), k)
    def on_cmd(self, c, data, k):
        self.cmdbuf[c] += data
        while True:
            b = self.cmdbuf[c]
            if len(b) < 2: return
            parts = b[1:].split(b"\0", 3)
            if len(parts) < 4: return
            slot = b[0]; self.cmdbuf[c] = parts[3]
            n = self.num(parts[0].decode("latin1")); recip = parts[2]
            cand = [i for i, a in enumerate(self.recs.get(n, [[], []])[c]) if a == recip]
            busy = {(m, i) for (cc, s), (m, i) in self.inflight.items() if cc == c}
            owed = {(m, i) for (m, cc, i, v) in self.owed if cc == c}
            pick = [i for i in cand if self.state.get((n, c, i)) == "T" and (n, i) not in busy and (n, i) not in owed]
            # the same address may occur twice: a pass reads the file front to back, a new pass starts at the top
            last = self.passidx.get((n, c), -1)
            later = [i for i in pick if i > last]
            i = later[0] if later else (pick[0] if pick else (cand[0] if cand else 999))
            self.passidx[(n, c)] = i
            self.inflight[(c, slot)] = (n, i)
            self.emit("cmd %d %d %d %d" % (c, slot, n, i), k)
    def on_rep(self, c, data, k):
        if self.skip[c]:
            data = data[self.skip[c]:]; self.skip[c] = 0
            if not data: return
        self.repbuf[c] += data
        while True:
            b = self.repbuf[c]
            z = b.find(b"\0", 1)
            if z < 0: return
            slot = b[0]; text = b[1:z]; self.repbuf[c] = b[z + 1:]
            v = text[:1].decode("latin1") if text[:1] in (b"K", b"Z", b"D") else "G"
            ni = self.inflight.pop((c, slot), None)
            if ni and v in ("K", "D"): self.owed.append((ni[0], c, ni[1], v))
            self.lastrep = (k, c, slot, v, ni)
            self.emit("rep %d %d %s" % (c, slot, v), k)
    def on_note(self, n, data, k):
        # a paragraph for the most recent failure report of message n not yet noted
        for j in range(len(self.owed)):
            m, c, i, v = self.owed[j]
            if m == n and (m, c, i) not in self.notes:
                if v != "D":
                    continue
                self.notes.append((m, c, i)); self.emit("note %d %d %d" % (n, c, i), k); return
        # a deferral that the daemon turned into a failure (message too old): the report was Z
        lr = getattr(self, "lastrep", None)
        if lr and lr[4] and lr[4][0] == n:
            self.events = [((e, kk, o) if not (kk == lr[0] and e.startswith("rep %d %d " % (lr[1], lr[2]))) else ("rep %d %d D" % (lr[1], lr[2]), kk, o)) for e, kk, o in self.events]
            self.owed.append((n, lr[1], lr[4][1], "D")); self.notes.append((n, lr[1], lr[4][1]))
            self.emit("note %d %d %d" % (n, lr[1], lr[4][1]), k); return
        self.emit("note %d 9 9" % n, k)
    def on_mark(self, n, c, pos, k):
        addrs = self.recs.get(n, [[], []])[c]
        off = 0; idx = None
        for i, a in enumerate(addrs):
            if off == pos: idx = i; break
            off += len(a) + 2
        if idx is None:
            self.emit("mark %d %d 999" % (n, c), k); return
        self.state[(n, c, idx)] = "D"
        self.marked.add((n, "l" if c == 0 else "r", addrs[idx]))
        self.owed = [o for o in self.owed if not (o[0] == n and o[1] == c and o[2] == idx)]
        self.notes = [x for x in self.notes if x != (n, c, idx)]
        self.emit("mark %d %d %d" % (n, c, idx), k)

def accept(drv, events):
    """feed the events to the extracted automaton; returns (index of first rejected event or None, invariant line)"""
    lines = ["reset"] + ["ev " + e[0] for e in events] + ["inv"]
    out, _, _ = vlib.run_lines(drv, lines)
    rej = None
    for i, o in enumerate(out[1:-1]):
        if o != "ok":
            rej = i; break
    if rej is not None:
        # the automaton's view of the message concerned, just before the rejected event
        w = events[rej][0].split(" ")
        num = {"cmd": 3}.get(w[0], 1)
        q = w[num] if len(w) > num and w[0] not in ("rep", "crash", "start") else None
        if w[0] in ("injmess", "injintd", "injcommit", "injabort"): q = w[2]
        if q:
            o2, _, _ = vlib.run_lines(drv, ["reset"] + ["ev " + e[0] for e in events[:rej]] + ["msg " + q])
            return rej, o2[-1]
    return rej, out[-1]

class World:
    """a scratch queue with the real daemons under the interposer; everything is logged to one file"""
    def __init__(self, rb, name="w", gate=False, extra_env=None, conc=(4, 4)):
        self.rb = rb
        self.home = rb.make_home()
        os.chmod(vlib.scratch(), 0o755)
        # a fresh queue for every world
        q = os.path.join(self.home, "queue")
        for d in FILES + ["pid"]:
            for root, _, fs in os.walk(os.path.join(q, d)):
                for f in fs: os.remove(os.path.join(root, f))
        for f, v in [("me", "local.example"), ("locals", "local.example"), ("rcpthosts", "local.example"),
                     ("concurrencylocal", str(conc[0])), ("concurrencyremote", str(conc[1]))]:
            open(os.path.join(self.home, "control", f), "w").write(v + "\n")
        self.log = os.path.join(vlib.scratch(), "%s.%d.log" % (name, len(os.listdir(vlib.scratch()))))
        open(self.log, "w").close()
        ex = {"SYSSHIM_LOGWRITE": "all", "SYSSHIM_LOGDATA": "2048", "SYSSHIM_LOGREAD": "2,4", "SYSSHIM_KILLSIG": "1"}
        if extra_env: ex.update(extra_env)
        self.env = vlib.shim_env(self.home, self.log, extra=ex)
        self.d = None
        self.conc = conc
        self.spawner_limit = (4, 4)
    def mark(self, text):
        with open(self.log, "a") as f: f.write("0 MARK %s\n" % text)
    def start(self, autoreply=None, send_extra=None, announce=(4, 4)):
        senv = dict(self.env, **send_extra) if send_extra else None
        self.nstart = getattr(self, "nstart", 0) + 1
        self.mark("start %d %d s%d" % (min(self.conc[0], announce[0]), min(self.conc[1], announce[1]), self.nstart))
        self.d = dc.Daemon(self.rb, self.home, self.env, autoreply=autoreply, send_env=senv, announce=announce)
        self.announce = announce
        self.mark("pids s%d %d %d" % (self.nstart, self.d.send_pid, self.d.clean_pid))
        return self.d
    def crash(self):
        """the daemon dies before its next mutating system call (or, if it is idle, inside select); then the cleaner"""
        try:
            os.kill(self.d.send_pid, signal.SIGUSR2)
            end = time.time() + 0.3
            while time.time() < end and self.d.alive(): self.d.pump(0.02)
        except ProcessLookupError: pass
        time.sleep(0.03)
        self.d.stop(); self.mark("crash"); self.d = None
    def inject(self, sender=b"s@x.example", rcpts=(b"u@local.example",), msg=b"Subject: t\n\nb\n", env=None, wait=True):
        r0, w0 = os.pipe(); r1, w1 = os.pipe()
        os.write(w0, msg); os.close(w0)
        os.write(w1, b"F" + sender + b"\0" + b"".join(b"T" + r + b"\0" for r in rcpts) + b"\0"); os.close(w1)
        pid = dc._spawn([os.path.join(self.home, "bin", "qmail-queue")], {0: r0, 1: r1, 2: 2}, env or self.env, self.home)
        os.close(r0); os.close(r1)
        if not wait: return pid
        _, st = os.waitpid(pid, 0)
        return os.waitstatus_to_exitcode(st)
    def loglines(self):
        return open(self.log, errors="replace").read().split("\n")
    def alarm(self):
        """SIGALRM: every retry time becomes now"""
        os.kill(self.d.send_pid, signal.SIGALRM)

BOUNCE_RE = re.compile(rb"^<([^>\n]*)>:$", re.M)

class Runner:
    """drives one history: injections, scripted delivery outcomes, signals, crashes; remembers what the spawners saw"""
    def __init__(self, W, plan, default=b"K", announce=(4, 4)):
        self.W = W; self.plan = {k: list(v) for k, v in plan.items()}; self.default = default
        self.accepted = []          # (sender, [rcpts])
        self.cmds = []              # dict(n, chan, rcpt, sender, verdict, gen) in order; gen = daemon generation
        self.gen = 0
        self.bounced = set()        # recipients named in bounce messages seen in the queue
        self.announce = announce
        self.maxfly = {"l": 0, "r": 0}
        self.history = []
    def start(self, send_extra=None):
        self.W.start(autoreply=None, send_extra=send_extra, announce=self.announce); self.gen += 1
        self.history.append("start")
    def inject(self, sender, rcpts, **kw):
        rc = self.W.inject(sender=sender, rcpts=rcpts, **kw)
        self.history.append("inject %s -> %s rc=%d" % (sender.decode("latin1"), ",".join(r.decode("latin1") for r in rcpts), rc))
        if rc == 0: self.accepted.append((sender, list(rcpts)))
        return rc
    def scan_bounces(self):
        base = os.path.join(self.W.home, "queue", "mess")
        for sd in os.listdir(base):
            for f in os.listdir(os.path.join(base, sd)):
                try: b = open(os.path.join(base, sd, f), "rb").read()
                except OSError: continue
                if b"This is the qmail-send program" in b:
                    for m in BOUNCE_RE.findall(b.split(b"--- Below this line")[0]): self.bounced.add(m)
    def service(self, t=0.15, answer=True):
        d = self.W.d
        if d is None: return
        d.pump(t)
        fly = {"l": 0, "r": 0}
        for dl in d.deliveries:
            if not dl["answered"] and not dl.get("lost"): fly[dl["chan"]] += 1
        for k in fly: self.maxfly[k] = max(self.maxfly[k], fly[k])
        self.scan_bounces()
        for dl in d.deliveries:
            if dl.get("seen"): continue
            dl["seen"] = True
            n = int(dl["fn"].split(b"/")[-1])
            rec = dict(n=n, chan=dl["chan"], rcpt=dl["rcpt"], sender=dl["sender"], verdict=None, gen=self.gen, dl=dl)
            self.cmds.append(rec)
        if not answer: return
        for rec in self.cmds:
            dl = rec["dl"]
            if rec["gen"] != self.gen or dl["answered"] or dl.get("lost"): continue
            pl = self.plan.get(rec["rcpt"])
            v = (pl.pop(0) if pl else self.default)
            if v is None:
                dl["lost"] = True; rec["verdict"] = b"lost"; self.history.append("no report for %s" % rec["rcpt"].decode("latin1")); continue
            rec["verdict"] = v
            self.history.append("report %s for msg %d %s" % (v[:12].decode("latin1"), rec["n"], rec["rcpt"].decode("latin1")))
            try: d.reply(dl, v + b" text\n")
            except OSError: pass
    def queue_empty(self):
        return not listing(self.W.home)
    def drain(self, rounds=14, t=0.15):
        for r in range(rounds):
            self.service(t)
            if self.W.d and not self.W.d.pending() and self.queue_empty(): return True
            if r % 2 == 1 and self.W.d and self.W.d.alive():
                try: self.W.alarm(); self.history.append("SIGALRM")
                except ProcessLookupError: pass
        return False
    def kill(self):
        self.history.append("SIGKILL qmail-send+qmail-clean"); self.W.crash()
    def term(self):
        self.history.append("SIGTERM")
        ok = self.W.d.term()
        self.W.crash()
        return ok
    # ---- oracles on what really happened
    def still_todo(self):
        """recipients still marked T in a channel file, or still in an unprocessed todo envelope"""
        out = set()
        q = os.path.join(self.W.home, "queue")
        for d in ("local", "remote"):
            for sd in os.listdir(os.path.join(q, d)):
                for f in os.listdir(os.path.join(q, d, sd)):
                    for st, a in records(os.path.join(q, d, sd, f)) or []:
                        if st == "T": out.add(a)
        for f in os.listdir(os.path.join(q, "todo")):
            try: b = open(os.path.join(q, "todo", f), "rb").read()
            except OSError: continue
            for p in b.split(b"\0"):
                if p[:1] == b"T": out.add(p[1:])
        return out
    def dropped(self):
        """accepted recipients that are neither delivered, nor named in a queued bounce, nor still to do"""
        self.scan_bounces()
        delivered = {c["rcpt"] for c in self.cmds if c["verdict"] and c["verdict"][:1] == b"K"}
        todo = self.still_todo()
        # failure noted in a bounce record that is still in the queue (the bounce is sent when the message is finished)
        bq = os.path.join(self.W.home, "queue", "bounce")
        for sd in os.listdir(bq):
            p = os.path.join(bq, sd)
            for f in ([p] if os.path.isfile(p) else [os.path.join(p, x) for x in os.listdir(p)]):
                try: todo |= set(BOUNCE_RE.findall(open(f, "rb").read()))
                except OSError: pass
        bad = []
        for sender, rcpts in self.accepted:
            for r in rcpts:
                if r in delivered or r in self.bounced or r in todo: continue
                if sender == b"#@[]" and any(c["rcpt"] == r and c["verdict"] and c["verdict"][:1] == b"D" for c in self.cmds): continue   # documented exception
                bad.append(r)
        return bad
    def retried_after_finish(self, marklines):
        """commands for a (message, recipient) after a K or D report whose completion mark reached the disk"""
        bad = []
        fin = {}
        for i, c in enumerate(self.cmds):
            key = (c["n"], c["rcpt"])
            if key in fin: bad.append((key, fin[key], i))
            if c["verdict"] and c["verdict"][:1] in (b"K", b"D") and (c["n"], c["chan"], c["rcpt"]) in marklines: fin.setdefault(key, i)
        return bad

def retried_after_mark(events):
    """delivery commands for a record whose completion mark had already been written (same message, not a new
    message that reuses the number): [(n, chan, record index, position of the mark, position of the command)]"""
    marked = {}
    bad = []
    for p, ev in enumerate(events):
        w = ev[2].split(" ")
        if w[0] == "mark": marked[(w[1], w[2], w[3])] = p
        elif w[0] == "injmess":
            for k in [k for k in marked if k[0] == w[2]]: del marked[k]
        elif w[0] == "cmd":
            k = (w[3], w[1], w[4])
            if k in marked: bad.append((int(w[3]), int(w[1]), int(w[4]), marked[k], p))
    return bad
