"""generators shared by C05 and C06"""
import itertools
ALPHA = [13, 10, 46, 120]          # CR LF '.' 'x'

def exhaustive(maxlen, alpha=ALPHA):
    for n in range(maxlen + 1):
        for t in itertools.product(alpha, repeat=n):
            yield bytes(t)

def random_msgs(rng, n, sizes, weights=(3, 3, 3, 8), alpha=(13, 10, 46, 120, 0, 255, 70, 114)):
    out = []
    for _ in range(n):
        ln = rng.choice(sizes) + rng.randint(-2, 2)
        ln = max(0, ln)
        w = [rng.randint(1, 6) for _ in alpha]
        out.append(bytes(rng.choices(alpha, weights=w, k=ln)))
    return out
