"""C11 - local deliveries run as exactly the user the address belongs to, never root.

proof: coq/Props/Properties_C11.v
tie:   generated users/assign tables compiled by the real qmail-newu; the real qmail-lspawn (as root,
       under the interposer) is sent delivery commands and starts a stand-in bin/qmail-local that reports
       its uid, gid, supplementary groups and arguments; generated passwd tables are served to the real
       qmail-getpw with really chown'ed home directories; truncated/corrupted cdb files. Compared with the
       extracted lookup model and the declarative spec; the set*id order is read from the interposer log."""
import json, os, re, select, shutil, subprocess, sys, time
import vlib

PID = "C11"
STUB = """#!/bin/sh
printf 'u=%s g=%s G=%s' "$(id -u)" "$(id -g)" "$(id -G | tr ' ' ,)"
for a in "$@"; do printf ' [%s]' "$a"; done
"""

def gen_table(rng):
    names = [b"joe", b"Ann", b"list", b"listE", b"list-", b"LIST-dev", b"a.b", b"root", b"x", b"salesForce", b"SALES", b"jos\xc3\xa9", b"m\xfcller", b"\xff\x80z"]
    lines = []
    uid = 20000
    if rng.random() < 0.5:
        uid += 1; lines.append(("+", b"", [b"catchall", b"%d" % uid, b"%d" % (uid + 5000), b"/vh/catch", b"-", b""]))
    for _ in range(rng.randint(1, 7)):
        uid += 1
        k = rng.choice(["=", "+", "+"])
        loc = rng.choice(names)
        if k == "+" and rng.random() < 0.5: loc += b"-"
        u = 0 if rng.random() < 0.06 else uid
        dash, ext = (b"-", b"") if k == "+" else (b"", b"")
        lines.append((k, loc, [b"u%d" % uid, b"%d" % u, b"%d" % (uid + 5000), b"/vh/u%d" % uid, dash, ext]))
    rng.shuffle(lines)
    return lines

def gen_locals(rng, table):
    out = []
    for k, loc, _ in table:
        out += [loc, loc.lower(), loc.upper(), loc + b"-ext", loc + b"x", loc[:-1] if loc else b"q", loc + b"-A.B"]
    out += [b"nobody-here", b"root", b"bob", b"bob-ext", b"Bob-x-y", b"carol", b"dave-q", b"u" * 40, b"nohome", b"badhome-z"]
    rng.shuffle(out)
    return [x for x in out if x and b"\0" not in x and b"@" not in x][:14]

class Lspawn:
    def __init__(self, rb):
        self.rb = rb; self.home = rb.make_home()
        os.chmod(vlib.scratch(), 0o755)
        for p in (self.home, os.path.join(self.home, "bin")): os.chmod(p, 0o755)
        ql = os.path.join(self.home, "bin", "qmail-local")
        if os.path.islink(ql) or os.path.exists(ql): os.remove(ql)
        open(ql, "w").write(STUB); os.chmod(ql, 0o755)
        self.mess = os.path.join(self.home, "queue/mess/0/23")
        open(self.mess, "w").write("Subject: t\n\nb\n"); os.chown(self.mess, vlib.QMAIL_USERS["qmailq"], 0); os.chmod(self.mess, 0o644)
        for d in ("queue", "queue/mess", "queue/mess/0"): os.chmod(os.path.join(self.home, d), 0o755)
        # passwd entries served to qmail-getpw, with real home directories
        self.accts = []
        hroot = os.path.join(vlib.scratch(), "homes"); os.makedirs(hroot, exist_ok=True); os.chmod(hroot, 0o755)
        for name, uid, owner in [("bob", 30001, 30001), ("carol", 30002, 30002), ("dave", 30003, 39999), ("nohome", 30004, None), ("badhome", 30005, 0)]:
            h = os.path.join(hroot, name)
            if owner is not None:
                os.makedirs(h, exist_ok=True); os.chown(h, owner, 0)
            self.accts.append((name, uid, uid, h, owner))
        # the accounts the interposer always serves (tools/vlib.py shim_env): root and the qmail users
        self.accts.append(("root", 0, 0, self.home, 0))
        self.accts.append(("alias", vlib.QMAIL_USERS["alias"], vlib.QMAIL_GROUPS["nofiles"], os.path.join(self.home, "alias"), 0))
        self.users = ["%s:%d:%d:%s" % (n, u, g, h) for n, u, g, h, o in self.accts if n not in ("alias", "root")]
    def write_assign(self, table):
        txt = b"".join((k.encode() + loc + b":" + b":".join(f) + b":\n") for k, loc, f in table) + b".\n"
        open(os.path.join(self.home, "users/assign"), "wb").write(txt)
        r = subprocess.run([self.rb.path("qmail-newu")], env=vlib.shim_env(self.home), stdout=subprocess.PIPE, stderr=subprocess.PIPE)
        return r.returncode
    def deliver(self, locals_, extra=None):
        """one qmail-lspawn, one command per local part; returns [(report text, [set*id log lines of the child])]"""
        log = os.path.join(vlib.scratch(), "lspawn.log")
        if os.path.exists(log): os.remove(log)
        env = vlib.shim_env(self.home, log=log, extra=extra, users=self.users)
        p = subprocess.Popen([self.rb.path("qmail-lspawn"), "./Mailbox"], stdin=subprocess.PIPE, stdout=subprocess.PIPE, env=env, bufsize=0, cwd=self.home)
        fdo = p.stdout.fileno()
        r, _, _ = select.select([fdo], [], [], 5)
        os.read(fdo, 1)
        res = []
        for k, l in enumerate(locals_):
            os.write(p.stdin.fileno(), bytes([k % 100]) + b"0/23\0sender@x.example\0" + l + b"@host.example\0")
            buf = b""
            end = time.time() + 10
            while time.time() < end:
                r, _, _ = select.select([fdo], [], [], 0.5)
                if r:
                    d = os.read(fdo, 65536)
                    if not d: break
                    buf += d
                    if len(buf) >= 2 and buf.find(b"\0", 1) >= 0: break
            res.append(buf[1:buf.find(b"\0", 1)] if buf.find(b"\0", 1) >= 0 else buf[1:])
        p.stdin.close()
        try: p.wait(timeout=5)
        except Exception: p.kill()
        lg = open(log, errors="replace").read().split("\n") if os.path.exists(log) else []
        return res, lg

def table_arg(table):
    return ";".join("%s:%s:%s" % (k, vlib.hx(loc), ",".join(vlib.hx(f) for f in fs)) for k, loc, fs in table) or "-"

def parse_stub(rep):
    m = re.match(rb"^Ku=(\d+) g=(\d+) G=([\d,]*)((?: \[[^\]]*\])*)", rep, re.S)
    if not m: return None
    args = re.findall(rb" \[([^\]]*)\]", m.group(4))
    return dict(uid=int(m.group(1)), gid=int(m.group(2)), groups=m.group(3).decode(), args=[a.decode("latin1") for a in args])

def main():
    ck = vlib.Check(PID, "proof")
    rb = vlib.RepoBuild()
    if not rb.ok:
        print("repository does not build:\n" + rb.log[-2000:]); sys.exit(2)
    ck.proofs(srcdir=rb.dir)
    drv = vlib.build_driver("C11")
    L = Lspawn(rb)
    rng = ck.rng
    fails, mism = [], []
    accts_arg = ";".join("%s:%d:%d:%s:%s" % (vlib.hx(n.encode()), u, g, vlib.hx(h.encode()), "-" if o is None else str(o)) for n, u, g, h, o in L.accts)
    jobs = []
    setid_bad = []
    images = []
    for ti in range(40 if ck.thorough else 14):
        table = gen_table(rng) if ti else [("+", b"", [b"catchall", b"20001", b"25001", b"/vh/c", b"-", b""]), ("+", b"listE", [b"lister", b"20002", b"25002", b"/vh/l", b"-", b""]), ("=", b"Joe", [b"joe", b"20003", b"25003", b"/vh/j", b"", b""])]
        if ti == 1: table = [t for t in table if t[1] != b""]        # no catch-all: falls through to qmail-getpw
        if L.write_assign(table) != 0:
            continue
        images.append((open(os.path.join(L.home, "users/assign"), "rb").read(), open(os.path.join(L.home, "users/cdb"), "rb").read()))
        locs = gen_locals(rng, table) + ([b"liste-foo", b"listE-Foo", b"liste", b"JOE", b"joe"] if ti == 0 else [])
        reps, lg = L.deliver(locs)
        # no report at all within the time limit says nothing about the code: ask again, once, with a fresh qmail-lspawn
        for k, r0 in enumerate(reps):
            if r0 == b"":
                r1, lg1 = L.deliver([locs[k]]); reps[k] = r1[0]; lg += lg1; ck.count("report_reread")
        # set*id order per child: setgroups, setgid, setuid, then execv of bin/qmail-local
        bypid = {}
        for line in lg:
            w = line.split()
            if len(w) >= 3 and w[1] in ("setgroups", "setgid", "setuid", "execv"):
                bypid.setdefault(w[0], []).append(w[1:])
        for pid, evs in bypid.items():
            ex = [i for i, e in enumerate(evs) if e[0] == "execv" and e[1].endswith("bin/qmail-local")]
            if ex:
                pre = [e[0] for e in evs[:ex[0]]]
                uid_at_exec = evs[ex[0]][2] if len(evs[ex[0]]) > 2 else ""
                if pre[-3:] != ["setgroups", "setgid", "setuid"] or uid_at_exec == "uid=0" or any(e[-2] != "0" for e in evs[:ex[0]][-3:]):
                    setid_bad.append(dict(pid=pid, events=[" ".join(e) for e in evs]))
        for l, rep in zip(locs, reps):
            jobs.append((table, l, rep))
    ta = [table_arg(t) for t, _, _ in jobs]
    look, _, _ = vlib.run_lines(drv, ["look %s %s" % (a, vlib.hx(l)) for a, (_, l, _) in zip(ta, jobs)])
    spec, _, _ = vlib.run_lines(drv, ["spec %s %s" % (a, vlib.hx(l)) for a, (_, l, _) in zip(ta, jobs)])
    gpw, _, _ = vlib.run_lines(drv, ["getpw %s %s" % (accts_arg, vlib.hx(l)) for _, l, _ in jobs])
    for (table, l, rep), lk, sp, gp in zip(jobs, look, spec, gpw):
        ck.evaluated(); ck.count("deliveries")
        ck.nontrivial((table_arg(table), l))
        obs = parse_stub(rep)
        # expected (user, uid, gid, home, dash, ext) from the declarative spec, else the passwd rules
        if sp.startswith("F "):
            f = vlib.unhx(sp[2:]).split(b"\0"); src = "assign"
            exp = None if len(f) < 6 else (f[0], int(f[1] or b"0") % 2 ** 32 if f[1].isdigit() else 0, int(f[2] or b"0") % 2 ** 32 if f[2].isdigit() else 0, f[3], f[4], f[5])
        elif gp != "N":
            w = gp.split(":"); src = "getpw"
            exp = (vlib.unhx(w[0]), int(w[1]), int(w[2]), vlib.unhx(w[3]), vlib.unhx(w[4]), vlib.unhx(w[5]))
        else:
            exp = None; src = "none"
        obj = dict(kind="configuration", assign=[(k, loc.decode("latin1"), [x.decode("latin1") for x in f]) for k, loc, f in table], local=l.decode("latin1"),
                   report=rep.decode("latin1")[:300], source=src, expected=None if exp is None else [str(x) for x in exp], model_lookup=lk[:200])
        bad = None
        if obs is not None:
            a = obs["args"]
            got = (a[1].encode("latin1"), obs["uid"], obs["gid"], a[2].encode("latin1"), a[4].encode("latin1"), a[5].encode("latin1")) if len(a) >= 9 else None
            if obs["uid"] == 0: bad = "lspawn:delivery-as-root"
            elif obs["groups"] != str(obs["gid"]): bad = "lspawn:supplementary-groups-kept"
            elif exp is None or exp[1] == 0: bad = "lspawn:ran-without-valid-user"
            elif got != exp: bad = "lspawn:wrong-user-for-address"
            elif a[3].encode("latin1") != l or a[6] != "host.example" or a[7] != "sender@x.example": bad = "lspawn:wrong-arguments"
        else:
            if exp is not None and exp[1] != 0 and not rep.startswith(b"Z"): bad = "lspawn:valid-address-bounced"
            elif exp is not None and exp[1] != 0: bad = "lspawn:valid-address-deferred"
            elif exp is not None and exp[1] == 0 and not rep.startswith(b"ZNot allowed to perform deliveries as root"): bad = "lspawn:root-entry-not-refused"
        if bad: fails.append((bad, obj, len(table)))
        elif (lk.startswith("F ") != sp.startswith("F ")) or (lk.startswith("F ") and lk != sp): mism.append(obj)
    for sb in setid_bad[:1]:
        fails.append(("lspawn:exec-before-privilege-drop", dict(kind="trace", **sb), 0))
    # ---------------- from the text to the bytes: users/cdb as the real qmail-newu wrote it = cdb_make (newu text), byte for byte
    #                  (Local/NewU.v parser + Base/Cdb.v writer); malformed texts are refused by both
    tdrv = vlib.build_driver("TBL")
    def real_newu(text):
        open(os.path.join(L.home, "users/assign"), "wb").write(text)
        pc = os.path.join(L.home, "users/cdb")
        if os.path.exists(pc): os.remove(pc)
        r_ = subprocess.run([rb.path("qmail-newu")], env=vlib.shim_env(L.home), stdout=subprocess.PIPE, stderr=subprocess.PIPE)
        return (r_.returncode, open(pc, "rb").read() if os.path.exists(pc) else None)
    def gen_text():
        out = b""
        for _ in range(rng.randint(0, 6)):
            k_ = rng.choice([b"=", b"=", b"+", b"+", b"x"])
            loc = rng.choice([b"joe", b"Ann", b"list-", b"", b"a.b", b"LIST-dev", b"\xc3\xa9", b"j", b"Zed-"])
            f = [rng.choice([b"u", b"user1", b""]), b"%d" % rng.randint(1, 70000), b"100", rng.choice([b"/home/u", b""]), rng.choice([b"", b"-"]), rng.choice([b"", b"ext"])]
            line = k_ + loc + b":" + b":".join(f) + b":" + rng.choice([b"", b"", b"", b"trailing"]) + b"\n"
            m_ = rng.random()
            if m_ < 0.04: line = line.replace(b"u", b"\0", 1)               # NUL in a line
            elif m_ < 0.08: line = line[:-1]                                  # no newline
            elif m_ < 0.12: line = b"\n"                                     # empty line
            elif m_ < 0.16: line = k_ + loc + b":" + b":".join(f[:5]) + b"\n" # too few fields
            elif m_ < 0.2: line = b":" + line                                # empty name part
            out += line
        return out + rng.choice([b".\n", b".\n", b".\n", b".\n", b".", b"", b". trailing\nmore\n"])
    texts = [t for t, _ in images] + [gen_text() for _ in range(200 if ck.thorough else 60)]
    reals = [(0, img) for _, img in images] + [real_newu(t) for t in texts[len(images):]]
    mimg, _, _ = vlib.run_lines(tdrv, ["newu " + vlib.hx(t) for t in texts])
    for t, (rc_, img), m_ in zip(texts, reals, mimg):
        ck.evaluated(); ck.count("newu_images_" + ("refused" if rc_ else "written")); ck.nontrivial(("newu", t))
        exp_ = "E" if rc_ != 0 else vlib.hx(img)
        if exp_ != m_:
            mism.append(dict(kind="input", component="qmail-newu", text=t.decode("latin1")[:400], real_exit=rc_, real_len=None if img is None else len(img), model=m_[:40],
                             first_difference=None if img is None or m_ == "E" else next((i for i, (a_, b_) in enumerate(zip(vlib.hx(img), m_)) if a_ != b_), None)))
    # ---------------- a large table (hundreds of records: long probe chains, wrap-around in the hash tables) and long local parts
    #                  (the reader compares keys in 32-byte pieces): every record is looked up through the real reader and the model,
    #                  and a sample is delivered through the real qmail-lspawn
    longs = [b"x" * 31, b"y" * 32, b"z" * 33, b"very-long-local-part-for-a-mailing-list-address-0123456789", b"w" * 70]
    big = [("=", b"u%03d" % k, [b"user%d" % k, b"%d" % (22000 + k), b"%d" % (27000 + k), b"/vh/%d" % k, b"", b""]) for k in range(400)] + \
          [("=", l, [b"long%d" % k, b"%d" % (23000 + k), b"%d" % (28000 + k), b"/vh/l%d" % k, b"", b""]) for k, l in enumerate(longs)] + \
          [("+", b"", [b"catchall", b"24000", b"29000", b"/vh/catch", b"-", b""])]
    if L.write_assign(big) == 0:
        img = open(os.path.join(L.home, "users/cdb"), "rb").read()
        txt = open(os.path.join(L.home, "users/assign"), "rb").read()
        mi, _, _ = vlib.run_lines(tdrv, ["newu " + vlib.hx(txt)])
        ck.evaluated(); ck.count("newu_images_written")
        if mi[0] != vlib.hx(img): mism.append(dict(kind="input", component="qmail-newu (large table)", real_len=len(img), model_len=len(mi[0]) // 2))
        hcdb = rb.harness("h_cdb", "qmail-newmrh", extra_objs=["cdb.a"])
        keys = [b"!u%03d\0" % k for k in range(400)] + [b"!" + l + b"\0" for l in longs] + [b"!u400\0", b"!" + b"x" * 30 + b"\0", b"!" + b"z" * 33 + b"q\0", b"", b"!"]
        gl = ["get %s %s" % (vlib.hx(img), vlib.hx(k)) for k in keys]
        ga, _, _ = vlib.run_lines([hcdb, os.path.join(vlib.scratch(), "h_cdb11.tmp")], gl)
        gb, _, _ = vlib.run_lines(tdrv, gl)
        for k, x_, y_ in zip(keys, ga, gb):
            ck.evaluated(); ck.count("large_table_lookups")
            if x_ != y_: mism.append(dict(kind="input", component="cdb_seek on users/cdb (large table)", key=k.decode("latin1"), real=x_[:80], model=y_[:80]))
        # records the real reader does not find (or finds differently from the model) are delivered for real: a concrete history
        suspicious = [k[1:-1] for k, x_, y_ in zip(keys[:405], ga, gb) if x_ != y_ or not x_.startswith("F ")][:8]
        sample = [b"u%03d" % k for k in rng.sample(range(400), 25)] + longs + [b"U007", b"nosuchuser"] + suspicious
        reps, _ = L.deliver(sample)
        for l, rep in zip(sample, reps):
            ck.evaluated(); ck.count("large_table_deliveries"); ck.nontrivial(("big", l))
            obs = parse_stub(rep)
            if l.lower().startswith(b"u") and l[1:].isdigit(): want = (b"user%d" % int(l[1:]), 22000 + int(l[1:]))
            elif l in longs: want = (b"long%d" % longs.index(l), 23000 + longs.index(l))
            else: want = (b"catchall", 24000)
            if obs is None or obs["uid"] != want[1] or obs["args"][1].encode("latin1") != want[0]:
                fails.append(("lspawn:wrong-user-for-address", dict(kind="configuration", assign="400 exact entries u000..u399, 5 long exact entries, catch-all", local=l.decode("latin1"),
                                                                     report=rep.decode("latin1")[:300], expected=[want[0].decode(), str(want[1])]), len(l)))
    # ---------------- corrupted / truncated constant database: defer, never misdirect
    table = [("=", b"u%d" % k, [b"user%d" % k, b"%d" % (21000 + k), b"%d" % (26000 + k), b"/vh/%d" % k, b"", b""]) for k in range(40)]
    L.write_assign(table)
    cdbp = os.path.join(L.home, "users/cdb")
    good = open(cdbp, "rb").read()
    for cut in [len(good) - 8, len(good) - 200, 2048 + (len(good) - 2048) // 2, 2048 + 10, 2048, 1000, 100, 0] + ([len(good) - k for k in range(16, 600, 40)] if ck.thorough else []):
        if cut < 0: continue
        open(cdbp, "wb").write(good[:cut])
        locs = [b"u%d" % k for k in range(0, 40, 3)]
        reps, _ = L.deliver(locs)
        nug, _, _ = vlib.run_lines(tdrv, ["nug %s %s" % (vlib.hx(good[:cut]), vlib.hx(l)) for l in locs])
        for l, rep, ng in zip(locs, reps, nug):
            ck.evaluated(); ck.count("truncated_cdb"); ck.count("truncated_cdb_model_" + ng[:1])
            obs = parse_stub(rep)
            k = int(l[1:])
            # the model's reading of the same damaged image: F = found, B = QLX_CDB (deferred), N = not in the database (qmail-getpw decides)
            agree = (ng.startswith("F ") and obs is not None and obs["uid"] == 21000 + k) or (ng == "B" and rep.startswith(b"ZTrouble reading users/cdb")) or \
                    (ng == "N" and not rep.startswith(b"ZTrouble reading users/cdb") and (obs is None or obs["uid"] != 21000 + k))
            if not agree: mism.append(dict(kind="configuration", component="nughde_get on a truncated users/cdb", cdb_truncated_to=cut, of=len(good), local=l.decode(), report=rep.decode("latin1")[:200], model=ng[:80]))
            if obs is not None and (obs["uid"] != 21000 + k or obs["args"][1] != "user%d" % k):
                fails.append(("lspawn:corrupt-cdb-misdirects", dict(kind="configuration", cdb_truncated_to=cut, of=len(good), local=l.decode(), report=rep.decode("latin1")[:200]), cut))
            elif obs is None and not rep.startswith(b"Z"):
                fails.append(("lspawn:corrupt-cdb-bounces", dict(kind="configuration", cdb_truncated_to=cut, of=len(good), local=l.decode(), report=rep.decode("latin1")[:200]), cut))
    open(cdbp, "wb").write(good)
    # ---------------- a failing set*id call must prevent the exec
    for call in ("setgroups", "setgid", "setuid"):
        reps, lg = L.deliver([b"u1"], extra={"SYSSHIM_FAIL": "%s::1:0" % call})
        ck.evaluated(); ck.count("setid_fault")
        if parse_stub(reps[0]) is not None or not reps[0].startswith(b"Z"):
            fails.append(("lspawn:exec-despite-failed-" + call, dict(kind="fault", call=call, report=reps[0].decode("latin1")[:200]), 0))
    # ---------------- a temporary failure while looking at a user's home directory defers, it does not fall through to alias
    if L.write_assign([("=", b"zzz", [b"zzz", b"20009", b"25009", b"/vh/zzz", b"", b""])]) == 0:
        for err in (116, 5):
            reps, lg = L.deliver([b"bob", b"bob-list"], extra={"SYSSHIM_FAIL": "stat:homes/bob:%d" % err})
            for l, rep in zip([b"bob", b"bob-list"], reps):
                ck.evaluated(); ck.count("getpw_stat_fault")
                if parse_stub(rep) is not None or not rep.startswith(b"Z"):
                    fails.append(("getpw:home-stat-failure-not-deferred", dict(kind="fault", call="stat", errno=err, local=l.decode(), report=rep.decode("latin1")[:200]), 0))
    ck.cov["disagreements_checked"] = len(mism)
    ck.cov["rule"] = ("users/assign tables (exact and wildcard entries, mixed case, prefixes ending in letters and dashes, catch-all present/absent, uid 0 entries, duplicates) compiled by qmail-newu x local parts "
                      "derived from them (case changes, extensions, near-misses) and from the passwd table (owned/unowned/missing homes, root, alias, 40-byte names); truncated cdb files; injected set*id failures. "
                      "non-trivial = distinct (table, local part)")
    ck.sample(dict(table=[(k, loc.decode()) for k, loc, _ in jobs[0][0]], local=jobs[0][1].decode(), report=jobs[0][2].decode("latin1")[:200]))
    fails.sort(key=lambda x: x[2])
    seen = set()
    for key, obj, _ in fails:
        if key in seen: continue
        seen.add(key)
        ck.violation(key, obj, what="real qmail-newu/qmail-lspawn/qmail-getpw: " + key)
    if mism and not fails:
        ck.violation("correspondence", dict(kind="correspondence", broken="Local/Assign.v lookup = qmail-newu.c + qmail-lspawn.c nughde_get()", first=mism[0], n=len(mism)),
                     nofail=True, what="model and declarative spec disagree")
    ck.proof_failure_violation(bool(fails))
    ck.finish(trusted_base=[vlib.KERNEL_TB, vlib.EXTRACTION_TB, "shim/sysshim.c (serves getpwnam, logs setgroups/setgid/setuid/execv, injects their failure)", "stand-in bin/qmail-local (shell script printing id and arguments)"],
              assumptions=["Local/Assign.v works on the record list; Base/Cdb.v proves that the file image (hash tables, linear probing) answers as that list does (cdb_first_record_with_key, lookup_in_file_image_is_table_lookup) and users/cdb is compared byte for byte with cdb_make(newu text); file sizes below 2^32",
                           "uid/gid strings in users/assign are decimal and below 2^32", "fork/exec/setuid semantics are the kernel's"])

def replay(path):
    obj = json.load(open(path))
    print("re-run ./check C11 (deterministic for the same VERIF_SEED); recorded case:", json.dumps(obj)[:1200])
    return 0
