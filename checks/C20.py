"""C20 - no input can corrupt memory in any program of the suite.

proof: coq/Props/Properties_C20.v - bounds-explicit models (Mem/Stralloc.v: the overflow-checked growth of
       stralloc/gen_alloc, quote.c's size computation; Mem/TokCount.v: the counting pass of token822_parse against
       the filling pass; Mem/Netstr.v: netstring lengths and the 1000-byte QMTP recipient buffer) with index-safety
       theorems.  For the rest of the 14 800 lines this technique cannot prove the universal negative; it is
       approached by executing the REAL code, built from the current tree with AddressSanitizer and
       UndefinedBehaviorSanitizer, on grammar-derived and mutated inputs for every untrusted-input surface
       (SMTP, QMTP, QMQP, POP3, header fields and address lists, DNS responses, delivery reports, qmail-clean
       requests, envelope strings), including declared lengths near 2^31, thousands of tokens, deep comment
       nesting and every truncation point of short valid inputs.  level = other.
oracle: no sanitizer report, no death by signal, exit status among the documented ones."""
import json, os, re, shutil, subprocess, sys
import vlib
import smtp_common as sc

PID = "C20"
SAN_ENV = {"ASAN_OPTIONS": "detect_leaks=0:abort_on_error=0:exitcode=97:verify_asan_link_order=0:allocator_may_return_null=1",
           "UBSAN_OPTIONS": "halt_on_error=1:exitcode=98:print_stacktrace=0", "LD_PRELOAD": ""}
SAN_RE = re.compile(rb"AddressSanitizer|runtime error:|LeakSanitizer|SUMMARY: UndefinedBehaviorSanitizer|stack smashing|free\(\): invalid|malloc\(\): corrupted")

def ns(b): return b"%d:" % len(b) + b + b","

class Surface:
    def __init__(self, ck, name, fails, ok_exits):
        self.ck, self.name, self.fails, self.ok = ck, name, fails, ok_exits
        self.codes = {}
    def judge(self, inp, rc, err, extra=None):
        self.ck.evaluated(); self.ck.count("surface_" + self.name)
        self.codes[rc] = self.codes.get(rc, 0) + 1
        bad = None
        if SAN_RE.search(err or b""): bad = "sanitizer-report"
        elif rc < 0: bad = "killed-by-signal-%d" % -rc
        elif rc in (97, 98): bad = "sanitizer-exit"
        elif self.ok is not None and rc not in self.ok: bad = "undocumented-exit-%d" % rc
        if bad:
            m = SAN_RE.search(err or b"")
            line = b""
            if m:
                s = err.rfind(b"\n", 0, m.start()) + 1; e = err.find(b"\n", m.end()); line = err[s:e if e > 0 else None]
            obj = dict(kind="input", surface=self.name, input_hex=vlib.hx(inp[:20000]), input_len=len(inp), exit=rc, report=line.decode("latin1")[:300],
                       stderr_tail=(err or b"")[-600:].decode("latin1"))
            if extra: obj.update(extra)
            self.fails.append(("memory:%s:%s" % (self.name, bad.split("-")[0]), obj, len(inp)))
        return bad

def mutations(rng, base, n, long_tokens=()):
    """truncations, byte edits, duplications and long insertions of a valid input"""
    out = []
    for i in range(0, len(base) + 1, max(1, len(base) // 60)): out.append(base[:i])
    for _ in range(n):
        b = bytearray(base); k = rng.random()
        if not b: continue
        p = rng.randrange(len(b))
        if k < 0.25: b[p] = rng.choice([0, 10, 13, 34, 40, 41, 46, 58, 60, 62, 64, 92, 255, 48, 57])
        elif k < 0.45: del b[p:p + rng.randint(1, 8)]
        elif k < 0.65: b[p:p] = bytes(rng.choice([b"(", b"\\", b"\"", b"<", b"@", b",", b"\r", b"\n", b"9", b"\x00", b"\xff"])) * rng.choice([1, 2, 17, 300])
        elif k < 0.8 and long_tokens: b[p:p] = rng.choice(long_tokens)
        else: q = rng.randrange(len(b)); b[p:p] = b[q:q + rng.randint(1, 40)]
        out.append(bytes(b))
    return out

def main():
    ck = vlib.Check(PID, "other")
    rb = vlib.RepoBuild(sanitize=True)
    if not rb.ok:
        print("sanitised build of the repository failed:\n" + rb.log[-2000:]); sys.exit(2)
    ck.proofs(srcdir=rb.dir)
    rng = ck.rng
    fails, mism = [], []
    import gen_common; gen_common.translator_selfcheck(ck, rb, mism)
    N = 4 if ck.thorough else 1
    env0 = dict(os.environ, **SAN_ENV)
    home = rb.make_home()

    # ---------------------------------------------------------------- function harnesses on the sanitised objects
    def harness_stream(hname, prog, lines, surf, exclude=(), args=(), per=400):
        try:
            h = rb.harness(hname, prog, exclude=exclude)
        except vlib.HarnessBuildError as e:
            mism.append(dict(stream="harness " + hname + " does not build", input="", real=str(e)[-800:], model="")); return []
        S = Surface(ck, surf, fails, None)
        outs = []
        for i in range(0, len(lines), per):
            chunk = lines[i:i + per]
            p = subprocess.run([h] + list(args), input=("\n".join(chunk) + "\n").encode(), stdout=subprocess.PIPE, stderr=subprocess.PIPE, env=env0, timeout=300)
            got = p.stdout.decode("latin1").split("\n")[:-1]
            outs += got
            if len(got) != len(chunk) or p.returncode != 0 or SAN_RE.search(p.stderr):
                # find the single line that does it
                culprit = chunk[len(got)] if len(got) < len(chunk) else chunk[-1]
                S.judge(culprit.encode(), p.returncode if p.returncode else 0, p.stderr, extra=dict(harness=hname, line=culprit[:3000]))
            else:
                for _ in chunk: ck.evaluated()
                ck.count("surface_" + surf, len(chunk))
        return outs

    # token822: quoted pairs in comments/quotes/literals/atoms, deep nesting, many tokens
    toks = []
    alpha = [b"(", b")", b"\\", b"\"", b"[", b"]", b"a", b".", b" ", b"@", b",", b"<", b">", b":", b";"]
    for _ in range(1500 * N):
        toks.append(b"".join(rng.choice(alpha) for _ in range(rng.randint(1, 40))))
    for k in (1, 7, 64, 1000, 5000):
        toks += [b"(" + b"\\x" * k + b")", b"\"" + b"\\\"" * k + b"\"", b"[" + b"\\]" * k + b"]", b"a\\ " * k, b"(" * k + b"c" + b")" * k,
                 b"(" * k + b"\\)" * k + b")" * k, b"a@b," * k, b"\\" * k, b"(" + b"a\\" * k, b"x " * k + b"<" * k]
    outs = harness_stream("h_inject", "qmail-inject", ["tok " + vlib.hx(t) for t in toks], "token822_parse")
    # header fields through doheaderfield
    flds = []
    base_f = b"To: \"J. (x) Doe\" <@r1,@r2:joe@host.example>, grp: a@b (c\\)), \"q\\\"x\"@[1.2.3.4];, lone, x@y+\n"
    for name in (b"To", b"Cc", b"Bcc", b"From", b"Return-Path", b"Resent-To", b"Apparently-To"):
        for m in mutations(rng, name + base_f[2:], 150 * N, long_tokens=[b"(" * 400, b"a." * 600, b"\\" * 99, b"<" * 200, b"," * 800]):
            flds.append(m)
    harness_stream("h_inject", "qmail-inject", ["hf %s %s %s 0000 %s" % (vlib.hx(b"dh.example"), vlib.hx(b"dd"), vlib.hx(b"pd"), vlib.hx(f)) for f in flds], "inject_header_field")
    # quote2 / addrmangle / addrparse with hostile strings
    strs = [b"".join(rng.choice([b"\"", b"\\", b"@", b".", b"a", b"<", b">", b" ", b"\r", b"\xff", b":", b"["]) for _ in range(rng.randint(0, 60))) for _ in range(800 * N)]
    strs += [b"a" * 70000, b"\"" * 30000, b"\\" * 30001, b"@" * 5000, b"." * 9000 + b"@x"]
    harness_stream("h_inject", "qmail-inject", ["q2 " + vlib.hx(s) for s in strs if b"\0" not in s], "quote2")
    harness_stream("h_mangle", "qmail-remote", ["mangle " + vlib.hx(s) for s in strs if b"\0" not in s], "addrmangle")
    harness_stream("h_addrparse", "qmail-smtpd", ["aparse " + vlib.hx(s) for s in strs + [b"<" + s + b">" for s in strs[:300]] + [b"<@a,@b:" + b"x" * 2000 + b"@[1.2.3.4]>", b"<x@[" + b"1." * 500 + b"]>"] if b"\0" not in s], "smtpd_addrparse")
    # SMTP DATA decoder and encoder
    dec = [b"".join(rng.choice([b"\r", b"\n", b".", b"x", b"Received:", b"Delivered-To:", b"\0"]) for _ in range(rng.randint(0, 80))) for _ in range(600 * N)]
    dec += [b"Received: x\r\n" * 150 + b"\r\n.\r\n", b"x" * 100000 + b"\r\n.\r\n", b"\r" * 5000, b"." * 5000 + b"\r\n.\r\n"]
    harness_stream("h_sblast", "qmail-smtpd", ["dec %s %d %d" % (vlib.hx(d), rng.choice([0, 1, 7]), rng.choice([0, 0, 50])) for d in dec], "smtpd_blast")
    harness_stream("h_rblast", "qmail-remote", ["enc %s %d" % (vlib.hx(d), rng.choice([0, 1, 5])) for d in dec], "remote_blast")
    # DNS responses
    def rr(name, typ, rdata, rdlen=None):
        n = len(rdata) if rdlen is None else rdlen
        return name + bytes([0, typ, 0, 1, 0, 0, 0, 60, (n >> 8) & 255, n & 255]) + rdata
    def hdr(an, qd=1): return b"\x12\x34\x81\x80" + bytes([qd >> 8, qd & 255, an >> 8, an & 255]) + b"\x00\x00\x00\x00"
    q = b"\x01a\x07example\x00\x00\x0f\x00\x01"
    valid = [hdr(2) + q + rr(b"\xc0\x0c", 15, b"\x00\x0a\x02mx\xc0\x0e") + rr(b"\xc0\x0c", 15, b"\x00\x14\x03mx2\xc0\x0e"),
             hdr(3) + b"\x02mx\x07example\x00\x00\x01\x00\x01" + rr(b"\xc0\x0c", 1, b"\x01\x02\x03\x04") + rr(b"\xc0\x0c", 5, b"\x01c\xc0\x0f") + rr(b"\xc0\x0c", 1, b"\x05\x06\x07\x08"),
             hdr(1) + b"\x014\x013\x012\x011\x07in-addr\x04arpa\x00\x00\x0c\x00\x01" + rr(b"\xc0\x0c", 12, b"\x01h\x07example\x00")]
    dl = []
    for v in valid:
        for m in mutations(rng, v, 250 * N):
            for cmd in ("mxip " + vlib.hx(b"a.example"), "ip " + vlib.hx(b"mx.example"), "ptr 1.2.3.4"):
                dl.append("%s %s %s" % (cmd, vlib.hx(m) if m else "-", vlib.hx(valid[1])))
    # record announcing more data than the response holds; counts larger than the content; compression loops
    dl += ["ip %s %s" % (vlib.hx(b"mx.example"), vlib.hx(hdr(1) + b"\x02mx\x07example\x00\x00\x01\x00\x01" + rr(b"\xc0\x0c", 1, b"", rdlen=4))),
           "mxip %s %s" % (vlib.hx(b"a.example"), vlib.hx(hdr(1) + q + rr(b"\xc0\x0c", 15, b"\x00", rdlen=3))),
           "mxip %s %s" % (vlib.hx(b"a.example"), vlib.hx(hdr(65535, 65535) + q)),
           "ip %s %s" % (vlib.hx(b"mx.example"), vlib.hx(hdr(1) + b"\xc0\x0c\x00\x01\x00\x01" + rr(b"\xc0\x0c", 1, b"\x01\x02\x03\x04"))),
           "ptr 1.2.3.4 %s" % vlib.hx(hdr(1) + b"\x014\x00\x00\x0c\x00\x01" + rr(b"\xc0\x0c", 12, b"\x3f" + b"a" * 63 + b"\xc0\x1c" * 1))]
    # responses that fill the 512-byte packet buffer exactly, ending in a record whose data is announced but missing
    full = []
    def padded(total, last_hdr):
        h = hdr(2) + b"\x02mx\x07example\x00\x00\x01\x00\x01"
        fill = total - len(h) - len(last_hdr) - 12
        return h + rr(b"\xc0\x0c", 16, b"t" * fill) + last_hdr
    for total in (505, 508, 509, 510, 511, 512):
        for typ, rdlen, have in ((1, 4, b""), (1, 4, b"\x01"), (1, 4, b"\x01\x02\x03"), (15, 3, b""), (15, 3, b"\x00"), (15, 40, b"\x00\x0a"), (5, 2, b""), (12, 9, b"\x01")):
            last = rr(b"\xc0\x0c", typ, have, rdlen=rdlen)
            if total - len(last) < 60: continue
            r = padded(total, last)
            full.append("ip %s %s" % (vlib.hx(b"mx.example"), vlib.hx(r)))
            full.append("mxip %s %s %s" % (vlib.hx(b"mx.example"), vlib.hx(r), vlib.hx(valid[1])))
            full.append("ptr 1.2.3.4 %s" % vlib.hx(r))
    # one process per case: dns.c keeps (and after one large answer enlarges) a static response buffer
    harness_stream("h_dns", "qmail-remote", full if ck.thorough else full[::2], "dns_response", exclude=["dns.o"], per=1)
    harness_stream("h_dns", "qmail-remote", dl, "dns_response", exclude=["dns.o"])
    # delivery reports into qmail-send
    qd = os.path.join(vlib.scratch(), "dq"); shutil.rmtree(qd, ignore_errors=True)
    for d in ("local/0", "remote/0", "bounce", "info/0", "mess/0", "lock"): os.makedirs(os.path.join(qd, d))
    reps = []
    for _ in range(500 * N):
        s = b"".join(rng.choice([b"\x00", b"\x01", b"\x02", b"\x07", b"K", b"Z", b"D", b"x", b"\n", b"\xff", b"ok", b"<a@b>:"]) for _ in range(rng.randint(1, 50)))
        reps.append("del %d %s %s %s" % (rng.choice([1, 2, 3]), rng.choice(["0", "0,1", "0,1,2", "-"]), rng.choice(["-", "0", "1"]), vlib.hx(s)))
    reps += ["del 3 0,1,2 - " + vlib.hx(b"\x00K" + b"x" * 20000 + b"\x00"), "del 2 0,1 1 " + vlib.hx(b"\x01Z" + b"y\n" * 6000 + b"\x00\x00D\x00")]
    harness_stream("h_deldochan", "qmail-send", reps, "send_delivery_reports", args=[qd])

    # ---------------------------------------------------------------- the proved models against the real functions
    drv = vlib.build_driver("C20")
    def tie(hname, prog, lines, stream, link=None):
        try:
            h = rb.harness(hname, prog) if link is None else rb.compile_harness(os.path.join(vlib.VERIF, "harness", hname + ".c"), os.path.join(vlib.scratch(), hname + ".san"), objs=link)
        except vlib.HarnessBuildError as e:
            mism.append(dict(stream="harness " + hname + " does not build", input="", real=str(e)[-800:], model="")); return
        p = subprocess.run([h], input=("\n".join(lines) + "\n").encode(), stdout=subprocess.PIPE, stderr=subprocess.PIPE, env=env0, timeout=300)
        real = p.stdout.decode("latin1").split("\n")[:-1]
        if SAN_RE.search(p.stderr) or len(real) != len(lines):
            fails.append(("memory:%s:sanitizer" % stream, dict(kind="input", surface=stream, line=lines[min(len(real), len(lines) - 1)][:3000], stderr_tail=p.stderr[-600:].decode("latin1")), 0)); return
        return real
    # token822_parse: sizes asked for by the counting pass (fresh allocations make them visible) = count_pass
    cl = ["cnt " + vlib.hx(t) for t in toks if len(t) < 3000]
    real = tie("h_inject", "qmail-inject", cl, "token822_count_pass")
    if real:
        mod, _, _ = vlib.run_lines(drv, cl)
        for l, a, b in zip(cl, real, mod):
            ck.evaluated(); ck.count("tie_count_pass")
            # alloc(0) keeps the field null, which the harness reports as capacity 0 as well
            if a != b: mism.append(dict(stream="token822 counting pass", input=l[:300], real=a, model=b))
    # stralloc growth: arithmetic and refusal of overflowing requests
    sl = []
    B = 4294967296
    for _ in range(1500 * N):
        op = rng.choice(["rp", "rdy", "catb", "copyb", "append"])
        nul = rng.random() < 0.2
        honest = op in ("catb", "copyb", "append")
        if honest and rng.random() < 0.8:
            a = rng.choice([1, 2, 29, 30, 31, 100, 1000, 4096]); ln = rng.choice([0, a // 2, max(0, a - 2), a - 1, a]); n = rng.choice([0, 1, 2, 30, 31, 500, 3000])
        elif honest:                                  # must be refused before any byte is written
            a = B - rng.choice([1, 2, 100]); ln = a - rng.choice([0, 1, 5]); n = B - ln - rng.choice([0, 1]) if op != "append" else 0
            if op == "append": ln = B - 1; a = B - 1
            if op == "copyb": n = B - 1
            nul = False
        else:
            a = rng.choice([0, 1, 30, 1000, 2 ** 31, B - 40, B - 1]); ln = rng.choice([0, a // 2, a]); n = rng.choice([0, 1, 31, 2 ** 31, B - ln - 1, (B - ln) % B, B - 1, B - 31])
        sl.append("%s %d %d %d %d" % (op, nul, a, ln, n) if op != "append" else "append %d %d %d" % (nul, a, ln))
    real = tie("h_stralloc", None, sl, "stralloc_growth", link=["stralloc.a", "error.a", "str.a"])
    if real:
        m1, _, _ = vlib.run_lines(drv, [l + " 1" for l in sl]); m0, _, _ = vlib.run_lines(drv, [l + " 0" for l in sl])
        for l, a, b1, b0 in zip(sl, real, m1, m0):
            ck.evaluated(); ck.count("tie_stralloc")
            if a != b1 and a != b0: mism.append(dict(stream="stralloc growth", input=l, real=a, model="%s (allocation succeeds) / %s (fails)" % (b1, b0)))
    # substdio and getln (Mem/Substdio.v) against substdo.c / substdi.c / getln.c behind a scripted descriptor (short and
    # interrupted reads and writes, errors), buffer sizes from 1 byte to beyond SUBSTDIO_OUTSIZE
    sl2 = []
    for _ in range(350 * N):
        cap = rng.choice([1, 2, 3, 7, 16, 100, 8192, 9000])
        scr = ",".join(rng.choice(["k0", "k1", "k2", "k5", "k99", "k9000", "i", "i", "e"] if rng.random() < 0.3 else ["k0", "k1", "k3", "k50", "k8191", "i"]) for _ in range(rng.randint(0, 12))) or "-"
        ops = []
        for _ in range(rng.randint(1, 8)):
            k_ = rng.choice("ppbbfP")
            if k_ == "f": ops.append("f")
            else:
                n_ = rng.choice([0, 1, 2, cap - 1, cap, cap + 1, 2 * cap + 1, 5, 20] + ([8191, 8192, 8193, 17000] if rng.random() < 0.15 else [])) if rng.random() < 0.5 else rng.randint(0, 30)
                ops.append(k_ + vlib.hx(bytes(rng.randrange(256) for _ in range(max(0, n_)))))
        sl2.append("out %d %s %s" % (cap, scr, ",".join(ops)))
    for _ in range(350 * N):
        cap = rng.choice([1, 2, 3, 7, 16, 100, 8192])
        scr = ",".join(rng.choice(["k0", "k1", "k2", "k5", "k99", "i", "i", "e"] if rng.random() < 0.3 else ["k0", "k1", "k3", "k50", "i"]) for _ in range(rng.randint(0, 15))) or "-"
        src_ = bytes(rng.choice(b"ab\n\n\nc") for _ in range(rng.choice([0, 1, 2, 5, 40, 200, 200, 9000 if rng.random() < 0.2 else 60])))
        sl2.append("in %d %s 0a %s" % (cap, scr, vlib.hx(src_)))
    for _ in range(250 * N):
        cap = rng.choice([1, 2, 3, 7, 16, 100])
        scr = ",".join(rng.choice(["k0", "k1", "k2", "k5", "k99", "i", "i", "e"] if rng.random() < 0.3 else ["k0", "k1", "k3", "k50", "i"]) for _ in range(rng.randint(0, 12))) or "-"
        src_ = bytes(rng.randrange(256) for _ in range(rng.choice([0, 1, 2, 5, 40, 200])))
        lens = ",".join(str(rng.choice([0, 1, 2, 3, cap - 1, cap, cap + 1, 2 * cap, 50]) if rng.random() < 0.7 else rng.randint(0, 30)) for _ in range(rng.randint(1, 10)))
        sl2.append("get %d %s %s %s" % (cap, scr, lens.replace("-1", "0"), vlib.hx(src_)))
    real = tie("h_substdio", None, sl2, "substdio", link=["getln.a", "substdio.a", "stralloc.a", "error.a", "str.a"])
    if real:
        # substdo.c as generated from today's source (op = the scripted write oracle), every access checked: same answers as the compiled functions
        try:
            # (lines of at most 1500 bytes of data: the generated byte_copy writes a list element per step, quadratic in the buffer size)
            outl = [(l_, a_) for l_, a_ in zip(sl2, real) if (l_.startswith("out") and len(l_) < 3000) or l_.startswith("get")]
            g_, _, _ = vlib.run_lines(vlib.build_driver("GEN"), [l_ for l_, _ in outl])
            for (l_, a_), y_ in zip(outl, g_):
                ck.count("substdio_generated")
                if y_ != a_: mism.append(dict(stream="substdo.c generated / compiled", kind="translator", input=l_[:600], real=a_[:300], generated=y_[:300])); break
        except RuntimeError as e:
            mism.append(dict(stream="substdo.c generated", kind="translator", what="the generated functions do not build", log=str(e)[-600:]))
        mod, _, _ = vlib.run_lines(drv, sl2)
        for l_, a_, b_ in zip(sl2, real, mod):
            ck.evaluated(); ck.count("tie_substdio_" + l_.split()[0])
            if l_.startswith("out"):
                if not b_.endswith(" 1"): fails.append(("memory:substdio:model-copy-outside-buffer", dict(kind="input", surface="substdio", line=l_[:2000], model=b_[:200]), len(l_))); continue
                b_ = b_[:-2]
            if a_ != b_: mism.append(dict(stream="substdio / getln", input=l_[:600], real=a_[:300], model=b_[:300]))
    # dns.c: the record walk (Mem/DnsParse.v) against dns_ip / dns_ptr / dns_mxip on scripted responses whose names are
    # uncompressed labels or one backward pointer (the shape the model's dn_expand stand-in covers); counts, types,
    # lengths and truncation points are arbitrary
    def gen_response():
        def name():
            k_ = rng.random()
            if k_ < 0.3: return b"\x00"
            if k_ < 0.6: return b"".join(bytes([len(l_)]) + l_ for l_ in [rng.choice([b"mx", b"a", b"example", b"h" * 63]) for _ in range(rng.randint(1, 3))]) + b"\x00"
            return b"\xc0\x0c"
        qd = rng.choice([0, 1, 1, 1, 2])
        body = b""
        for _ in range(qd): body += b"\x02mx\x07example\x00" + b"\x00\x01\x00\x01"
        if qd == 0: body += b""
        nrec = rng.randint(0, 5)
        for _ in range(nrec):
            typ = rng.choice([1, 1, 15, 15, 12, 5, 16])
            data = {1: bytes(rng.randrange(256) for _ in range(rng.choice([4, 4, 4, 0, 3, 6]))), 15: rng.choice([b"\x00\x0a" + (b"\xc0\x0c" if qd else b"\x00"), b"\x00", b"\x00\x05\x02mx\x00", b""]),
                    12: rng.choice([b"\x04host\x00", b"\xc0\x0c" if qd else b"\x00", b"\x40", b""]), 5: b"\x00", 16: b"\x03txt"}[typ]
            rdl = len(data) if rng.random() < 0.7 else rng.choice([0, 1, 3, 4, 5, len(data) + 3, 200, 65535])
            nm = name() if qd else rng.choice([b"\x00", b"\x01a\x00"])
            body += nm + typ.to_bytes(2, "big") + b"\x00\x01" + b"\x00\x00\x00\x3c" + rdl.to_bytes(2, "big") + data
        an = nrec if rng.random() < 0.7 else rng.choice([0, 1, nrec + 1, nrec + 3, 40])
        r = b"\x12\x34\x80\x00" + qd.to_bytes(2, "big") + an.to_bytes(2, "big") + b"\x00\x00\x00\x00" + body
        k_ = rng.random()
        if k_ < 0.25: r = r[:rng.randint(12, len(r))]          # res_query never hands back less than a header (12 bytes)
        return r[:500]
    dresp = [gen_response() for _ in range(400 * N)]
    dlines, dmodel = [], []
    for r in dresp:
        kind = rng.choice(["ip", "ip", "ptr", "mx"])
        if kind == "ip": dlines.append("ip %s %s" % (vlib.hx(b"mx.example"), vlib.hx(r))); dmodel.append("dns ip 1 " + vlib.hx(r))
        elif kind == "ptr": dlines.append("ptr 1.2.3.4 %s" % vlib.hx(r)); dmodel.append("dns name 12 " + vlib.hx(r))
        else: dlines.append("mxip %s %s" % (vlib.hx(b"mx.example"), vlib.hx(r))); dmodel.append("dns mx 15 " + vlib.hx(r))
    real = tie("h_dns", "qmail-remote", dlines, "dns_walk") if False else None
    try:
        objs_, libs_ = rb.link_deps("qmail-remote")
        hd = rb.compile_harness(os.path.join(vlib.VERIF, "harness", "h_dns.c"), os.path.join(vlib.scratch(), "h_dns_tie.san"), objs=[o for o in objs_ if o != "dns.o"], libs=libs_)
        real = []
        for l_ in dlines:                       # one process per case: dns.c keeps a static response buffer
            p_ = subprocess.run([hd], input=(l_ + "\n").encode(), stdout=subprocess.PIPE, stderr=subprocess.PIPE, env=env0, timeout=60)
            if SAN_RE.search(p_.stderr) or not p_.stdout.strip():
                fails.append(("memory:dns_walk:sanitizer", dict(kind="input", surface="dns_walk", line=l_[:3000], stderr_tail=p_.stderr[-600:].decode("latin1")), len(l_))); real.append(None)
            else: real.append(p_.stdout.decode().strip())
    except vlib.HarnessBuildError as e:
        mism.append(dict(stream="harness h_dns does not build", input="", real=str(e)[-800:], model="")); real = None
    if real:
        mod, _, _ = vlib.run_lines(drv, dmodel)
        for l_, a_, m_ in zip(dlines, real, mod):
            if a_ is None: continue
            ck.evaluated(); ck.count("tie_dns_walk"); ck.count("tie_dns_walk_" + ("resolve_soft" if m_ == "S" else ("soft" if "S" in m_.split(";")[0] else "complete")))
            kind = l_.split()[0]
            if m_ == "S": exp_ = "r=-1"
            else:
                rs_, hi_, _ = m_.split(";")
                if int(hi_) >= len(bytes.fromhex(l_.split()[2])):
                    fails.append(("memory:dns_walk:model-read-outside", dict(kind="input", surface="dns_walk", line=l_[:3000], model=m_), len(l_))); continue
                if kind == "ip": exp_ = "r=-1" if "S" in rs_ else "r=0 n=%d" % rs_.count("G")
                elif kind == "ptr":
                    g_, s_ = rs_.find("G"), rs_.find("S")
                    exp_ = "r=0" if g_ >= 0 and (s_ < 0 or g_ < s_) else ("r=-1" if s_ >= 0 else "r=-2")
                else: exp_ = "r=-1" if "S" in rs_ else ("r=0 n=0" if "G" in rs_ else "r=-2")
            if not a_.startswith(exp_): mism.append(dict(stream="dns record walk", input=l_[:600], real=a_, model=m_ + " -> " + exp_)); vlib.log("dns mismatch %s | real %s | model %s -> %s" % (l_[:300], a_, m_, exp_))
    # netstring lengths: the model's verdict against the exit of the real qmail-qmtpd
    # ---------------------------------------------------------------- whole programs (sanitised binaries)
    def run_prog(S, argv, inp, env=None, cwd=None, preexec=None, timeout=60):
        e = dict(env0)
        if env: e.update(env)
        try:
            p = subprocess.run(argv, input=inp, stdout=subprocess.PIPE, stderr=subprocess.PIPE, env=e, cwd=cwd or home, preexec_fn=preexec, timeout=timeout)
        except subprocess.TimeoutExpired:
            S.fails.append(("memory:%s:hang" % S.name, dict(kind="input", surface=S.name, input_hex=vlib.hx(inp[:20000]), input_len=len(inp)), len(inp))); return None
        S.judge(inp, p.returncode, p.stderr, extra=dict(argv=[os.path.basename(argv[0])] + list(argv[1:]), env={k: v for k, v in (env or {}).items() if k.isupper() and not k.startswith(("ASAN", "UBSAN", "LD_"))}))
        return p
    qq = os.path.join(vlib.VERIF, "harness", "qqstub.sh"); qqout = os.path.join(vlib.scratch(), "c20qq")
    open(os.path.join(home, "control", "me"), "w").write("server.example\n")
    net = {"TCPREMOTEIP": "10.1.2.3", "TCPREMOTEHOST": "client.example", "TCPLOCALHOST": "server.example", "QMAILQUEUE": qq, "QQOUT": qqout}
    # SMTP
    S = Surface(ck, "qmail-smtpd", fails, {0, 1})
    sess = b"EHLO c\r\nMAIL FROM:<a@b.example>\r\nRCPT TO:<\"q\\\"x\"@server.example>\r\nRCPT TO:<@r:u@[10.1.2.3]>\r\nDATA\r\nReceived: x\r\nSubject: y\r\n\r\n.dot\r\n.\r\nRSET\r\nVRFY x\r\nHELP\r\nQUIT\r\n"
    big = [b"HELO " + b"h" * 70000 + b"\r\n", b"MAIL FROM:<" + b"a" * 5000 + b">\r\nQUIT\r\n", b"MAIL FROM:<a>\r\n" + b"RCPT TO:<x@server.example>\r\n" * 3000 + b"QUIT\r\n",
           b"MAIL FROM:<a>\r\nRCPT TO:<b@server.example>\r\nDATA\r\n" + b"Received: x\r\n" * 120 + b"\r\n.\r\n", b"\x00" * 3000, b"MAIL " + b"\\" * 4001 + b"\r\n",
           b"MAIL FROM:<a>\r\nRCPT TO:<b@server.example>\r\nDATA\r\n" + b"x" * 300000, b"RCPT TO:<" + b"\"" * 1801 + b">\r\n" * 2]
    for inp in mutations(rng, sess, 120 * N, long_tokens=[b"A" * 2000, b"\\" * 901, b"<" * 500]) + big:
        run_prog(S, [rb.path("qmail-smtpd")], inp, env=dict(net, RELAYCLIENT="@relay.example") if rng.random() < 0.3 else net)
    # QMTP (with and without RELAYCLIENT: the recipient and the suffix share one 1000-byte buffer)
    S = Surface(ck, "qmail-qmtpd", fails, {0, 100, 111})
    pkg = lambda msg, snd, rc: ns(msg) + ns(snd) + ns(b"".join(ns(r) for r in rc))
    basep = pkg(b"\nSubject: x\n\nb\n", b"s@x.example", [b"u@server.example", b"v@server.example"])
    inputs = mutations(rng, basep, 120 * N, long_tokens=[b"9" * 12, b"1" * 30, b":" * 9])
    for rl in (0, 1, 7, 60, 500, 998):
        for ln in (0, 1, 900, 990, 995, 998, 999, 1000, 1001, 1500):
            if ln + rl > 1010 and ln < 999: continue
            inputs.append((pkg(b"\nb\n", b"s@x.example", [b"r" * ln]), rl))
    inputs += [b"2147483648:" + b"x" * 100, b"4294967297:\nx,", b"99999999999999999999:x", ns(b"\nx") + b"2000000000:" + b"s" * 50, ns(b"\nx") + ns(b"s@x") + b"4294967295:" + ns(b"u@x"),
               ns(b"\nx") + ns(b"s" * 1000 + b"@x") + ns(ns(b"u@server.example")), ns(b"\nx") + ns(b"s@x") + ns(b"999:u@server.example,")]
    for it in inputs:
        inp, rl = it if isinstance(it, tuple) else (it, rng.choice([0, 0, 14]))
        run_prog(S, [rb.path("qmail-qmtpd")], inp, env=dict(net, RELAYCLIENT="@" + "r" * (rl - 1)) if rl else net)
    gl = [b"".join(rng.choice([b"0", b"1", b"2", b"9", b"9", b"/", b":", b"a", b" "]) for _ in range(rng.randint(1, 14))) for _ in range(150 * N)] + [b"2000000009:", b"2000000010:", b"200000001:", b"0:", b":", b"00000000000000000000001:"]
    gm, _, _ = vlib.run_lines(drv, ["getlen " + vlib.hx(g) for g in gl])
    for g, m in zip(gl, gm):
        p = run_prog(S, [rb.path("qmail-qmtpd")], g, env=net)
        if p is None: continue
        ck.count("tie_getlen")
        want = {"res": (111,), "bad": (100,)}.get(m.split()[0])
        if m.startswith("ok 0"): want = (100,)                     # an empty message is a protocol error
        if want and p.returncode not in want:
            mism.append(dict(stream="netstring length", input=vlib.hx(g), real="exit %d" % p.returncode, model=m))
    # QMQP
    S = Surface(ck, "qmail-qmqpd", fails, {0, 100, 111})
    baseq = ns(ns(b"Subject: x\n\nb\n") + ns(b"s@x.example") + ns(b"u@y.example") + ns(b"v@y.example"))
    for inp in mutations(rng, baseq, 100 * N, long_tokens=[b"9" * 12, b":" * 5]) + [b"2147483649:" + b"x" * 64, ns(b"7:abc,") , ns(ns(b"m") + b"4000000000:s,"), ns(ns(b"m") + ns(b"s" * 5000) + ns(b"r" * 5000))]:
        run_prog(S, [rb.path("qmail-qmqpd")], inp, env=net)
    # POP3 (needs a maildir and a non-root uid)
    S = Surface(ck, "qmail-pop3d", fails, {0, 1, 111})
    pbase = os.path.join(vlib.scratch(), "pophome"); shutil.rmtree(pbase, ignore_errors=True)
    for d in ("Maildir/new", "Maildir/cur", "Maildir/tmp"): os.makedirs(os.path.join(pbase, d))
    for i, c in enumerate([b"Subject: a\n\n.dot\nx\n", b"no newline at end", b"", b"H: x\n" * 400 + b"\n" + b"b\n" * 400]):
        open(os.path.join(pbase, "Maildir", "new" if i % 2 else "cur", "17000000%02d.%d.host" % (i, i) + (":2,S" if i % 2 == 0 else "")), "wb").write(c)
    for root, ds, fs in os.walk(pbase):
        for x in ds + fs: os.chown(os.path.join(root, x), 65534, 65534)
    os.chown(pbase, 65534, 65534); os.chmod(vlib.scratch(), 0o755)
    psess = b"STAT\r\nLIST\r\nLIST 2\r\nUIDL\r\nRETR 1\r\nTOP 4 3\r\nDELE 2\r\nRSET\r\nLAST\r\nNOOP\r\nQUIT\r\n"
    pin = mutations(rng, psess, 100 * N, long_tokens=[b"9" * 25, b" " * 300, b"1" * 2000])
    pin += [b"RETR 18446744073709551617\r\n", b"TOP 1 18446744073709551615\r\n", b"TOP 4 2147483648\r\nQUIT\r\n", b"LIST " + b"0" * 5000 + b"1\r\n", b"DELE -1\r\n", b"x" * 70000 + b"\r\n", b"TOP\r\nRETR\r\nDELE\r\n"]
    for inp in pin:
        run_prog(S, [rb.path("qmail-pop3d"), "Maildir"], inp, cwd=pbase, preexec=lambda: (os.setgid(65534), os.setuid(65534)))
    # qmail-inject: whole messages
    S = Surface(ck, "qmail-inject", fails, {0, 100, 111})
    ienv = {"QMAILQUEUE": qq, "QQOUT": qqout, "QMAILDEFAULTHOST": "dh.example", "QMAILDEFAULTDOMAIN": "dd.example", "QMAILPLUSDOMAIN": "pd.example", "QMAILIDHOST": "id.example", "QMAILUSER": "u", "QMAILHOST": "h.example"}
    mbase = b"From: \"A (x) B\" <a@b.example>\nTo: g: x@y, \"q\\\"\"@z;, (c (nested \\) c)) w@v\nCc: <@r:p@q>\n  folded, line@x\nBcc: hidden@x\nSubject: s\n\nbody\n"
    imsgs = mutations(rng, mbase, 100 * N, long_tokens=[b"(" * 3000, b"a@b, " * 3000, b"\"" + b"\\x" * 2000 + b"\"", b"\n " * 2000])
    imsgs += [b"To: " + b"(" * 10000 + b")" * 10000 + b" a@b\n\n", b"To: " + b"a@b," * 100000 + b"\n\n", b"To: (" + b"\\)" * 50000 + b")x@y\n\n", b"To: " + b"<" * 20000 + b"\n\n", b"To: x\n" + b" y\n" * 30000 + b"\n"]
    for inp in imsgs:
        run_prog(S, [rb.path("qmail-inject"), rng.choice(["-h", "-H", "-a"]), "--", "arg@x.example"], inp, env=ienv, timeout=120)
    # qmail-clean requests
    S = Surface(ck, "qmail-clean", fails, {0, 111})
    cbase = b"foop/123\x00todo/9\x00intd/12a\x00mess/4\x00"
    for inp in mutations(rng, cbase, 80 * N, long_tokens=[b"9" * 30, b"/" * 200, b"x" * 500]) + [b"foop/" + b"9" * 100 + b"\x00", b"a" * 20000, b"todo/18446744073709551617\x00"]:
        run_prog(S, [rb.path("qmail-clean")], inp, cwd=home)

    # the delivery daemon itself: histories of the sanitised qmail-send + qmail-clean + qmail-queue (sanitizer reports go to files,
    # descriptor 2 of qmail-send is a report channel)
    import queue_common as qc, glob as _glob, signal as _signal
    S = Surface(ck, "qmail-send_daemon", fails, None)
    asan_log = os.path.join(vlib.scratch(), "asan.send")
    def daemon_history(tag, script):
        for f in _glob.glob(asan_log + "*"): os.remove(f)
        W = qc.World(rb, "c20d", extra_env={"ASAN_OPTIONS": SAN_ENV["ASAN_OPTIONS"] + ":log_path=" + asan_log, "UBSAN_OPTIONS": SAN_ENV["UBSAN_OPTIONS"] + ":log_path=" + asan_log})
        R = qc.Runner(W, {}, default=b"K")
        try:
            script(W, R)
        except (ProcessLookupError, OSError, BrokenPipeError):
            pass                                  # the daemon is gone: the reports below say why
        finally:
            died = W.d is not None and not W.d.alive()
            if W.d: R.kill()
        reports = b"".join(open(f, "rb").read() for f in _glob.glob(asan_log + "*"))
        S.judge(tag.encode(), 97 if (reports or died) else 0, reports or (b"qmail-send died during the history" if died else b""), extra=dict(history=R.history[-30:], daemon_died=died))
    def h_plain(W, R):
        R.plan = {b"a@local.example": [b"K"], b"b@remote.example": [b"D"], b"c@local.example": [b"Z", b"Xgarbage" + b"g" * 3000, b"K"]}
        R.start(); R.service(0.3); R.inject(b"s@x.example", [b"a@local.example", b"b@remote.example", b"c@local.example"]); R.inject(b"", [b"b@remote.example"]); R.drain(10)
    def h_hup_unreadable(W, R):
        R.start(); R.service(0.3)
        vd = os.path.join(W.home, "control", "virtualdomains")
        open(vd, "w").write("v.example:tag\n"); os.kill(W.d.send_pid, _signal.SIGHUP); R.service(0.3)
        os.remove(vd); os.mkdir(vd); os.kill(W.d.send_pid, _signal.SIGHUP); R.service(0.3)          # reading it now fails (EISDIR)
        R.inject(b"s@x.example", [b"u@v.example", b"w@elsewhere.example", b"x@local.example"]); R.drain(6)
        os.kill(W.d.send_pid, _signal.SIGHUP); R.service(0.3)
        R.inject(b"s@x.example", [b"y@v.example"]); R.drain(6)
        os.rmdir(vd)
    def h_hup_big(W, R):
        R.start(); R.service(0.3)
        open(os.path.join(W.home, "control", "locals"), "w").write("".join("host%d.example\n" % i for i in range(20000)) + "local.example\n")
        open(os.path.join(W.home, "control", "virtualdomains"), "wb").write(b":catch\n" + b"x" * 70000 + b":t\n" + b"\x00\xff:z\n" + b"nocolon\n")
        os.kill(W.d.send_pid, _signal.SIGHUP); R.service(0.4)
        R.inject(b"s@x.example", [b"q@" + b"d" * 300 + b".example", b"r%s@local.example"]); R.drain(6)
        os.remove(os.path.join(W.home, "control", "virtualdomains"))
    def h_long_addresses(W, R):
        R.plan = {}
        R.start(); R.service(0.3)
        R.inject(b"s" * 900 + b"-@[]", [b"l" * 950 + b"@local.example", b"\"q\"@" + b"r" * 800, b"a@b@c%d@local.example"]); R.default = b"D"; R.drain(8)
    for tag, sc in (("delivery, deferral, garbled report, bounce", h_plain), ("SIGHUP with an unreadable virtualdomains, then non-local recipients", h_hup_unreadable),
                    ("SIGHUP with huge control files", h_hup_big), ("900-byte sender and recipients, all failing", h_long_addresses)):
        daemon_history(tag, sc)
    # qmail-popup: long and hostile lines before authentication
    S = Surface(ck, "qmail-popup", fails, {0, 1})
    pstub = os.path.join(vlib.scratch(), "pw.sh"); open(pstub, "w").write("#!/bin/sh\ncat <&3 >/dev/null\nexit 1\n"); os.chmod(pstub, 0o755)
    pps = b"USER joe\r\nNOOP\r\nPASS secret word\r\n"
    for inp in mutations(rng, pps, 60 * N, long_tokens=[b"u" * 5000, b" " * 3000, b"\x00" * 50]) + [b"APOP " + b"a" * 70000 + b" b\r\n", b"USER " + b"x" * 200000 + b"\r\nPASS y\r\n", b"APOP a " + b"d" * 100000 + b"\r\n", b"\r\n" * 5000]:
        run_prog(S, [rb.path("qmail-popup"), "h" * rng.choice([1, 60, 5000]) + ".example", pstub], inp)
    # qmail-rspawn / spawn.c: hostile command streams (delivery number, message id, sender, recipient)
    S = Surface(ck, "qmail-rspawn", fails, {0, 111})
    rstub = os.path.join(home, "bin", "qmail-remote.stub")
    cmdb = b"\x00" + b"0/23\x00s@x.example\x00r@y.example\x00" + b"\x01" + b"9/99\x00\x00r2@y\x00"
    spin = mutations(rng, cmdb, 80 * N, long_tokens=[b"9" * 300, b"/" * 200, b"a" * 5000]) + [b"\x05" + b"1" * 200000 + b"\x00s\x00r@h\x00", b"\xff0/1\x00" + b"s" * 100000 + b"\x00r@h\x00", b"\x00" * 3000,
                                                                                   b"\x01" + b"0/23\x00s\x00" + b"r" * 200000]
    renv = vlib.shim_env(home); renv.update(SAN_ENV); renv["LD_PRELOAD"] = vlib.SHIM
    for inp in spin:
        run_prog(S, [rb.path("qmail-rspawn")], inp, env=renv, cwd=home)
    # control files and constant databases read by the sanitised qmail-smtpd
    S = Surface(ck, "control_files", fails, {0, 1, 111})
    cdir = os.path.join(home, "control")
    sess2 = b"HELO x\r\nMAIL FROM:<a@b.example>\r\nRCPT TO:<u@deep.sub.example.org>\r\nRCPT TO:<v@[10.1.2.3]>\r\nQUIT\r\n"
    saved = {}
    names = ["rcpthosts", "badmailfrom", "databytes", "timeoutsmtpd", "localiphost", "smtpgreeting", "me", "morercpthosts.cdb"]
    for f in names:
        pth = os.path.join(cdir, f); saved[f] = open(pth, "rb").read() if os.path.exists(pth) else None
    goodcdb = None
    try:
        open(os.path.join(cdir, "morercpthosts"), "wb").write(b"".join(b"host%d.example\n" % i for i in range(40)) + b".sub.example.org\n")
        r0 = subprocess.run([rb.path("qmail-newmrh")], env=dict(env0, LD_PRELOAD=""), cwd=home, stdout=subprocess.PIPE, stderr=subprocess.PIPE)
        goodcdb = open(os.path.join(cdir, "morercpthosts.cdb"), "rb").read() if r0.returncode == 0 else None
    except OSError: pass
    variants = [b"", b"\n", b"\x00" * 300, b"x" * 100000, b"a\n" * 20000, b"#c\n \t\n", b"99999999999999999999999\n", b"-5\n", b"@\n@\n", b"h.example" + b" " * 5000 + b"\n", b"\xff\xfe\n", b"line without newline"]
    for f in names[:-1]:
        for v in (variants if ck.thorough else rng.sample(variants, 5)):
            open(os.path.join(cdir, f), "wb").write(v)
            run_prog(S, [rb.path("qmail-smtpd")], sess2, env=net)
        pth = os.path.join(cdir, f)
        if saved[f] is None: os.remove(pth)
        else: open(pth, "wb").write(saved[f])
    if goodcdb:
        open(os.path.join(cdir, "rcpthosts"), "wb").write(b"nothing.example\n")
        cuts = list(range(0, len(goodcdb), max(1, len(goodcdb) // (120 if ck.thorough else 40))))
        for c in cuts:
            open(os.path.join(cdir, "morercpthosts.cdb"), "wb").write(goodcdb[:c]); run_prog(S, [rb.path("qmail-smtpd")], sess2, env=net)
        for _ in range(60 * N):
            b = bytearray(goodcdb); q2 = rng.randrange(len(b)); b[q2:q2 + 4] = bytes(rng.randrange(256) for _ in range(4))
            open(os.path.join(cdir, "morercpthosts.cdb"), "wb").write(bytes(b)); run_prog(S, [rb.path("qmail-smtpd")], sess2, env=net)
    for f in ("morercpthosts.cdb", "morercpthosts", "rcpthosts"):
        pth = os.path.join(cdir, f)
        if os.path.exists(pth): os.remove(pth)
    # .qmail files read by qmail-local -n
    S = Surface(ck, "dot_qmail", fails, {0, 100, 111})
    uh = os.path.join(vlib.scratch(), "uhome"); shutil.rmtree(uh, ignore_errors=True); os.makedirs(uh); os.chmod(uh, 0o755)
    dq = b"# comment\n./Maildir/\n/var/mbox\n|prog arg\n&fwd@x.example\nbare@y.example\n+list\n"
    for body in mutations(rng, dq, 80 * N, long_tokens=[b"&" + b"a" * 5000, b"|" + b"x" * 100000, b"\n" * 3000, b"/" * 2000]) + [b"&" + b"<" * 50000 + b"\n", b"a" * 300000, b"\x00" * 1000 + b"\n"]:
        open(os.path.join(uh, ".qmail"), "wb").write(body); os.chmod(os.path.join(uh, ".qmail"), 0o644)
        run_prog(S, [rb.path("qmail-local"), "-n", "--", "user", uh, "user", "", "", "host.example", "sender@x.example", "./Mailbox"], b"Subject: x\n\nb\n", cwd=uh)
    # qmail-remote against a hostile server
    S = Surface(ck, "qmail-remote", fails, {0, 111})
    import C09
    srv = C09.Server()
    open(os.path.join(cdir, "smtproutes"), "w").write(":127.0.0.1:%d\n" % srv.port)
    hostile = [b"220 " + b"x" * 100000 + b"\r\n", b"220-" * 30000, b"220 ok\r\n250 ok\r\n" + b"250-" + b"y" * 70000 + b"\r\n250 z\r\n", b"\x00" * 9000, b"220 a\r\n250 b\r\n250 c\r\n550 " + b"\xff" * 6000 + b"\r\n",
               b"2", b"999999999999999999999 x\r\n", b"220 ok\r\n" + b"250 ok\r\n" * 6 + b"354 go\r\n250 " + b"q" * 9000, b"\r\n" * 20000]
    for _ in range(40 * N):
        hostile.append(b"".join(rng.choice([b"220 ok\r\n", b"250 ok\r\n", b"354 go\r\n", b"451 t\r\n", b"550-a\r\n550 b\r\n", b"25", b"\n", b"250-" + b"m" * rng.randint(1, 6000) + b"\r\n", b"\x00\xff"]) for _ in range(rng.randint(1, 9))))
    msgf = os.path.join(vlib.scratch(), "c20.msg"); open(msgf, "wb").write(b"Subject: t\n\n.dot\nline\n" + b"x" * 3000 + b"\n")
    for sc in hostile:
        srv.script = sc
        ck.evaluated(); ck.count("surface_qmail-remote")
        try:
            with open(msgf, "rb") as f0:
                pr = subprocess.run([rb.path("qmail-remote"), "dest.example", "s@client.example", "r1@dest.example", "\"q r\"@dest.example"], stdin=f0, stdout=subprocess.PIPE, stderr=subprocess.PIPE, env=dict(env0), cwd=home, timeout=60)
        except subprocess.TimeoutExpired:
            fails.append(("memory:qmail-remote:hang", dict(kind="input", surface="qmail-remote", server_script_hex=vlib.hx(sc[:20000])), len(sc))); continue
        S.judge(sc, pr.returncode, pr.stderr, extra=dict(argv=["qmail-remote"], server_script=True))
    os.remove(os.path.join(cdir, "smtproutes"))
    ck.cov["disagreements_checked"] = len(mism)
    ck.cov["rule"] = ("ASan+UBSan build of the current tree. Function harnesses: token822_parse/unquote/unparse, doheaderfield, quote2, addrmangle, addrparse, smtpd blast(), remote blast(), dns.c with scripted "
                      "responses (valid, every truncation, mutated, rdlength beyond the end, huge counts), del_dochan. Whole programs: qmail-smtpd, qmail-qmtpd (recipient lengths 0..1500 x RELAYCLIENT lengths 0..998, "
                      "declared lengths to 2^64), qmail-qmqpd, qmail-pop3d, qmail-inject (10^4 nested comments, 10^5 addresses), qmail-clean, qmail-popup, qmail-rspawn command streams, control files and corrupt/truncated morercpthosts.cdb through qmail-smtpd, .qmail files through qmail-local -n, qmail-remote against a hostile scripted server. Every truncation point of a valid input per surface, seeded mutations, extreme lengths. "
                      "The modelled part (stralloc growth, token822 two-pass sizes, netstring/recipient bounds) is proved; everything else is only executed. non-trivial = every input (all are hostile by construction)")
    ck.cov["proved_vs_executed"] = dict(proved=["stralloc_readyplus/ready/append/catb/copyb index safety and overflow refusal", "quote.c doit size", "token822_parse count pass = fill pass", "QMTP/QMQP netstring length bound and recipient buffer"],
                                        executed_only="all other code reached by the inputs above")
    for s in range(1): pass
    fails.sort(key=lambda x: x[2])
    seen = set()
    for key, obj, _ in fails:
        if key in seen: continue
        seen.add(key)
        ck.violation(key, obj, what="sanitised build of the real code: " + key)
    real_fails = [f for f in fails if f[0] not in ck.known]
    if mism and not real_fails:
        ck.violation("correspondence", dict(kind="correspondence", broken=mism[0]["stream"], first=mism[0], n=len(mism)), nofail=True, what=mism[0]["stream"])
    ck.proof_failure_violation(bool(real_fails))
    ck.finish(trusted_base=[vlib.KERNEL_TB, "gcc -fsanitize=address,undefined -fno-sanitize-recover=all (the sanitizers' own detection power)", "function harnesses under harness/ (call the real functions; _exit -> longjmp)"],
              assumptions=["a universal negative over 14 800 lines of C is not proved: outside the bounds-explicit models the evidence is sanitised execution of generated inputs",
                           "uninitialised reads are not detected (no MemorySanitizer run)", "alloc failure paths are not forced"],
              explanation="level other: Coq theorems for the modelled buffer layer and parsers, sanitised differential execution for the rest; counts are reported separately in coverage.proved_vs_executed and input_distribution")

def replay(path):
    obj = json.load(open(path))
    print("re-run ./check C20 (deterministic for the same VERIF_SEED); recorded case:", json.dumps(obj)[:2500])
    return 0
