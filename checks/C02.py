"""C02 - every queue entry is always in a documented state under any interleaving.

proof: coq/Props/Properties_C02.v (Queue/QueueSpec.v: guarded automaton; documented-state invariant, disappearance
       order, garbage collection only when eliminating or ossified, second daemon refused)
tie:   the real qmail-queue (1-3 at a time), qmail-send and qmail-clean run under the interposer's gate, which stops
       each of them before every unlink/link/rename/open-for-writing; the controller releases one call at a time in a
       seeded order, kills everything at a chosen step and restarts, and after EVERY granted step lists the whole
       queue: every number must be in one of S1-S5, mess/n must have inode n; the log of every process is translated
       into the automaton's events and every event must be accepted.  Leftovers of killed injections, aged to 35 h and
       37 h, and old messages that still have todo/info: only the 37 h-old S2/S3 ones may disappear.  A second
       qmail-send on a locked queue must exit 111 without touching a file."""
import json, os, signal, sys, time
import vlib
import daemon_common as dc
import queue_common as qc
import C03 as base

PID = "C02"

def undocumented(home):
    bad = []
    for n, fs in qc.listing(home).items():
        if qc.pattern_documented(fs) is None: bad.append((n, sorted(fs)))
        if "mess" in fs and fs["mess"][0] != n: bad.append((n, "mess inode %d" % fs["mess"][0]))
    return bad

def gated_history(ck, rb, drv, rng, h, fails, mism):
    W = qc.World(rb, "gate")
    sock = os.path.join(vlib.scratch(), "gate02.sock")
    gs = dc.GateServer(sock)
    W.env.update({"SYSSHIM_GATE": sock, "SYSSHIM_GATEALL": "1"})
    steps = []
    def grant(pid):
        op = gs.ack(pid); det = gs.trace[-1] if gs.trace else None
        end = time.time() + 0.5
        while time.time() < end:
            gs.poll(0.01)
            if W.d: W.d.pump(0.0)
            if pid in gs.pending or pid in gs.gone: break
            if op == "select" and time.time() > end - 0.42: break
        bad = undocumented(W.home)
        ck.evaluated()
        if bad:
            fails.append(("queue:undocumented-state", dict(kind="schedule", history=steps[-40:], listing=[(n, f) for n, f in bad][:5]), len(steps)))
            return False
        return True
    plan = {}
    R = qc.Runner(W, plan, default=rng.choice([b"K", b"D"]))
    try:
        R.start()
        injs = []
        ninj = rng.randint(1, 3)
        kill_at = rng.randint(5, 70) if rng.random() < 0.6 else None
        t_end = time.time() + 25
        n = 0
        restarted = False
        while time.time() < t_end:
            gs.poll(0.02); R.service(0.0)
            if len(injs) < ninj and (not injs or rng.random() < 0.08):
                injs.append(W.inject(sender=b"s@x.example", rcpts=[b"g%d@local.example" % len(injs), b"g%d@remote.example" % len(injs)], wait=False))
                steps.append("start injection %d" % len(injs)); continue
            if not gs.pending:
                idle = all(_dead(p) for p in injs) and len(injs) == ninj and not qc.listing(W.home)
                if idle: break
                if W.d and not W.d.pending(): 
                    try: W.alarm()
                    except ProcessLookupError: pass
                continue
            pid = rng.choice(sorted(gs.pending))
            who = "daemon" if W.d and pid == W.d.send_pid else ("cleaner" if W.d and pid == W.d.clean_pid else "injector %d" % pid)
            steps.append("%s: %s %s" % (who, gs.pending[pid][1], gs.pending[pid][2][:60]))
            if not grant(pid): break
            n += 1
            if kill_at is not None and n == kill_at and not restarted:
                steps.append("SIGKILL qmail-send + qmail-clean (all processes stopped at a gate)")
                W.d.stop(); W.mark("crash"); W.d = None; restarted = True
                bad = undocumented(W.home)
                if bad: fails.append(("queue:undocumented-state", dict(kind="schedule", history=steps[-40:], listing=bad[:5]), len(steps))); break
                gs.poll(0.05); R.start(); steps.append("restart")
        # finish ungated
        for p in injs:
            for _ in range(100):
                gs.poll(0.01)
                for q in list(gs.pending): gs.ack(q)
                if _dead(p): break
        end = time.time() + 4
        while time.time() < end and qc.listing(W.home):
            gs.poll(0.01); R.service(0.02)
            for q in list(gs.pending): gs.ack(q)
        if W.d: W.d.stop(); W.mark("crash"); W.d = None
        R.history = steps
        base.check_history(ck, drv, W, R, "gated schedule %d" % h, [], mism)
        ck.nontrivial("gated%d" % h); ck.count("gated_steps", n)
    finally:
        if W.d: W.d.stop()
        gs.close()

def _dead(pid):
    try:
        p, st = os.waitpid(pid, os.WNOHANG); return p != 0
    except ChildProcessError: return True

def aging(ck, rb, drv, rng, fails, mism):
    """leftovers of killed injections and old messages: only S2/S3 older than 36 h are collected"""
    W = qc.World(rb, "aging")
    now = time.time()
    made = []      # (n, state, age hours)
    def newest():
        L = qc.listing(W.home); return L
    before = set()
    for state, k in (("S2", 4), ("S3", 8), ("S2", 4), ("S3", 8)):
        env = dict(W.env, SYSSHIM_KILLAT=str(k))
        W.inject(rcpts=[b"x@local.example"], env=env)
        L = qc.listing(W.home)
        new = [n for n in L if n not in before]
        for n in new: made.append([n, qc.pattern_documented(L[n]), None]); before.add(n)
    for j in range(12):
        W.inject(rcpts=[b"old%d@local.example" % j]); L = qc.listing(W.home)
        for n in L:
            if n not in before: made.append([n, "S4", None]); before.add(n)
    ages = [37, 37, 35, 35] + [37, 48] * 6
    for m, a in zip(made, ages):
        m[2] = a
        p = qc.qpath(W.home, "mess", m[0]); t = now - a * 3600
        os.utime(p, (t, t)); W.mark("aged %d" % m[0]) if a > 36 else None
    R = qc.Runner(W, {}, default=b"Z"); R.start()
    for _ in range(16):
        R.service(0.12)
        bad = undocumented(W.home)
        if bad:
            fails.append(("queue:undocumented-state", dict(kind="history", scenario="old messages still in todo/ when the daemon starts", made=[(n, s, a) for n, s, a in made], listing=bad[:5]), 0)); break
    L = qc.listing(W.home)
    obj = dict(kind="history", made=[(n, s, a) for n, s, a in made], after={str(n): sorted(fs) for n, fs in L.items()})
    ck.evaluated(len(made))
    for n, s, a in made:
        gone = n not in L
        if s in ("S2", "S3") and a > 36 and not gone: ck.count("old_leftover_not_yet_collected")
        if s in ("S2", "S3") and a <= 36 and gone: fails.append(("queue:young-leftover-collected", dict(obj, n=n, state=s, age_hours=a), 0))
        if s == "S4" and gone: fails.append(("queue:live-message-collected", dict(obj, n=n, age_hours=a), 0))
        ck.nontrivial("aged%s%d" % (s, a))
    bad = undocumented(W.home)
    if bad: fails.append(("queue:undocumented-state", dict(obj, listing=bad[:5]), 0))
    R.kill()
    R.history = ["leftovers: " + repr(obj["made"])]
    base.check_history(ck, drv, W, R, "aged leftovers", [], mism)

def crash_in_preprocessing(ck, rb, drv, rng, fails, mism, judge=None, verdict=b"D"):
    """qmail-send dies at each mutating call between creating info/n and the removal of todo/n; after the restart the
    reports arrive late and out of order"""
    W = qc.World(rb, "cal"); R = qc.Runner(W, {}, default=b"K"); R.start(); R.service(0.3)
    R.inject(b"s@x.example", [b"p1@local.example", b"p2@local.example"]); R.drain(6); R.kill()
    T = qc.Translator(); lines = W.loglines(); T.feed(lines)
    idx = 0; window = []; inside = False
    for l in lines:
        if not l.startswith(str(T.send) + " "): 
            if " unlink todo/" in l: inside = False
            continue
        w = l.split(" ")
        mut = (w[1] in ("unlink", "link", "rename", "fsync")) or (w[1] == "open" and len(w) > 3 and (int(w[3], 8) & 0o3 or int(w[3], 8) & 0o100)) or (w[1] == "write" and w[2] != "0")
        if not mut: continue
        idx += 1
        if w[1] == "open" and w[2].startswith("info/") and int(w[3], 8) & 0o100: inside = True
        if inside: window.append(idx)
    pts = window if ck.thorough else (rng.sample(window, min(4, len(window))) + window[-2:])
    for k in sorted(set(pts)):
        W = qc.World(rb, "pre"); plan = {b"p1@local.example": [verdict], b"p2@local.example": [b"K"]}
        R = qc.Runner(W, plan, default=verdict)
        R.start(send_extra={"SYSSHIM_KILLAT": str(k)}); R.service(0.3)
        R.inject(b"s@x.example", [b"p1@local.example", b"p2@local.example"])
        for _ in range(6):
            R.service(0.1)
            if not W.d.alive(): break
        died = not W.d.alive()
        R.kill(); R.start()
        hist_bad = None
        for r in range(10):
            R.service(0.12, answer=(r >= 3))          # the first reports are withheld so that stale jobs overlap
            bad = undocumented(W.home)
            if bad and not hist_bad: hist_bad = bad
            if r % 3 == 2:
                try: W.alarm()
                except ProcessLookupError: pass
        R.kill()
        ck.evaluated(); ck.nontrivial("pre%d" % k); ck.count("preprocessing_crash_points" if died else "preprocessing_crash_not_reached")
        if hist_bad:
            fails.append(("queue:undocumented-state", dict(kind="history", scenario="SIGKILL before mutating call %d of qmail-send (inside todo_do), restart, late reports" % k, history=R.history[-40:], listing=hist_bad[:5]), k))
        T2 = base.check_history(ck, drv, W, R, "crash inside todo_do at call %d" % k, [], mism, extra=dict(killat=k))
        if judge: judge(W, R, T2, k)

def bounce_chain(ck, rb, drv, rng, fails, mism):
    """every delivery fails: message -> bounce -> double bounce -> discarded triple bounce; every number must end in S1"""
    for sender in (b"s@x.example", b"", b"#@[]"):
        W = qc.World(rb, "chain"); R = qc.Runner(W, {}, default=b"D"); R.start(); R.service(0.3)
        R.inject(sender, [b"f1@local.example", b"f2@remote.example"])
        bad = None
        for r in range(16):
            R.service(0.12)
            b = undocumented(W.home)
            if b and not bad: bad = b
            if r % 3 == 2:
                try: W.alarm()
                except ProcessLookupError: pass
            if R.queue_empty() and not W.d.pending(): break
        R.kill()
        left = undocumented(W.home)
        ck.evaluated(); ck.nontrivial(("chain", sender)); ck.count("bounce_chains")
        if bad or left:
            fails.append(("queue:undocumented-state", dict(kind="history", scenario="every delivery fails permanently, envelope sender %r: bounce chain to the discarded triple bounce" % sender.decode(),
                                                           history=R.history[-40:], listing=(bad or left)[:5]), 1))
        base.check_history(ck, drv, W, R, "bounce chain from sender %r" % sender.decode(), [], mism)

def cleaner_fault(ck, rb, drv, rng, fails, mism):
    """qmail-clean's unlink of intd/n fails (EIO): it must not go on to remove mess/n or todo/n"""
    W = qc.World(rb, "cfault", extra_env={"SYSSHIM_FAIL": "unlink:intd/:5"})
    # a leftover S3 message, 37 hours old, and a complete new message
    W.inject(rcpts=[b"x@local.example"], env=dict(W.env, SYSSHIM_KILLAT="8", SYSSHIM_FAIL=""))
    L0 = qc.listing(W.home)
    for n in L0:
        t = time.time() - 37 * 3600; os.utime(qc.qpath(W.home, "mess", n), (t, t)); W.mark("aged %d" % n)
    W.inject(rcpts=[b"y@local.example"], env=dict(W.env, SYSSHIM_FAIL=""))
    R = qc.Runner(W, {}, default=b"Z"); R.start()
    bad = None
    for _ in range(10):
        R.service(0.12)
        b = undocumented(W.home)
        if b and not bad: bad = b
    R.kill()
    ck.evaluated(); ck.nontrivial("cleaner-fault"); ck.count("cleaner_fault")
    if bad:
        fails.append(("queue:undocumented-state", dict(kind="history", scenario="unlink(intd/n) fails with EIO inside qmail-clean (an aged S3 leftover and a new message)", before={str(n): sorted(f) for n, f in L0.items()}, listing=bad[:5]), 2))
    R.history = ["unlink intd/ fails in qmail-clean"]
    base.check_history(ck, drv, W, R, "cleaner unlink fault", [], [])

def aged_todo_stalled(ck, rb, drv, rng, fails, mism):
    """a message that sat in todo/ for more than 36 hours (the daemon was down) while its preprocessing keeps failing (info/n cannot be
    created): the cleanup pass reaches mess/n first - it must see the todo entry and leave the message alone (S4 stays S4)"""
    W = qc.World(rb, "agedtodo", extra_env={"SYSSHIM_FAIL": "open:info/:28"})
    for j in range(3):
        W.inject(rcpts=[b"old%d@local.example" % j], env=dict(W.env, SYSSHIM_FAIL=""))
    L0 = qc.listing(W.home)
    for n in L0:
        t = time.time() - 39 * 3600; os.utime(qc.qpath(W.home, "mess", n), (t, t)); W.mark("aged %d" % n)
    R = qc.Runner(W, {}, default=b"Z"); R.start()
    bad = None
    for _ in range(14):
        R.service(0.12)
        b = undocumented(W.home)
        if b and not bad: bad = b
    L = qc.listing(W.home)
    R.kill()
    ck.evaluated(len(L0)); ck.nontrivial("aged-todo-stalled"); ck.count("aged_todo_stalled")
    obj = dict(kind="history", scenario="three messages 39 hours in todo/, every creation of info/n fails with ENOSPC after the daemon starts",
               before={str(n): sorted(f) for n, f in L0.items()}, after={str(n): sorted(f) for n, f in L.items()})
    if bad: fails.append(("queue:undocumented-state", dict(obj, listing=bad[:5]), 1))
    elif any(n not in L for n in L0): fails.append(("queue:live-message-collected", obj, 1))
    R.history = ["aged todo entries, info/ creation fails"]
    base.check_history(ck, drv, W, R, "aged todo stalled", [], [])

def second_daemon(ck, rb, fails):
    W = qc.World(rb, "second")
    W.inject(rcpts=[b"keep@local.example"])
    d1 = W.start(autoreply=None); d1.pump(0.4)
    before = qc.listing(W.home)
    log2 = os.path.join(vlib.scratch(), "second.log")
    env2 = dict(W.env, SYSSHIM_LOG=log2)
    d2 = dc.Daemon(rb, W.home, env2, autoreply=None)
    end = time.time() + 3; rc = None
    while time.time() < end:
        d2.pump(0.05)
        try:
            p, st = os.waitpid(d2.send_pid, os.WNOHANG)
            if p: rc = os.waitstatus_to_exitcode(st); break
        except ChildProcessError: break
    touched = [l for l in open(log2, errors="replace").read().split("\n") if l.startswith(str(d2.send_pid) + " ") and any(x in l for x in (" unlink ", " link ", " rename ")) and " = 0" in l]
    after = qc.listing(W.home)
    ck.evaluated(); ck.nontrivial("second")
    if rc != 111 or touched or set(before) != set(after):
        fails.append(("send:second-daemon-not-refused", dict(kind="history", exit=rc, calls=touched[:5], log=d2.log.decode("latin1")[-300:]), 0))
    d2.stop(); W.crash()

def main():
    ck = vlib.Check(PID, "proof")
    rb = vlib.RepoBuild()
    if not rb.ok:
        print("repository does not build:\n" + rb.log[-2000:]); sys.exit(2)
    ck.proofs(srcdir=rb.dir)
    drv = vlib.build_driver("C02")
    rng = ck.rng
    fails, mism = [], []
    for h in range(24 if ck.thorough else 5):
        gated_history(ck, rb, drv, rng, h, fails, mism)
        if fails: break
    crash_in_preprocessing(ck, rb, drv, rng, fails, mism)
    aging(ck, rb, drv, rng, fails, mism)
    bounce_chain(ck, rb, drv, rng, fails, mism)
    cleaner_fault(ck, rb, drv, rng, fails, mism)
    aged_todo_stalled(ck, rb, drv, rng, fails, mism)
    second_daemon(ck, rb, fails)
    base.finish(ck, fails, mism, "queue")

def replay(path):
    obj = json.load(open(path))
    print("re-run ./check C02 (deterministic for the same VERIF_SEED); recorded case:", json.dumps(obj)[:2000])
    return 0
