"""C07 - network daemons acknowledge a message if and only if exactly it was queued.

proof: coq/Props/Properties_C07.v
tie:   the real qmail-smtpd, qmail-qmtpd and qmail-qmqpd with a stand-in qmail-queue (every exit status
       class, custom text) on well-formed and mutated sessions / netstrings (sizes around databytes, hop
       counts 98..101, address lengths around 900/1000, NUL bytes, truncated frames, every cut point of
       short inputs): a positive reply must correspond to a complete envelope handed to the queue program
       that exited 0, with exactly the acknowledged sender/recipients and Received ++ decoded body; the
       extracted models are compared with the daemons' replies and submissions."""
import json, os, re, subprocess, sys
import vlib
from smtp_common import *

PID = "C07"

def ns(b): return b"%d:" % len(b) + b + b","

def parse_netstrings(b):
    out = []
    while b:
        m = re.match(rb"^(\d+):", b)
        if not m: return out, b
        n = int(m.group(1)); k = len(m.group(0))
        if len(b) < k + n + 1 or b[k + n:k + n + 1] != b",": return out, b
        out.append(b[k:k + n]); b = b[k + n + 1:]
    return out, b""

def env_parse(env):
    mm = re.match(rb"^F([^\0]*)\0((?:T[^\0]*\0)*)\0$", env, re.S)
    return None if not mm else (mm.group(1), [x[1:] for x in mm.group(2).split(b"\0") if x])

def gen_qmtp(rng, c):
    pk = []
    for _ in range(rng.randint(1, 3)):
        mode = rng.choice([b"\n", b"\n", b"\r"])
        body = gen_body(rng, c["databytes"])
        if mode == b"\r": body = body.replace(b"\n", b"\r\n") + rng.choice([b"", b"\r", b"x\ry", b"\r\r\n"])
        sender = rng.choice([b"s@x.example", b"", b"a" * rng.choice([998, 999, 1000, 1001]), b"nul\0inside", b"#@[]"])
        rc = []
        for _ in range(rng.randint(0, 4)):
            rc.append(rng.choice([b"joe@ok.dom", b"ann@sub.wild.dom", b"bob@notok.dom", b"noat", b"n\0ul@ok.dom", b"n\0ul@notok.dom", b"a" * rng.choice([940, 960, 985, 999, 1000]) + b"@ok.dom", b"x@more.dom", b"Q@OK.DOM"]))
        p = ns(mode + body) + ns(sender) + ns(b"".join(ns(r) for r in rc))
        k = rng.random()
        if k < 0.08: p = p[:rng.randint(0, len(p))]                      # truncated
        elif k < 0.16:
            i = rng.randrange(len(p)); p = p[:i] + bytes([rng.choice(b":,x0\n")]) + p[i + 1:]     # mutated framing
        elif k < 0.2: p = b"0:," + p
        elif k < 0.23: p = b"300000000000:" + p
        pk.append(p)
    return b"".join(pk)

def main():
    ck = vlib.Check(PID, "proof")
    rb = vlib.RepoBuild()
    if not rb.ok:
        print("repository does not build:\n" + rb.log[-2000:]); sys.exit(2)
    ck.proofs(srcdir=rb.dir)
    drv = vlib.build_driver("C07")
    drv8 = vlib.build_driver("C08")
    S = Smtpd(rb)
    rng = ck.rng
    fails, mism = [], []
    import gen_common; gen_common.translator_selfcheck(ck, rb, mism)
    EXITS = [0, 0, 0, 11, 31, 51, 53, 54, 61, 71, 81, 82, 91, 99, 115, 120, 20, 40, 41, 1, 255]
    # ================================================================ SMTP
    jobs = []
    for ci in range(30 if ck.thorough else 10):
        c = gen_cfg(rng); S.configure(c)
        for _ in range(20 if ck.thorough else 12):
            rc_ = b"<joe@ok.dom>" if c["relayclient"] is None and c["rcpthosts"] is not None and b"ok.dom" not in [x.lower() for x in c["rcpthosts"]] else b"<joe@ok.dom>"
            body = gen_body(rng, c["databytes"])
            sess = b"HELO " + rng.choice([b"client.example", b"h\"x"]) + b"\r\nMAIL FROM:<s@x.example>\r\nRCPT TO:<joe@ok.dom>\r\nRCPT TO:<ann@other.dom>\r\nDATA\r\n" + smtp_encode(body)
            cut = rng.random()
            if cut < 0.15: sess = sess[:rng.randint(len(sess) - len(smtp_encode(body)) - 2, len(sess) - 1)]
            else: sess += b"QUIT\r\n"
            ex = rng.choice(EXITS); errs = {1: rng.choice([b"Dcustom refusal", b"Zcustom later", b"D", b"xy"])} if ex == 82 else None
            out, rc, subs = S.run(c, sess, [ex], errs)
            jobs.append((c, sess, ex, errs, out, rc, subs))
    # directed: one plain transaction for EVERY exit status 0..255 of the queue program (the property quantifies over every
    # failure code; statuses above 127 go through the same wait-status decoding as the documented ones)
    c0 = dict(rcpthosts=None, morercpthosts=[], badmailfrom=None, localiphost=None, databytes=0, relayclient=None, remotehost=b"client.example",
              remoteip=b"192.0.2.7", remoteinfo=None, local=b"server.example", unterminated=False)
    S.configure(c0)
    for ex in range(256):
        sess = b"HELO client.example\r\nMAIL FROM:<s@x.example>\r\nRCPT TO:<joe@ok.dom>\r\nDATA\r\n" + smtp_encode(b"Subject: t\n\nhello\n") + b"QUIT\r\n"
        errs = {1: b"Dcustom refusal"} if ex == 82 else None
        out, rc, subs = S.run(c0, sess, [ex], errs)
        jobs.append((c0, sess, ex, errs, out, rc, subs)); ck.count("smtp_exit_status_sweep")
    # directed: every byte value inside the peer-controlled strings of the Received field (HELO argument, TCPREMOTEHOST,
    # TCPREMOTEINFO): only the safe characters may reach the queued message
    for b in range(1, 256):
        if b in (10, 13, 32): continue
        cb = dict(c0, remotehost=b"h" + bytes([b]) + b"st.example", remoteinfo=b"id" + bytes([b]) + b"nt")
        sess = b"HELO he" + bytes([b]) + b"lo\r\nMAIL FROM:<s@x.example>\r\nRCPT TO:<joe@ok.dom>\r\nDATA\r\n" + smtp_encode(b"Subject: t\n\nhello\n") + b"QUIT\r\n"
        out, rc, subs = S.run(cb, sess, [0], None)
        jobs.append((cb, sess, 0, None, out, rc, subs)); ck.count("received_byte_sweep")
    ml, _, _ = vlib.run_lines(drv8, ["sess %s %s %s" % (cfg_args(c), vlib.hx(d), "%d:%s" % (ex, vlib.hx((errs or {}).get(1, b"")))) for c, d, ex, errs, _, _, _ in jobs])
    for (c, sess, ex, errs, out, rc, subs), m in zip(jobs, ml):
        ck.evaluated(); ck.count("smtp_sessions")
        ck.nontrivial(("smtp", sess, ex))
        codes = reply_codes(out)[1:]
        rcodes, rsubs, rexit = ref_session(sess, c, [ex], errs)
        acked = [l for l in out.split(b"\r\n") if l.startswith(b"250 ok ") and b" qp " in l]
        complete = [(msg, env_parse(env)) for msg, env in subs if env.endswith(b"\0\0") and env_parse(env)]
        obj = dict(kind="input", daemon="qmail-smtpd", session=sess.decode("latin1")[:800], queue_exit=ex, custom=None if not errs else errs[1].decode(), codes=codes, expected_codes=rcodes,
                   submissions=[e.decode("latin1")[:200] for _, e in subs])
        bad = None
        if acked and (ex != 0 or not complete): bad = "ack:positive-reply-without-commit"
        elif not acked and ex == 0 and complete: bad = "ack:committed-but-refused"
        elif codes != rcodes: bad = "ack:wrong-reply-class"
        if complete and rsubs and rsubs[0][4]:
            msg, (snd, rcp) = complete[0]
            helo, body, sender, rcpts, _ = rsubs[0]
            pre = expected_received(c, helo)
            if not msg.startswith(pre) or not re.match(DATE_RE, msg[len(pre):]) or msg[len(pre):].split(b"\n", 1)[1] != body or (snd, rcp) != (sender, rcpts):
                bad = "ack:queued-message-differs"
        if bad: fails.append((bad, obj, len(sess)))
        else:
            mc = [int(x) for x in m.split("|")[0].strip().split(",") if x]
            if mc != codes: mism.append(dict(obj, model=m[:300]))
    # ================================================================ QMTP
    tjobs = []
    exe_t = rb.path("qmail-qmtpd")
    for ci in range(30 if ck.thorough else 10):
        c = gen_cfg(rng); S.configure(c)
        for _ in range(25 if ck.thorough else 14):
            data = gen_qmtp(rng, c)
            exs = [rng.choice(EXITS) for _ in range(4)]
            if _ < 4:
                # directed: several packages on one connection, a later one with every recipient refused (or none at all)
                pk = [ns(b"\n" + gen_body(rng, c["databytes"])) + ns(b"s@x.example") + ns(b"".join(ns(r) for r in rl))
                      for rl in ([b"joe@ok.dom", b"bob@notok.dom"], [[b"bob@notok.dom", b"n\0ul@notok.dom"], [], [b"noat@notok.dom"], [b"bob@notok.dom"]][_], [b"joe@ok.dom"])]
                data = b"".join(pk); exs = [0, 0, 0, 0]
            errs = {k + 1: rng.choice([b"Dcustom", b"Zcustom"]) for k, e in enumerate(exs) if e == 82}
            out, rc, subs = S.run(c, data, exs, errs, prog=exe_t)
            tjobs.append((c, data, exs, errs, out, rc, subs))
    S.configure(c0)
    for ex in range(256):
        data = ns(b"\nSubject: t\n\nhello\n") + ns(b"s@x.example") + ns(ns(b"joe@ok.dom"))
        errs = {1: b"Zcustom"} if ex == 82 else {}
        out, rc, subs = S.run(c0, data, [ex], errs, prog=exe_t)
        tjobs.append((c0, data, [ex], errs, out, rc, subs)); ck.count("qmtp_exit_status_sweep")
    ml, _, _ = vlib.run_lines(drv, ["qmtp %s %s %s" % (cfg_args(c), vlib.hx(d) if d else "-", ",".join("%d:%s" % (e, vlib.hx(errs.get(k + 1, b""))) for k, e in enumerate(exs))) for c, d, exs, errs, _, _, _ in tjobs])
    for (c, data, exs, errs, out, rc, subs), m in zip(tjobs, ml):
        ck.evaluated(); ck.count("qmtp_sessions")
        ck.nontrivial(("qmtp", data, tuple(exs)))
        replies, leftover = parse_netstrings(out)
        obj = dict(kind="input", daemon="qmail-qmtpd", input=data.decode("latin1")[:800], queue_exits=exs, output=out.decode("latin1")[:600], exit=rc, model=m[:500],
                   submissions=[e.decode("latin1")[:200] for _, e in subs])
        # direct oracle: every K reply belongs to a package whose queue run got a complete envelope and exited 0
        nK = sum(1 for r in replies if r.startswith(b"Kok "))
        good = [(msg, env_parse(env), k) for k, (msg, env) in enumerate(subs) if env.endswith(b"\0\0") and env_parse(env) and k < len(exs) and exs[k] == 0]
        want_K = sum(len(e[1]) for _, e, _ in good)
        bad = None
        if leftover: bad = "ack:malformed-reply-stream"
        elif nK > want_K: bad = "ack:positive-reply-without-commit"
        elif rc == 0 and nK < want_K: bad = "ack:committed-but-refused"
        elif rc not in (0, 100, 111): bad = "ack:exit-status"
        elif any(not e[1] for _, e, _ in good):
            # a complete envelope without a single recipient was handed over and accepted: a message nobody was
            # told about sits in the queue (the front end must fail the submission when it accepted no recipient)
            bad = "ack:refused-message-queued"
        # model: per package expected replies
        packs, end = [x.strip() for x in m.split("|")]
        gen = b""
        exp_subs = []
        if packs != "-":
            for p in packs.split(" ; "):
                w = p.split()
                body, sender, complete, v, kinds, acc = vlib.unhx(w[1]), vlib.unhx(w[2]), w[3] == "1", w[4], w[5], w[6]
                for kch in ([] if kinds == "-" else kinds):
                    if kch == "0": gen += {"K": b"K", "D": b"D", "Z": b"Z"}[v]
                    elif kch == "D": gen += b"d"
                    else: gen += b"c"
        obs_classes = b"".join((r[:1] if not r.startswith(b"Dsorry, that domain") and not r.startswith(b"Dsorry, I can't handle") else (b"d" if b"domain" in r else b"c")) for r in replies)
        if not bad:
            if rc == 0 and obs_classes != gen: mism.append(obj)
            elif rc != 0 and not gen.startswith(obs_classes): mism.append(obj)
            if {"E": 0, "B": 100, "R": 111}[end] != rc: mism.append(obj)
            # content of what was queued for acknowledged packages
            for msg, (snd, rcp), k in good:
                pre = expected_received(c, None, b"QMTP")
                if not msg.startswith(pre) or not re.match(DATE_RE, msg[len(pre):]): bad = "ack:queued-message-differs"
        if bad: fails.append((bad, obj, len(data)))
    # ================================================================ QMQP
    qjobs = []
    exe_q = rb.path("qmail-qmqpd")
    c = gen_cfg(rng); S.configure(c)
    for _ in range(400 if ck.thorough else 150):
        body = gen_body(rng, 0)
        sender = rng.choice([b"s@x.example", b"", b"a" * rng.choice([999, 1000]), b"nul\0x"])
        rcs = [rng.choice([b"r1@y.example", b"r2@z.example", b"n\0ul@q", b"b" * rng.choice([999, 1000, 1003]), b""]) for _ in range(rng.randint(0, 4))]
        inner = ns(body) + ns(sender) + b"".join(ns(r) for r in rcs)
        data = ns(inner)
        k = rng.random()
        if k < 0.12: data = data[:rng.randint(0, len(data))]
        elif k < 0.2:
            i = rng.randrange(len(data)); data = data[:i] + bytes([rng.choice(b":,x9")]) + data[i + 1:]
        elif k < 0.25: data = b"%d:" % (len(inner) - rng.randint(1, 5)) + inner + b","        # outer length too small
        elif k < 0.3 and rcs:
            # exactly 1024 bytes of envelope before a failing address: the client library's buffer boundary
            pad = 1024 - len(b"F" + sender + b"\0") - len(b"T" + rcs[0] + b"\0") - 2
            if 0 < pad < 990 and b"\0" not in sender and len(sender) < 999 and b"\0" not in rcs[0] and len(rcs[0]) < 999:
                inner = ns(body) + ns(sender) + ns(rcs[0]) + ns(b"p" * pad) + ns(b"third@z") + ns(b"bad\0addr") + ns(b"late@x")
                data = ns(inner)
        ex = rng.choice(EXITS)
        errs = {1: b"Dcustom"} if ex == 82 else None
        out, rc, subs = S.run(c, data, [ex], errs, prog=exe_q)
        qjobs.append((data, ex, errs, out, rc, subs))
    for ex in range(256):
        data = ns(ns(b"Subject: t\n\nhello\n") + ns(b"s@x.example") + ns(b"r1@y.example"))
        errs = {1: b"Dcustom"} if ex == 82 else None
        out, rc, subs = S.run(c, data, [ex], errs, prog=exe_q)
        qjobs.append((data, ex, errs, out, rc, subs)); ck.count("qmqp_exit_status_sweep")
    lines = []
    for data, ex, errs, out, rc, subs in qjobs:
        items, rest = parse_netstrings(data)
        inner = items[0] if items else None
        lines.append("qmqp %s %d %s" % (vlib.hx(inner) if inner else "-", ex, vlib.hx((errs or {}).get(1, b""))))
    ml, _, _ = vlib.run_lines(drv, lines)
    for (data, ex, errs, out, rc, subs), m in zip(qjobs, ml):
        ck.evaluated(); ck.count("qmqp_sessions")
        ck.nontrivial(("qmqp", data, ex))
        replies, leftover = parse_netstrings(out)
        complete = [(msg, env_parse(env)) for msg, env in subs if env.endswith(b"\0\0") and env_parse(env)]
        obj = dict(kind="input", daemon="qmail-qmqpd", input=data.decode("latin1")[:800], queue_exit=ex, output=out.decode("latin1")[:300], exit=rc, model=m[:300],
                   submissions=[e.decode("latin1")[:1200] for _, e in subs])
        K = [r for r in replies if r.startswith(b"K")]
        bad = None
        items, _ = parse_netstrings(data)
        wellformed = bool(items) and m != "N"
        if K and (ex != 0 or not complete): bad = "ack:positive-reply-without-commit"
        elif not K and complete and ex == 0 and rc == 0 and wellformed and m.split()[4] == "K": bad = "ack:committed-but-refused"
        elif complete and not K and not (wellformed and m.split()[3] == "1"):
            # the queue program was handed a complete envelope for a message the daemon refuses: with the real
            # qmail-queue this would be queued (truncated recipient list) while the client is told it failed
            bad = "ack:refused-message-queued"
        if not bad and wellformed:
            w = m.split()
            exp_cls = w[4]
            if not replies or replies[0][:1].decode() != exp_cls: mism.append(obj)
            elif K:
                msg, (snd, rcp) = complete[0]
                pre = expected_received(c, None, b"QMQP")
                mr = [] if w[2] == "-" else [(b"" if x == "=" else vlib.unhx(x)) for x in w[2].split("+")]
                if not msg.startswith(pre) or msg[len(pre):].split(b"\n", 1)[1] != vlib.unhx(w[0]) or snd != vlib.unhx(w[1]) or rcp != mr:
                    bad = "ack:queued-message-differs"
        elif not bad and not wellformed and replies: mism.append(obj)
        if bad: fails.append((bad, obj, len(data)))
    # ================================================================ end to end with the REAL qmail-queue
    # (the client library flushes the envelope in 1024-byte blocks: a front end that aborts right after a block
    #  that ends at a recipient boundary must still leave nothing in the queue)
    qdir = os.path.join(S.home, "queue")
    def todo_entries():
        return {f: open(os.path.join(qdir, "todo", f), "rb").read() for f in os.listdir(os.path.join(qdir, "todo"))}
    def clean_queue():
        for d in ["pid", "intd", "todo"] + ["mess/%d" % i for i in range(23)]:
            for f in os.listdir(os.path.join(qdir, d)): os.remove(os.path.join(qdir, d, f))
    e2e = []
    sender = b"s@x.example"; r0 = b"first@y.example"
    for delta in (-2, -1, 0, 1, 2):
        pad = 1024 - len(b"F" + sender + b"\0") - len(b"T" + r0 + b"\0") - 2 + delta
        inner = ns(b"Subject: e2e\n\nbody\n") + ns(sender) + ns(r0) + ns(b"p" * pad) + ns(b"third@z.example") + ns(b"bad\0addr") + ns(b"late@x.example")
        e2e.append(("qmqp boundary%+d" % delta, exe_q, ns(inner)))
        e2e.append(("qmqp boundary%+d cut" % delta, exe_q, ns(inner)[:len(ns(inner)) - 25]))
    e2e.append(("qmqp good", exe_q, ns(ns(b"Subject: ok\n\nb\n") + ns(sender) + ns(r0))))
    for name, prog, data in e2e:
        clean_queue()
        env = dict(os.environ); env.update(vlib.shim_env(S.home)); env.pop("QMAILQUEUE", None)
        env.update(TCPREMOTEIP="192.0.2.7", TCPREMOTEHOST="client.example", TCPLOCALHOST="server.example")
        p = subprocess.run([prog], input=data, stdout=subprocess.PIPE, stderr=subprocess.PIPE, env=env, timeout=60)
        replies, _ = parse_netstrings(p.stdout)
        todo = todo_entries()
        K = [r for r in replies if r.startswith(b"K")]
        ck.evaluated(); ck.count("end_to_end_real_queue")
        ck.nontrivial(("e2e", name))
        if bool(K) != bool(todo) or len(todo) > 1:
            fails.append(("ack:queue-and-reply-disagree", dict(kind="input", daemon=os.path.basename(prog) + " + real qmail-queue", scenario=name, input=data.decode("latin1")[:400],
                                                             output=p.stdout.decode("latin1")[:200], todo_entries=[v.decode("latin1")[:1500] for v in todo.values()]), len(data)))
    clean_queue()
    ck.cov["disagreements_checked"] = len(mism)
    ck.cov["rule"] = ("SMTP: transactions with bodies around databytes and 98-101 hop lines, every class of queue exit status incl. 82 with custom text, client disconnect inside DATA; "
                      "QMTP: 1-3 packages per connection in both newline modes, senders of 998-1001 bytes / with NUL, recipients near the 1000-byte limit with and without RELAYCLIENT, NUL, denied, "
                      "truncated and mutated netstrings, length 0 and 3e11; QMQP: single messages with the same address families, truncated/mutated frames, inner length too small, and an envelope "
                      "whose first 1024 bytes end exactly at a recipient boundary before a failing address. non-trivial = distinct (input, queue exit)")
    ck.sample(dict(daemon="qmail-qmtpd", input=tjobs[3][1].decode("latin1")[:300], output=tjobs[3][4].decode("latin1")[:200]))
    ck.sample(dict(daemon="qmail-qmqpd", input=qjobs[3][0].decode("latin1")[:300], output=qjobs[3][3].decode("latin1")[:200]))
    fails.sort(key=lambda x: x[2])
    seen = set()
    for key, obj, _ in fails:
        k2 = key + ":" + obj["daemon"]
        if k2 in seen: continue
        seen.add(k2)
        ck.violation(k2, obj, what="%s: %s" % (obj["daemon"], key))
    if mism and not fails:
        ck.violation("correspondence", dict(kind="correspondence", broken="Smtp/Smtpd.v, Smtp/Qmtpd.v = qmail-smtpd.c / qmail-qmtpd.c / qmail-qmqpd.c", first=mism[0], n=len(mism)),
                     nofail=True, what="model and implementation disagree but the acknowledgement oracle holds")
    ck.proof_failure_violation(bool(fails))
    ck.finish(trusted_base=[vlib.KERNEL_TB, vlib.EXTRACTION_TB, "checks/smtp_common.py + checks/C07.py (generators, netstring parser, Python SMTP reference)", "harness/qqstub_multi.sh (stand-in qmail-queue)"],
              assumptions=["'queued' means: the queue program was handed a complete envelope and exited 0 (C01 proves what the real qmail-queue does with complete and incomplete envelopes)",
                           "the Received date and the pid in the acknowledgement are opaque", "QMTP replies still buffered when a later package is malformed are lost with the connection (documented in the model's header)"])

def replay(path):
    obj = json.load(open(path))
    print("re-run ./check C07 (deterministic for the same VERIF_SEED); recorded case:", json.dumps(obj)[:1500])
    return 0
