"""C13 - delivery instructions are interpreted as documented and loops are cut.

proof: coq/Props/Properties_C13.v
tie:   the real qmail-local in generated home directories: -n (plan) runs over subsets of .qmail files
       x modes x extensions x instruction bodies, and real runs (programs with every relevant exit
       code leaving a trace, maildir/mbox deliveries, forwards captured by a stand-in qmail-queue with
       exit 0/31/53, looping messages, hostile addresses) against the extracted model; the documented
       rules are checked directly on what the real program did."""
import json, os, re, shutil, subprocess, sys
import vlib

PID = "C13"
HARD = {100, 64, 65, 70, 76, 77, 78, 112}

def cand_names(dash, ext):
    s = ext.lower().replace(".", ":")
    return [".qmail" + dash + s] + [".qmail" + dash + s[:i] + "default" for i in range(len(s), -1, -1) if i == 0 or s[i - 1] == "-"]

class Home:
    def __init__(self, rb):
        self.rb = rb; self.exe = rb.path("qmail-local")
        self.home = os.path.join(vlib.scratch(), "h13")
        self.qhome = rb.make_home()
        self.qqout = os.path.join(vlib.scratch(), "qq13")
        self.msgf = os.path.join(vlib.scratch(), "m13")
    def reset(self, files, mode=0o700):
        if os.path.exists(self.home):
            os.chmod(self.home, 0o700); shutil.rmtree(self.home)
        os.makedirs(os.path.join(self.home, "Maildir/tmp")); os.makedirs(os.path.join(self.home, "Maildir/new")); os.makedirs(os.path.join(self.home, "Maildir/cur"))
        for name, (kind, fmode, content) in files.items():
            p = os.path.join(self.home, name)
            if "/" in name: continue
            if kind == "dir": os.makedirs(p)
            else:
                open(p, "wb").write(content); os.chmod(p, fmode)
        os.chmod(self.home, mode)
    def run(self, args, msg, qexit=0, flag="-N"):
        open(self.msgf, "wb").write(msg)
        for f in (".env", ".msg"):
            if os.path.exists(self.qqout + f): os.remove(self.qqout + f)
        open(self.qqout + ".exit", "w").write(str(qexit))
        env = dict(os.environ, QMAILQUEUE=os.path.join(vlib.VERIF, "harness", "qqstub.sh"), QQOUT=self.qqout)
        env.update({k: v for k, v in vlib.shim_env(self.qhome).items() if k.startswith(("LD_PRELOAD", "SYSSHIM"))})
        with open(self.msgf, "rb") as f0:
            p = subprocess.run([self.exe, flag, "--"] + args, stdin=f0, stdout=subprocess.PIPE, stderr=subprocess.PIPE, env=env, timeout=60)
        return p.returncode, p.stdout, p.stderr

def files_arg(files):
    out = []
    for name, (kind, fmode, content) in files.items():
        if kind == "dir": out.append("%s=a" % vlib.hx(name.encode()))
        else: out.append("%s=r%d%d:%s" % (vlib.hx(name.encode()), 1 if fmode & 0o002 else 0, 1 if fmode & 0o100 else 0, vlib.hx(content)))
    return ",".join(out) or "-"

def gen_body(rng, real):
    pool = ["./Maildir/", "./mbox", "&fwd1@x.example", "fwd2@y.example", "# comment", "", "+list", "+other", "  ", "./Maildir/  ", "fwd3@z.example \t", "&", "/nonexistent-dir-zz/mbox" if not real else "./mbox"]
    n = rng.randint(0, 7)
    lines = []
    for k in range(n):
        if rng.random() < 0.35:
            code = rng.choice([0, 0, 0, 0, 99, 99, 99, 100, 111, 64, 65, 70, 76, 77, 78, 112, 1, 2, 113, 255, 128, 192, 227, 228, 240])
            lines.append("|echo L%d >> trace; exit %d" % (k, code))
        else:
            lines.append(rng.choice(pool))
    body = "\n".join(lines)
    if lines and rng.random() < 0.8: body += "\n"
    return body.encode()

def main():
    ck = vlib.Check(PID, "proof")
    rb = vlib.RepoBuild()
    if not rb.ok:
        print("repository does not build:\n" + rb.log[-2000:]); sys.exit(2)
    ck.proofs(srcdir=rb.dir)
    drv = vlib.build_driver("C13")
    H = Home(rb)
    rng = ck.rng
    fails, mism = [], []
    exts = ["", "a", "a-b", "A.B", "a-", "a-b-c", "a.b-c", "x-default", "list-owner-joe=h", "q/r", "..", "-", "a--b"]
    msg = b"Subject: t\n\nbody\n"
    alias = "./Maildir/"
    # ---------------- plan mode (-n): search order, modes, dispatch
    jobs = []
    for _ in range(700 if ck.thorough else 220):
        dash = rng.choice(["-", "-", ""])
        ext = rng.choice(exts)
        cands = cand_names(dash, ext)
        files = {}
        pool = cands + [".qmail", ".qmail-default", ".qmail-a", ".qmail-a-default", ".qmaildefault"]
        for name in rng.sample(pool, rng.randint(0, min(4, len(pool)))):
            if "/" in name: continue
            kind = "dir" if rng.random() < 0.1 else "file"
            fmode = rng.choice([0o600, 0o600, 0o600, 0o622, 0o700, 0o602, 0o644])
            files[name] = (kind, fmode, gen_body(rng, False) if rng.random() < 0.9 else b"")
        hmode = rng.choice([0o700, 0o700, 0o700, 0o702, 0o1700, 0o770, 0o755])
        H.reset(files, hmode)
        rc, out, err = H.run(["user", H.home, "user" + dash + ext, dash, ext, "host.example", "s@x.example", alias], msg, flag="-n")
        jobs.append((dash, ext, files, hmode, rc, out))
    ml, _, _ = vlib.run_lines(drv, ["plan %d %s %s %s %s" % (1 if hm & 0o002 else 0, vlib.hx(d.encode()), vlib.hx(e.encode()), vlib.hx(alias.encode()), files_arg(f)) for d, e, f, hm, _, _ in jobs])
    for (dash, ext, files, hmode, rc, out), m in zip(jobs, ml):
        ck.evaluated(); ck.count("plan_runs")
        ck.nontrivial(("plan", dash, ext, tuple(sorted(files)), hmode, out))
        obs = []
        for l in out.split(b"\n"):
            mm = re.match(rb"^(maildir|mbox|program|forward) (.*)$", l)
            if mm: obs.append({"maildir": "m", "mbox": "b", "program": "p", "forward": "f"}[mm.group(1).decode()] + ":" + vlib.hx(mm.group(2)))
        obs_s = ",".join(obs) or "-"
        w = m.split()
        exp_rc = 0 if w[0] == "A" else (111 if w[0] == "T" else int(w[0][1:]))
        exp_s = w[1] if len(w) > 1 else "-"
        obj = dict(kind="configuration", mode="plan (-n)", dash=dash, ext=ext, home_mode=oct(hmode),
                   files={k: (v[0], oct(v[1]), v[2].decode("latin1")) for k, v in files.items()}, exit=rc, observed=obs_s, model=m)
        # direct documented rules: which file must have been used
        chosen = None
        for c in cand_names(dash, ext):
            if c in files and files[c][0] == "file" and "/" not in c:
                chosen = c; break
        bad = None
        if hmode & 0o002 and rc != 111: bad = "local:delivers-despite-writable-home"
        elif chosen and files[chosen][1] & 0o002 and rc != 111 and not (hmode & 0o002): bad = "local:delivers-despite-writable-qmail-file"
        elif not (hmode & 0o002) and chosen is None and dash and rc != 100: bad = "local:missing-file-not-bounced"
        elif chosen and not (files[chosen][1] & 0o002) and files[chosen][1] & 0o100 and files[chosen][2] and rc == 0 and any(o[0] in "mbp" for o in obs): bad = "local:x-bit-ignored"
        if bad: fails.append((bad, obj, len(files)))
        elif (rc, obs_s) != (exp_rc, exp_s): 
            # which candidate was consulted is visible only through the plan: a different plan = wrong search order
            fails.append(("local:search-order-or-dispatch", obj, len(files))) if rc in (0, 100, 111) and chosen is not None and exp_rc == 0 and rc == 0 else mism.append(obj)
    # ---------------- real runs: exit codes, order, forwards last, 99, loop
    rjobs = []
    P = lambda k, c: "|echo L%d >> trace; exit %d" % (k, c)
    directed = ["&f@x.example\n" + P(1, 99) + "\n./Maildir/\n", P(0, 99) + "\n&f@x.example\n", "f1@x.example\n" + P(1, 0) + "\nf2@y.example\n" + P(3, 99) + "\nf3@z.example\n",
                "&f@x.example\n" + P(1, 100) + "\n", "&f@x.example\n" + P(1, 111) + "\n", "./Maildir/\n&f@x.example\n./mbox\n", P(0, 0) + "\n" + P(1, 99) + "\n" + P(2, 0) + "\n",
                "+list\n&f@x.example\n", "+list\n./Maildir/\n", "&f@x.example\n+list\n" + P(2, 0) + "\n", "\n./Maildir/\n", "# c\n\n./Maildir/\n", "./Maildir/", "&f@x.example"]
    # every exit status a program can have, followed by a delivery that must or must not happen
    directed += [P(0, code) + "\n./Maildir/\n" for code in range(256)]
    directed += ["&f@x.example\n" + P(1, code) + "\n./Maildir/\n" for code in (99, 227, 128, 228, 100, 111, 0)]
    for it in range((500 if ck.thorough else 160) + len(directed)):
        dash = "-"; ext = rng.choice(["a", "a-b", "list"])
        body = directed[it].encode() if it < len(directed) else gen_body(rng, True)
        fmode = rng.choice([0o600, 0o600, 0o600, 0o700])
        files = {cand_names(dash, ext)[rng.choice([0, -1])]: ("file", fmode, body)}
        H.reset(files)
        qexit = rng.choice([0, 0, 0, 31, 53])
        local = "user-" + ext
        # where (if anywhere) this recipient's own Delivered-To line stands: only a complete line of the HEADER makes a loop
        dtl = b"Delivered-To: " + local.encode() + b"@host.example"
        lk = rng.choice([0] * 14 + [1, 2, 3, 4, 5, 6, 7]) if it >= len(directed) else ([0] * 7 + [1, 2, 3, 4, 5, 6, 7])[it % 14]
        m2 = {0: msg, 1: dtl + b"\n" + msg, 2: b"Subject: t\n\nbody\n" + dtl + b"\nmore\n", 3: b"Subject: t\n" + dtl + b"\n\nbody\n",
              4: b"Delivered-To: other-" + local.encode() + b"@host.example\n" + msg, 5: b"Subject: t\n\n" + dtl + b"\n", 6: b"Subject: t\n" + dtl,
              7: b"Subject: t\n" + dtl + b" \n" + dtl.lower() + b"\n\n" + dtl + b"\n"}[lk]
        looping = lk in (1, 3)
        rc, out, err = H.run(["user", H.home, local, dash, ext, "host.example", "s@x.example", alias], m2, qexit=qexit)
        trace = open(os.path.join(H.home, "trace")).read().split() if os.path.exists(os.path.join(H.home, "trace")) else []
        nnew = len(os.listdir(os.path.join(H.home, "Maildir/new")))
        mboxn = open(os.path.join(H.home, "mbox"), "rb").read().count(b"\nSubject: t\n") if os.path.exists(os.path.join(H.home, "mbox")) else 0
        envf = open(H.qqout + ".env", "rb").read() if os.path.exists(H.qqout + ".env") else None
        rjobs.append((dash, ext, files, body, qexit, looping, rc, trace, nnew, mboxn, envf, m2, dtl))
    lines = []
    # the model's own reading of the message decides the looping flag its plan is computed with
    mloop, _, _ = vlib.run_lines(drv, ["loop %s %s" % (",".join(vlib.hx(l) for l in j[11].split(b"\n")[:-1]) or "-", vlib.hx(j[12])) for j in rjobs])
    for j, ml_ in zip(rjobs, mloop):
        if (ml_ == "1") != j[5]:
            mism.append(dict(kind="input", mode="loop detection", message=j[11].decode("latin1"), line=j[12].decode("latin1"), model_looping=ml_, expected=j[5]))
    rjobs = [j[:11] + (j[11],) for j in rjobs]
    for dash, ext, files, body, qexit, looping, rc, trace, nnew, mboxn, envf, m2 in rjobs:
        progs = []
        for k, l in enumerate(body.split(b"\n")):
            mm = re.match(rb"^\|echo L(\d+) >> trace; exit (\d+)", l)
            if mm: progs.append("%d=%d" % (k, int(mm.group(2))))
        q = 0 if qexit == 0 else (1 if qexit == 31 else 2)
        lines.append("run 0 0 %d %s %s %s %s %s %d" % (1 if looping else 0, vlib.hx(dash.encode()), vlib.hx(ext.encode()), vlib.hx(alias.encode()), files_arg(files), ",".join(progs) or "-", q))
    ml, _, _ = vlib.run_lines(drv, lines)
    for (dash, ext, files, body, qexit, looping, rc, trace, nnew, mboxn, envf, m2), m in zip(rjobs, ml):
        ck.evaluated(); ck.count("real_runs")
        ck.nontrivial(("run", body, qexit, looping, files[list(files)[0]][1]))
        steps, code = m.rsplit(" X", 1)
        code = int(code)
        st = [] if steps == "-" else steps.split(",")
        exp_trace = []
        for s in st:
            if s.startswith("P:"):
                mm = re.match(rb"^echo (L\d+) ", vlib.unhx(s[2:]))
                if mm: exp_trace.append(mm.group(1).decode())
        exp_new = sum(1 for s in st if s.startswith("D:m:")); exp_mbox = sum(1 for s in st if s.startswith("D:b:"))
        fw = [s for s in st if s.startswith("F:")]
        exp_env = None
        if fw:
            exp_env = b"Fs@x.example\0" + b"".join(b"T" + vlib.unhx(r) + b"\0" for r in fw[0][2:].split("+")) + b"\0"
        obs = dict(exit=rc, programs_run=trace, maildir_deliveries=nnew, mbox_deliveries=mboxn, forward_envelope=None if envf is None else envf.decode("latin1"))
        exp = dict(exit=code, programs_run=exp_trace, maildir_deliveries=exp_new, mbox_deliveries=exp_mbox, forward_envelope=None if exp_env is None else exp_env.decode("latin1"))
        obj = dict(kind="configuration", mode="real run", ext=ext, qmail_file=list(files)[0], file_mode=oct(files[list(files)[0]][1]), body=body.decode("latin1"),
                   queue_exit=qexit, looping=looping, message=m2.decode("latin1"), observed=obs, model=exp)
        bad = None
        if looping and (rc != 100 or trace or nnew or mboxn or envf is not None): bad = "local:loop-not-cut"
        elif not looping and rc == 100 and code != 100: bad = "local:non-looping-message-bounced"
        elif envf is not None and rc not in (0, 100, 111): bad = "local:exit-code"
        elif envf is not None and exp_env is None: bad = "local:forward-despite-earlier-failure"
        if bad: fails.append((bad, obj, len(body)))
        elif obs != exp: 
            # forwards lost although everything else succeeded, or instructions after exit 99 executed, etc.
            key = "local:instruction-semantics"
            fails.append((key, obj, len(body)))
    # ---------------- hostile addresses cannot inject header lines
    H.reset({})
    hj = []
    for local, host, sender in [("user", "host.example", "s@x.example"), ("us\ner", "ho\nst", "se\nnder@x"), ("a\nX-Injected: 1", "h", "b\nBcc: v@x"), ("u", "h", ""), ("u", "h", "a b\tc@d"), ("u", "h", "\"q\"@x")]:
        rc, out, err = H.run(["user", H.home, local, "", "", host, sender, "./Maildir/"], msg)
        newd = os.path.join(H.home, "Maildir/new")
        fs = sorted(os.listdir(newd))
        data = open(os.path.join(newd, fs[-1]), "rb").read() if fs else b""
        for f in fs: os.remove(os.path.join(newd, f))
        hj.append((local, host, sender, rc, data))
    dts, _, _ = vlib.run_lines(drv, ["dt %s %s" % (vlib.hx(l.encode()), vlib.hx(h.encode())) for l, h, s, _, _ in hj])
    for (local, host, sender, rc, data), d in zip(hj, dts):
        ck.evaluated(); ck.count("header_lines")
        hdr = data[:len(data) - len(msg)] if data.endswith(msg) else data
        lines_ = hdr.split(b"\n")
        obj = dict(kind="input", mode="header lines", local=local, host=host, sender=sender, exit=rc, header=hdr.decode("latin1"))
        if rc != 0 or len(lines_) != 3 or not lines_[0].startswith(b"Return-Path: <") or not lines_[1].startswith(b"Delivered-To: "):
            fails.append(("local:header-injection", obj, 0))
        elif lines_[1] + b"\n" != vlib.unhx(d):
            mism.append(obj)
    ck.cov["disagreements_checked"] = len(mism)
    ck.cov["rule"] = ("plan mode: dash x extension (case, dots, trailing dashes, slashes, '..') x subsets of candidate and decoy .qmail files (regular/directory, modes 0600/0622/0700/0602/0644, empty) "
                      "x home modes (0700/0702/01700/0770/0755) x instruction bodies from the documented line types; real runs: bodies with programs exiting 0/99/100/111/64-78/112/other, "
                      "maildir and mbox lines, forwards, +list, x bit, queue exit 0/31/53, looping messages; hostile local/host/sender with LF. non-trivial = distinct configuration")
    ck.sample(dict(mode="plan", dash=jobs[3][0], ext=jobs[3][1], files=sorted(jobs[3][2]), exit=jobs[3][4]))
    ck.sample(dict(mode="real", body=rjobs[2][3].decode("latin1"), exit=rjobs[2][6], programs_run=rjobs[2][7]))
    fails.sort(key=lambda x: x[2])
    seen = set()
    for key, obj, _ in fails:
        if key in seen: continue
        seen.add(key)
        ck.violation(key, obj, what="real qmail-local: " + key)
    if mism and not fails:
        ck.violation("correspondence", dict(kind="correspondence", broken="Local/DotQmail.v = qmail-local.c", first=mism[0], n=len(mism)),
                     nofail=True, what="model and implementation disagree but the documented-rule oracles hold")
    ck.proof_failure_violation(bool(fails))
    ck.finish(trusted_base=[vlib.KERNEL_TB, vlib.EXTRACTION_TB, "checks/C13.py (home-directory generator, reading the -n plan and the execution trace left by generated programs)", "harness/qqstub.sh"],
              assumptions=["temporary stat/open errors on .qmail files (EACCES etc.) cannot be produced as root and are not exercised", "the -owner sender rewriting and the environment variables handed to programs are not modelled",
                           ".qmail files without NUL bytes"])

def replay(path):
    obj = json.load(open(path))
    if obj.get("mode") == "real run" and "message" in obj:
        rb = vlib.RepoBuild(); H = Home(rb)
        H.reset({obj["qmail_file"]: ("file", int(obj["file_mode"], 8), obj["body"].encode("latin1"))})
        ext = obj["ext"]
        rc, out, err = H.run(["user", H.home, "user-" + ext, "-", ext, "host.example", "s@x.example", "./Maildir/"], obj["message"].encode("latin1"), qexit=obj["queue_exit"])
        trace = open(os.path.join(H.home, "trace")).read().split() if os.path.exists(os.path.join(H.home, "trace")) else []
        nnew = len(os.listdir(os.path.join(H.home, "Maildir/new")))
        print("exit", rc, "programs", trace, "maildir deliveries", nnew, "stderr", err[:200], "| model:", json.dumps(obj["model"]))
        ok = rc == obj["model"]["exit"] and trace == obj["model"]["programs_run"] and nnew == obj["model"]["maildir_deliveries"]
        vlib._cleanup()
        return 0 if ok else 1
    print("re-run ./check C13 (deterministic for the same VERIF_SEED); recorded case:", json.dumps(obj)[:900])
    return 0
