"""Running the real qmail-send (with the real qmail-clean, and this process playing qmail-lspawn and
qmail-rspawn) inside the scratch home, optionally under the interposer's scheduling gate."""
import os, select, signal, socket, subprocess, time
import vlib

def _spawn(argv, fdmap, env, cwd):
    """fork/exec with the given {target fd: source fd} wiring"""
    pid = os.fork()
    if pid:
        return pid
    try:
        os.chdir(cwd)
        moved = {}
        base = 300
        for i, (t, s) in enumerate(fdmap.items()):
            moved[t] = base + i
            os.dup2(s, base + i)
        for t, h in moved.items():
            os.dup2(h, t)
        os.closerange(max(fdmap) + 1, 400)
        os.execve(argv[0], argv, env)
    finally:
        os._exit(127)

class GateServer:
    """unix-socket server for SYSSHIM_GATE: every gated process holds one connection and waits for a byte"""
    def __init__(self, path):
        self.path = path
        if os.path.exists(path): os.remove(path)
        self.srv = socket.socket(socket.AF_UNIX, socket.SOCK_STREAM)
        self.srv.bind(path); self.srv.listen(16); self.srv.setblocking(False)
        self.conns = {}          # sock -> dict(pid, buf)
        self.pending = {}        # pid -> (sock, op, detail)
        self.gone = set()
        self.trace = []          # (pid, op, detail) in arrival order
    def poll(self, timeout):
        """collect requests arriving within timeout seconds (returns as soon as something arrived and 5 ms of quiet)"""
        end = time.time() + timeout
        got = False
        while True:
            left = end - time.time()
            if left <= 0: break
            r, _, _ = select.select([self.srv] + list(self.conns), [], [], min(left, 0.005 if got else left))
            if not r:
                if got: break
                continue
            for s in r:
                if s is self.srv:
                    c, _ = self.srv.accept(); self.conns[c] = dict(pid=None, buf=b"")
                    continue
                try: d = s.recv(4096)
                except OSError: d = b""
                if not d:
                    pid = self.conns[s]["pid"]
                    if pid is not None: self.gone.add(pid); self.pending.pop(pid, None)
                    del self.conns[s]; s.close(); got = True
                    continue
                st = self.conns[s]; st["buf"] += d
                while b"\n" in st["buf"]:
                    line, st["buf"] = st["buf"].split(b"\n", 1)
                    w = line.decode("latin1").split(" ", 2)
                    pid = int(w[0]); st["pid"] = pid
                    self.pending[pid] = (s, w[1], w[2] if len(w) > 2 else "")
                    self.trace.append((pid, w[1], w[2] if len(w) > 2 else ""))
                    got = True
        return got
    def ack(self, pid):
        s, op, det = self.pending.pop(pid)
        try: s.send(b"k")
        except OSError: pass
        return op
    def release_all(self, seconds):
        """free running: acknowledge everything for a while"""
        end = time.time() + seconds
        while time.time() < end:
            self.poll(0.02)
            for pid in list(self.pending): self.ack(pid)
    def close(self):
        for s in list(self.conns): s.close()
        self.srv.close()
        if os.path.exists(self.path): os.remove(self.path)

class Daemon:
    def __init__(self, rb, home, env, autoreply=b"K", send_env=None, announce=(4, 4)):
        self.rb, self.home, self.env = rb, home, env
        self.autoreply = autoreply
        mk = os.pipe
        self.log_r, log_w = mk()
        l_cmd_r, l_cmd_w = mk(); l_res_r, l_res_w = mk()
        r_cmd_r, r_cmd_w = mk(); r_res_r, r_res_w = mk()
        c_cmd_r, c_cmd_w = mk(); c_res_r, c_res_w = mk()
        cenv = {k: v for k, v in env.items() if k not in ("SYSSHIM_GATE",) or "SYSSHIM_GATEALL" in env}
        self.clean_pid = _spawn([os.path.join(home, "bin", "qmail-clean")], {0: c_cmd_r, 1: c_res_w, 2: log_w}, cenv, home)
        os.write(l_res_w, bytes([announce[0]])); os.write(r_res_w, bytes([announce[1]]))          # concurrency the spawners announce
        self.send_pid = _spawn([os.path.join(home, "bin", "qmail-send")],
                               {0: log_w, 1: l_cmd_w, 2: l_res_r, 3: r_cmd_w, 4: r_res_r, 5: c_cmd_w, 6: c_res_r}, send_env or env, home)
        for fd in (log_w, l_cmd_w, l_res_r, r_cmd_w, r_res_r, c_cmd_r, c_cmd_w, c_res_r, c_res_w): os.close(fd)
        self.chan = {"l": (l_cmd_r, l_res_w, b""), "r": (r_cmd_r, r_res_w, b"")}
        self.bufs = {"l": b"", "r": b""}
        self.log = b""
        self.deliveries = []
    def pump(self, timeout=0.05):
        """read the log, answer delivery commands"""
        fds = [self.log_r] + [self.chan[k][0] for k in self.chan]
        end = time.time() + timeout
        while True:
            left = max(0, end - time.time())
            r, _, _ = select.select(fds, [], [], left)
            if not r: break
            for fd in r:
                try: d = os.read(fd, 65536)
                except OSError: d = b""
                if fd == self.log_r:
                    if not d: fds.remove(fd)
                    self.log += d; continue
                k = "l" if fd == self.chan["l"][0] else "r"
                if not d: fds.remove(fd); continue
                self.bufs[k] += d
                while True:
                    b = self.bufs[k]
                    if len(b) < 2: break
                    parts = b[1:].split(b"\0", 3)
                    if len(parts) < 4: break
                    delnum = b[0:1]; self.bufs[k] = parts[3]
                    dl = dict(chan=k, slot=delnum, fn=parts[0], sender=parts[1], rcpt=parts[2], answered=False)
                    self.deliveries.append(dl)
                    if self.autoreply is not None:
                        self.reply(dl, self.autoreply + b"ok")
            if time.time() >= end: break
    def reply(self, dl, text):
        """send the report for a delivery command (text starts with K, Z, D or anything else)"""
        dl["answered"] = True
        os.write(self.chan[dl["chan"]][1], dl["slot"] + text + b"\0")
    def pending(self):
        return [dl for dl in self.deliveries if not dl["answered"]]
    def loglines(self):
        return self.log.decode("latin1").split("\n")
    def alive(self):
        try:
            p, st = os.waitpid(self.send_pid, os.WNOHANG); return p == 0
        except ChildProcessError: return False
    def term(self, wait=3.0):
        """SIGTERM: clean stop (waits for deliveries in flight); returns True if it exited"""
        os.kill(self.send_pid, signal.SIGTERM)
        end = time.time() + wait
        while time.time() < end:
            self.pump(0.05)
            if not self.alive(): return True
        return False
    def stop(self):
        for pid in (self.send_pid, self.clean_pid):
            try: os.kill(pid, signal.SIGKILL)
            except ProcessLookupError: pass
        for pid in (self.send_pid, self.clean_pid):
            try: os.waitpid(pid, 0)
            except ChildProcessError: pass
        for fd in [self.log_r] + [x for k in self.chan for x in self.chan[k][:2]]:
            try: os.close(fd)
            except OSError: pass

def inject(rb, home, env, sender=b"s@x.example", rcpt=b"u@local.example", msg=b"Subject: t\n\nb\n", wait=True):
    """run the real qmail-queue; returns Popen (or its exit status when wait)"""
    r0, w0 = os.pipe(); r1, w1 = os.pipe()
    os.write(w0, msg); os.close(w0)
    os.write(w1, b"F" + sender + b"\0T" + rcpt + b"\0\0"); os.close(w1)
    pid = _spawn([os.path.join(home, "bin", "qmail-queue")], {0: r0, 1: r1, 2: 2}, env, home)
    os.close(r0); os.close(r1)
    if not wait: return pid
    _, st = os.waitpid(pid, 0)
    return os.waitstatus_to_exitcode(st)
