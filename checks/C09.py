"""C09 - remote delivery verdicts are sound for every server behaviour.

proof: coq/Props/Properties_C09.v
tie:   the real qmail-remote run against a scripted loopback SMTP server (control/smtproutes) for the
       product of reply forms per protocol phase, 1..3 recipients, disconnects at and inside every
       phase; its per-recipient and message reports are compared with the extracted smtp model and
       checked directly against what the server really sent. The real qmail-rspawn report() (function
       harness) on every (exit status, output) family against the extracted rspawn_report."""
import itertools, json, os, socket, subprocess, sys, threading
import vlib

PID = "C09"

class Server:
    """sends the whole script at once, half-closes, keeps reading until the client goes away"""
    def __init__(self):
        self.s = socket.socket(); self.s.setsockopt(socket.SOL_SOCKET, socket.SO_REUSEADDR, 1)
        self.s.bind(("127.0.0.1", 0)); self.s.listen(64)
        self.port = self.s.getsockname()[1]
        self.script = b""; self.received = b""
        self.t = threading.Thread(target=self.loop, daemon=True); self.t.start()
    def loop(self):
        while True:
            try:
                c, _ = self.s.accept()
            except OSError:
                return
            buf = b""
            try:
                c.sendall(self.script)
                c.shutdown(socket.SHUT_WR)
                c.settimeout(10)
                while True:
                    d = c.recv(65536)
                    if not d: break
                    buf += d
            except OSError:
                pass                      # a reset by the client (it closed with replies unread) still leaves what it sent
            finally:
                self.received = buf
                self.done = True
                c.close()

REPLY = {
    "2": [b"250 ok\r\n", b"250-first\r\n250-second\r\n250 last\r\n", b"220 x\n", b"299 odd\r\n", b"250-a\r\n250 b\r\n"],
    "3": [b"354 go\r\n", b"399-x\r\n399 y\r\n"],
    "4": [b"451 later\r\n", b"400 t\r\n", b"499-a\r\n499 b\r\n", b"450-x\n450 y\n"],
    "5": [b"550 no\r\n", b"500 n\r\n", b"599-a\r\n599 b\r\n", b"554-x\r\n554 y\r\n"],
    "g": [b"abc def\r\n", b"\r\n", b"25\r\n", b"9999 x\r\n", b"   \r\n", b"2500 k\r\n"],
    "cut": [b"25", b"250-unfinished\r\n25", b"250 no newline", b""],
}

def classify_reply(r):
    """what the client must conclude from a reply, computed independently of the model:
    (code or None if the connection ends inside it)"""
    s = r
    def take_line(s):
        k = s.find(b"\n")
        return (None, None) if k < 0 else (s[:k + 1], s[k + 1:])
    if len(s) < 3: return None
    code = 0
    for ch in s[:3]:
        code = (code * 10 + (ch - 48)) % 2 ** 64
    s = s[3:]
    while True:
        if not s: return None
        ch = s[0]; s = s[1:]
        if ch != ord("-"):
            if ch == 10: return code
            l, s = take_line(s)
            return None if l is None else code
        l, s = take_line(s)
        if l is None or len(s) < 3: return None
        s = s[3:]

def gen_scripts(ck):
    rng = ck.rng
    out = []
    def pick(cls): return rng.choice(REPLY[cls])
    # systematic: per phase one deviating class, the other phases accepting
    for nr in (1, 2, 3):
        phases = ["greet", "helo", "mail"] + ["rcpt%d" % i for i in range(nr)] + ["data", "final"]
        good = {"greet": b"220 hi\r\n", "helo": b"250 hello\r\n", "mail": b"250 ok\r\n", "data": b"354 go\r\n", "final": b"250 queued\r\n"}
        for i in range(nr): good["rcpt%d" % i] = b"250 ok\r\n"
        out.append((nr, [good[p] for p in phases]))
        for p in phases:
            for cls in ("2", "3", "4", "5", "g", "cut"):
                for r in REPLY[cls]:
                    out.append((nr, [r if q == p else good[q] for q in phases]))
        # every combination of recipient classes
        for combo in itertools.product("245", repeat=nr):
            for fin in ("2", "4", "5", "cut"):
                out.append((nr, [good["greet"], good["helo"], good["mail"]] + [pick(c) for c in combo] + [good["data"], pick(fin)]))
    # very long multi-line replies (more reply text than qmail-remote keeps): the continuation lines must still be read to
    # their end, or every later reply is taken for the answer to the wrong command
    def huge(code, lines=100, width=60):
        c = str(code).encode()
        return b"".join(c + b"-" + bytes([97 + (k % 26)]) * width + b"\r\n" for k in range(lines)) + c + b" end\r\n"
    for nr in (1, 2):
        phases = ["greet", "helo", "mail"] + ["rcpt%d" % i for i in range(nr)] + ["data", "final"]
        for p in phases[:-1]:
            for tail in (["2"] * 8, ["5", "2", "3", "5"], ["2", "5", "3", "2"], ["4", "2", "3", "4"]):
                base = {"greet": b"220 hi\r\n", "helo": b"250 hello\r\n", "mail": b"250 ok\r\n", "data": b"354 go\r\n", "final": b"250 queued\r\n"}
                for i in range(nr): base["rcpt%d" % i] = b"250 ok\r\n"
                seq = []
                k = 0
                for q in phases:
                    if q == p: seq.append(huge({"greet": 220, "data": 354}.get(q, 250), lines=rng.choice([84, 100, 120])))
                    elif phases.index(q) > phases.index(p):
                        cls = tail[k % len(tail)]; k += 1
                        if q == "data" and cls == "2": cls = "3"
                        seq.append({"2": b"250 ok\r\n", "3": b"354 go\r\n", "4": b"451 later\r\n", "5": b"554 no\r\n"}[cls])
                    else: seq.append(base[q])
                out.append((nr, seq))
    for _ in range(1500 if ck.thorough else 300):
        nr = rng.randint(1, 3)
        n = 5 + nr
        out.append((nr, [pick(rng.choice("22223345g")) if rng.random() < 0.9 else pick("cut") for _ in range(n)]))
    return out

def expected(nr, replies, body_ok=True):
    """independent reference for the client's conclusion (DESIGN appendix C.12)"""
    codes = []
    for r in replies:
        c = classify_reply(r)
        codes.append(c)
        if c is None: break
    # a reply cut short ends the stream: everything after it never arrives
    def get(i): return codes[i] if i < len(codes) else None
    rc = ""
    def Z(dup=False): return (rc, "Z", dup)
    g = get(0)
    if g is None: return Z()
    if g != 220: return (rc, "Z", False)
    h = get(1)
    if h is None: return Z()
    if h != 250: return (rc, "Z", False)
    m = get(2)
    if m is None: return Z()
    if m >= 500: return (rc, "D", False)
    if m >= 400: return (rc, "Z", False)
    for i in range(nr):
        c = get(3 + i)
        if c is None: return Z()
        rc += "h" if c >= 500 else ("s" if c >= 400 else "r")
    if "r" not in rc: return (rc, "D", False)
    d = get(3 + nr)
    if d is None: return Z()
    if d >= 500: return (rc, "D", False)
    if d >= 400: return (rc, "Z", False)
    if not body_ok: return (rc, "D", False)
    f = get(4 + nr)
    if f is None: return (rc, "Z", True)
    if f >= 500: return (rc, "D", False)
    if f >= 400: return (rc, "Z", False)
    return (rc, "K", False)

def main():
    ck = vlib.Check(PID, "proof")
    rb = vlib.RepoBuild()
    if not rb.ok:
        print("repository does not build:\n" + rb.log[-2000:]); sys.exit(2)
    ck.proofs(srcdir=rb.dir)
    drv = vlib.build_driver("C09")
    home = rb.make_home()
    srv = Server()
    cd = os.path.join(home, "control")
    open(os.path.join(cd, "me"), "w").write("client.example\n")
    open(os.path.join(cd, "smtproutes"), "w").write(":127.0.0.1:%d\n" % srv.port)
    msgf = os.path.join(vlib.scratch(), "c09.msg")
    exe = rb.path("qmail-remote")
    env = vlib.shim_env(home)
    fails, mism = [], []
    scripts = gen_scripts(ck)
    runs = []
    for k, (nr, replies) in enumerate(scripts):
        body = b"Subject: t\n\nline\n.dot\n" if k % 11 else b"partial line without newline"
        body_ok = body.endswith(b"\n")
        open(msgf, "wb").write(body)
        # a reply that is cut short ends the server's stream there
        script = b""
        for r in replies:
            script += r
            if classify_reply(r) is None: break
        srv.script = script
        with open(msgf, "rb") as f0:
            p = subprocess.run([exe, "dest.example", "sender@client.example"] + ["rcpt%d@dest.example" % i for i in range(nr)],
                               stdin=f0, stdout=subprocess.PIPE, stderr=subprocess.PIPE, env=env, timeout=60)
        segs = p.stdout.split(b"\0")
        segs = segs[:-1] if segs and segs[-1] == b"" else segs
        rc = "".join(chr(s[0]) for s in segs[:-1] if s) if segs else ""
        final = segs[-1] if segs else b""
        obs = (rc, chr(final[0]) if final else "?", b"Possible duplicate!" in final)
        runs.append((nr, replies, script, body_ok, obs, p.returncode, final))
    model, _, _ = vlib.run_lines(drv, ["smtp %d %d %s" % (nr, 1 if body_ok else 0, vlib.hx(script)) for nr, _, script, body_ok, _, _, _ in runs])
    for (nr, replies, script, body_ok, obs, prc, final), m in zip(runs, model):
        ck.evaluated(); ck.count("smtp_nr%d" % nr); ck.count("verdict_" + obs[1])
        ck.nontrivial((nr, script, body_ok))
        exp = expected(nr, replies, body_ok)
        w = m.split()
        mod = ("" if w[0] == "-" else w[0], w[1], w[2] == "1")
        obj = dict(kind="input", component="qmail-remote", recipients=nr, server_script=script.decode("latin1"), message_complete=body_ok,
                   observed=dict(rcpt_reports=obs[0], verdict=obs[1], possible_duplicate=obs[2], text=final.decode("latin1")[:160]),
                   expected=dict(rcpt_reports=exp[0], verdict=exp[1], possible_duplicate=exp[2]), model=m, exit=prc)
        if obs != exp or prc != 0:
            key = "remote:unsound-success" if obs[1] == "K" and exp[1] != "K" else ("remote:recipient-report" if obs[0] != exp[0] else ("remote:duplicate-flag" if obs[2] != exp[2] else "remote:verdict-class"))
            fails.append((key, obj, len(script)))
        if obs != mod:
            mism.append(obj)
    # ---- rspawn report
    objs, libs = rb.link_deps("qmail-rspawn")
    h = rb.compile_harness(os.path.join(vlib.VERIF, "harness", "h_rsreport.c"), os.path.join(vlib.scratch(), "h_rsreport"),
                           objs=[o for o in objs if o != "spawn.o"], libs=libs)
    alpha = [b"r", b"h", b"s", b"K", b"Z", b"D", b"x", b"\0"]
    outs = [b"".join(t) for n in range(0, 6 if ck.thorough else 5) for t in itertools.product(alpha, repeat=n)]
    outs += [b"r\0Kaccepted message.\nRemote host said: 250 ok\n\0", b"h1.2.3.4 does not like recipient.\nRemote host said: 550\n\0Kx\0", b"s...\0h...\0r\0Zlater\0"]
    reps = []
    for o in outs:
        reps.append((0, 0, o))
    for o in outs[:200:7]:
        for crashed, ec in ((1, 0), (0, 111), (0, 100), (0, 1), (0, 255)):
            reps.append((crashed, ec, o))
    a, _, _ = vlib.run_lines(h, ["rep %d %d %s" % (c, e, vlib.hx(o)) for c, e, o in reps])
    b, _, _ = vlib.run_lines(drv, ["rep %d %d %s" % (c, e, vlib.hx(o)) for c, e, o in reps])
    # report() as generated from today's qmail-rspawn.c by tools/c2gallina.py, on the same arguments (validation of the translator;
    # Tie/Gen_report.v proves the generated function equal to rspawn_report)
    try:
        g, _, _ = vlib.run_lines(vlib.build_driver("GEN"), ["rep %d %d %s" % (c, e, vlib.hx(o)) for c, e, o in reps])
    except RuntimeError as ex:
        g = None; mism.append(dict(kind="translator", what="the generated functions do not build", log=str(ex)[-600:]))
    for k, ((c, e, o), x) in enumerate(zip(reps, a)):
        if g is not None and g[k] != x:
            mism.append(dict(kind="translator", what="generated report() and C report() disagree", crashed=c, exitcode=e, output=o.decode("latin1"), c=x[:200], generated=g[k][:200])); break
        ck.count("rspawn_report_generated")
    for (c, e, o), x, y in zip(reps, a, b):
        ck.evaluated(); ck.count("rspawn_report")
        ck.nontrivial(("rs", c, e, o))
        r = vlib.unhx(x)
        segs = o.split(b"\0")[:-1]            # terminated segments
        first = next((s[:1] for s in segs if s[:1] in (b"K", b"Z", b"D")), b"")
        ok_K = (c == 0 and e == 0 and o[:1] not in (b"h", b"s", b"") and first == b"K")
        obj = dict(kind="input", component="qmail-rspawn report()", crashed=c, exitcode=e, output=o.decode("latin1"), observed=r.decode("latin1")[:120], model=vlib.unhx(y).decode("latin1")[:120])
        if r[:1] not in (b"K", b"Z", b"D"):
            fails.append(("rspawn:no-verdict", obj, len(o)))
        elif r[:1] == b"K" and not ok_K:
            fails.append(("rspawn:upgraded-to-success", obj, len(o)))
        elif c and r[:1] != b"Z":
            fails.append(("rspawn:crash-not-temporary", obj, len(o)))
        elif not c and e == 111 and r[:1] != b"Z" or (not c and e not in (0, 111) and r[:1] != b"D"):
            fails.append(("rspawn:exit-code-class", obj, len(o)))
        if x != y:
            mism.append(obj)
    # ---- the real qmail-rspawn around a stand-in qmail-remote: one report per command, its class decided by how the
    #      child ENDED (also when the child closed the report pipe before it failed, and when the slot was used before)
    import select as _sel, time as _t, signal as _sig
    mess = os.path.join(home, "queue/mess/0/23")
    os.makedirs(os.path.dirname(mess), exist_ok=True); open(mess, "w").write("Subject: t\n\nb\n")
    for d_ in (home, os.path.join(home, "queue"), os.path.join(home, "queue/mess"), os.path.join(home, "queue/mess/0")): os.chmod(d_, 0o755)
    os.chmod(mess, 0o644); os.chown(mess, vlib.QMAIL_USERS["qmailq"], 0)
    KIND = {"ok": (0, 0), "x100": (0, 100), "x111": (0, 111), "x1": (0, 1), "crash": (1, 0), "late0": (0, 0), "late100": (0, 100), "late111": (0, 111), "latecrash": (1, 0),
            "hard": (0, 0), "soft": (0, 0), "silent": (0, 0)}
    OUT = {"hard": b"h127.0.0.1 does not like recipient.\nRemote host said: 550 no\n\0DGiving up on 127.0.0.1.\n\0", "soft": b"s127.0.0.1 does not like recipient.\nRemote host said: 450 later\n\0ZGiving up on 127.0.0.1.\n\0", "silent": b""}
    OKREP = b"r\0K127.0.0.1 accepted message.\nRemote host said: 250 queued\n\0"
    plans = [["ok", k] for k in KIND] + [["late0", "late100", "ok", "latecrash", "ok", "late111"], ["hard", "x100", "soft", "crash", "silent", "late100"]]
    for _ in range(12 if ck.thorough else 4): plans.append([ck.rng.choice(list(KIND)) for _ in range(ck.rng.randint(2, 6))])
    senv = dict(env, QMAILREMOTE=os.path.join(vlib.VERIF, "harness", "remote_stub.sh"))
    rsruns = []
    for plan in plans:
        p = subprocess.Popen([rb.path("qmail-rspawn")], stdin=subprocess.PIPE, stdout=subprocess.PIPE, env=senv, bufsize=0, cwd=home)
        fdo = p.stdout.fileno()
        _sel.select([fdo], [], [], 5); os.read(fdo, 1)
        for kind in plan:
            os.write(p.stdin.fileno(), b"\1" + b"0/23\0sender@x.example\0" + kind.encode() + b"@dest.example\0")
            buf = b""; end = _t.time() + 10
            while _t.time() < end and not (len(buf) >= 2 and buf.find(b"\0", 1) >= 0):
                r_, _, _ = _sel.select([fdo], [], [], 0.5)
                if r_:
                    d_ = os.read(fdo, 65536)
                    if not d_: break
                    buf += d_
            _t.sleep(0.45 if kind.startswith("late") else 0.02)        # a late child has ended before the slot is used again
            extra = b""
            while _sel.select([fdo], [], [], 0)[0]:
                d_ = os.read(fdo, 65536)
                if not d_: break
                extra += d_
            rsruns.append((plan, kind, buf, extra))
        p.stdin.close()
        try: p.wait(timeout=5)
        except Exception: p.kill()
    mrep, _, _ = vlib.run_lines(drv, ["rep %d %d %s" % (KIND[k][0], KIND[k][1], vlib.hx(OUT.get(k, OKREP))) for _, k, _, _ in rsruns])
    # the same deliveries as event traces of the slot model (Remote/SpawnSlot.v, keep = true): each plan is one trace - command, the
    # child's writes, (for late*: the child closes its descriptors and the spawner reads what is there), exit, handler, reads, end of file
    def slot_events(kind):
        out = OUT.get(kind, OKREP)
        w = 9 if KIND[kind][0] else KIND[kind][1] * 256
        ev = ["c"] + ["w%02x" % b for b in out]
        rd = []
        left = len(out)
        while left > 0:
            n_ = min(128, left); rd.append("r%d" % n_); left -= n_
        if kind.startswith("late"): ev += ["x"] + rd + ["e%d" % w, "s", "r0"]
        else: ev += ["e%d" % w, "s"] + rd + ["r0"]
        return ev
    seen_plans = []
    for plan, _, _, _ in rsruns:
        if plan not in seen_plans: seen_plans.append(plan)
    sl, _, _ = vlib.run_lines(drv, ["slot 1 " + ",".join(e for k in plan for e in slot_events(k)) for plan in seen_plans])
    slot_rep = {}
    for plan, line in zip(seen_plans, sl):
        ck.evaluated(); ck.count("slot_model_traces")
        if line == "REJECT" or " | " not in line:
            mism.append(dict(kind="history", component="Remote/SpawnSlot.v", plan=plan, model=line[:200])); continue
        reps_, relayed = line.split(" | ")
        if any(r.split(":")[2] != "1" for r in reps_.split(",")):
            mism.append(dict(kind="history", component="Remote/SpawnSlot.v", plan=plan, model=line[:200])); continue
        slot_rep[tuple(plan)] = relayed.split(",")
    pos_in_plan = {}
    for (plan, kind, buf, extra), y in zip(rsruns, mrep):
        ck.evaluated(); ck.count("rspawn_process_" + kind)
        ck.nontrivial(("rsp", tuple(plan), kind))
        c, e = KIND[kind]
        nrep = (buf + extra).count(b"\0")
        text = buf[1:buf.find(b"\0", 1)] if buf.find(b"\0", 1) >= 0 else buf[1:]
        obj = dict(kind="history", component="qmail-rspawn (process)", plan=plan, command=kind, child_crashed=c, child_exit=e, child_output=OUT.get(kind, OKREP).decode("latin1"),
                   observed=(buf + extra).decode("latin1")[:200], model=vlib.unhx(y).decode("latin1")[:120])
        if buf[:1] != b"\1" or nrep != 1: fails.append(("rspawn:not-one-report-per-command", obj, len(plan)))
        elif text[:1] == b"K" and not (c == 0 and e == 0 and kind in ("ok", "late0")): fails.append(("rspawn:upgraded-to-success", obj, len(plan)))
        elif c and text[:1] != b"Z": fails.append(("rspawn:crash-not-temporary", obj, len(plan)))
        elif not c and (e == 111 and text[:1] != b"Z" or e not in (0, 111) and text[:1] != b"D"): fails.append(("rspawn:exit-code-class", obj, len(plan)))
        elif text != vlib.unhx(y): mism.append(obj)
        else:
            # and through the slot model: the k-th report of this plan's trace, relayed by the report() model
            kpos = pos_in_plan.get(id(plan), 0); pos_in_plan[id(plan)] = kpos + 1
            sr = slot_rep.get(tuple(plan))
            if sr is not None and (kpos >= len(sr) or vlib.unhx(sr[kpos]) != text): mism.append(dict(obj, slot_model=None if kpos >= len(sr) else sr[kpos]))
    ck.cov["disagreements_checked"] = len(mism)
    ck.cov["rule"] = ("scripts: for 1..3 recipients, each protocol phase (greeting, HELO, MAIL, each RCPT, DATA, final dot) given every reply form of the classes "
                      "2xx/3xx/4xx/5xx (single- and multi-line, LF-only), garbage codes, and replies cut short / missing (disconnect), every class combination over the recipients, "
                      "seeded random scripts; every 11th run uses a message with a partial last line. rspawn: every output over {r,h,s,K,Z,D,x,NUL} to length 4/5 x exit statuses "
                      "0/1/100/111/255/crash. non-trivial = distinct (recipients, script, message kind) / (status, output)")
    ck.sample(dict(component="qmail-remote", recipients=runs[40][0], script=runs[40][2].decode("latin1"), observed=list(runs[40][4])))
    ck.sample(dict(component="qmail-rspawn report()", output=repr(reps[300][2]), observed=a[300]))
    fails.sort(key=lambda x: x[2])
    seen = set()
    for key, obj, _ in fails:
        if key in seen: continue
        seen.add(key)
        ck.violation(key, obj, what="%s: %s" % (obj["component"], key))
    if mism and not fails:
        ck.violation("correspondence", dict(kind="correspondence", broken="Remote/RemoteSmtp.v = qmail-remote.c smtp()/qmail-rspawn.c report()", first=mism[0], n=len(mism)),
                     nofail=True, what="model and implementation disagree but the direct oracles hold")
    ck.proof_failure_violation(bool(fails))
    ck.finish(trusted_base=[vlib.KERNEL_TB, vlib.EXTRACTION_TB, "checks/C09.py scripted loopback server (sends its script at once, half-closes, keeps reading) and the independent reply classifier",
                            "harness/h_rsreport.c (#include qmail-rspawn.c; report() with a memory substdio)"],
              assumptions=["TCP, DNS, connect timeouts and tcpto are outside the model; a stall is represented by the disconnect it ends in (timeoutread -> dropped())",
                           "qmail-remote output handed to report() ends with NUL (zerodie); an unterminated output is read as a C string (noted under C20)",
                           "the text after the verdict byte (Remote host said ...) is compared between model and implementation but is not part of a theorem"])

def replay(path):
    obj = json.load(open(path))
    print("re-run ./check C09 (deterministic for the same VERIF_SEED); recorded case:", json.dumps(obj)[:700])
    return 0
