"""C19 - the POP3 server shows the maildir faithfully and deletes only on request.

proof: coq/Props/Properties_C19.v
tie:   the real qmail-pop3d (run under a non-root uid) on generated maildir populations and command
       sequences (exhaustive short sequences over the verbs with boundary arguments, seeded longer
       ones, pipelined input, LF-only line ends): replies byte for byte and the maildir afterwards
       against the extracted session model; an RFC 1939 reference written in Python is the oracle."""
import itertools, json, os, shutil, subprocess, sys
import vlib

PID = "C19"
UID = 65534

def gen_populations(rng, thorough):
    contents = [b"", b"Subject: a\n\nbody\n", b"H: x\n\n.leading dot\n..two\n.\nend", b"no newline at end", b"X: y\n\nl1\nl2\nl3\nl4\n",
                b"\n\n\n", b".\n", b"bare\rcr\n\r\n", b"A: b\nC: d\n\n" + b"line\n" * 30, b"\xff\x00bin\n", b"a\n.hidden tail", b"\n.", b".", b"H: v\n\n.\n.x"]
    for _ in range(12):
        contents.append(b"".join(rng.choice([b".", b"\n", b"x", b"..", b"\n.", b"h: v\n", b"\r", b"\n\n"]) for _ in range(rng.randint(0, 9))))
    pops = [[], [dict(sub="cur", name="1700000000.1.host:2,S", content=b"A: b\nC: d\n\n" + b"line\n" * 30, unreadable=False),
                 dict(sub="new", name="1700000001.2.host", content=b"Subject: a\n\nbody\n", unreadable=False),
                 dict(sub="cur", name="1700000002.3.host:2,", content=b"X: y\n\nl1\nl2\nl3\nl4\n", unreadable=False)]]
    for _ in range(25 if thorough else 8):
        n = rng.randint(1, 5)
        pop = []
        for k in range(n):
            sub = rng.choice(["new", "cur"])
            name = "%d.%d.host" % (1700000000 + k, rng.randint(1, 99999)) + (rng.choice(["", ":2,", ":2,S", ":2,RS"]) if sub == "cur" else "")
            pop.append(dict(sub=sub, name=name, content=rng.choice(contents), unreadable=rng.random() < 0.08))
        pops.append(pop)
    return pops

def gen_sessions(rng, nmsg, thorough):
    args = ["", "0", "1", str(nmsg), str(nmsg + 1), "2", "99999999999", "18446744073709551616", "18446744073709551617", "4294967297", "x", "-1", "1x", " 1", "1 0", "1 1", "1 2", "1 9", "2 0"]
    verbs = ["STAT", "LIST", "UIDL", "DELE", "RETR", "TOP", "RSET", "LAST", "NOOP", "QUIT", "XYZZY", "dele", "Retr"]
    sess = []
    basic = ["STAT", "LIST", "LIST 1", "UIDL", "DELE 1", "DELE %d" % nmsg, "RETR 1", "TOP 1 1", "RSET", "QUIT", "DELE 0", "DELE %d" % (nmsg + 1), "LAST"]
    L = 3 if thorough else 2
    for n in range(1, L + 1):
        for t in itertools.product(basic, repeat=n):
            sess.append(list(t))
    for _ in range(400 if thorough else 120):
        k = rng.randint(1, 12)
        s = []
        for _ in range(k):
            v = rng.choice(verbs)
            a = rng.choice(args) if v.upper() in ("LIST", "UIDL", "DELE", "RETR", "TOP") else rng.choice(["", "", "junk"])
            s.append((v + " " + a).rstrip() if a else v)
        if rng.random() < 0.7: s.append("QUIT")
        sess.append(s)
    return sess

def ref_session(msgs, lines):
    """RFC 1939 / qmail-pop3d(8) reference, written independently of the Coq model"""
    out = b"+OK \r\n"
    deleted = [False] * len(msgs); last = 0
    def num(arg):
        digs = b""
        for ch in arg:
            if 48 <= ch <= 57: digs += bytes([ch])
            else: break
        if not digs: return None, b"syntax error"
        v = int(digs)
        if v == 0: return None, b"messages are counted from 1"
        if v > len(msgs): return None, b"not that many messages"
        if deleted[v - 1]: return None, b"already deleted"
        return v - 1, None
    def blast(c, limit):
        o = b""; inh = True
        parts = c.split(b"\n")
        term = [True] * (len(parts) - 1) + [False]
        if parts[-1] == b"": parts.pop(); term.pop()
        for l, t in zip(parts, term):
            if limit and not inh:
                limit -= 1
                if limit == 0: break
            if l == b"": inh = False
            elif l[:1] == b".": o += b"."
            o += l + b"\r\n"
            if not t: break
        return o + b"\r\n.\r\n"
    ops = []
    for raw in lines:
        l = raw[:-1] if raw.endswith(b"\r") else raw
        l = l.split(b"\0")[0]
        sp = l.find(b" ")
        verb = (l if sp < 0 else l[:sp]).lower(); arg = b"" if sp < 0 else l[sp:].lstrip(b" ")
        if verb == b"quit":
            for i, m in enumerate(msgs):
                if deleted[i]: ops.append(("U", m["fn"]))
                elif m["fn"].startswith(b"new/"): ops.append(("R", m["fn"], b"cur/" + m["fn"][4:] + b":2,"))
            out += b"+OK \r\n"
            return out, ops
        elif verb == b"stat":
            out += b"+OK %d %d\r\n" % (len(msgs), sum(m["size"] for i, m in enumerate(msgs) if not deleted[i]))
        elif verb in (b"list", b"uidl"):
            def ln(i): return b"%d " % (i + 1) + ((msgs[i]["fn"][4:].split(b":")[0]) if verb == b"uidl" else b"%d" % msgs[i]["size"]) + b"\r\n"
            if arg:
                i, e = num(arg)
                out += (b"-ERR " + e + b"\r\n") if e else b"+OK " + ln(i)
            else:
                out += b"+OK \r\n" + b"".join(ln(i) for i in range(len(msgs)) if not deleted[i]) + b".\r\n"
        elif verb == b"dele":
            i, e = num(arg)
            if e: out += b"-ERR " + e + b"\r\n"
            else:
                deleted[i] = True; last = max(last, i + 1); out += b"+OK \r\n"
        elif verb in (b"retr", b"top"):
            i, e = num(arg)
            if e: out += b"-ERR " + e + b"\r\n"; continue
            rest = arg.lstrip(b"0123456789").lstrip(b" ")
            digs = b""
            for ch in rest:
                if 48 <= ch <= 57: digs += bytes([ch])
                else: break
            limit = int(digs) + 1 if digs else 0
            if msgs[i]["content"] is None: out += b"-ERR unable to open that message\r\n"
            else: out += b"+OK \r\n" + blast(msgs[i]["content"], limit)
        elif verb == b"rset":
            deleted = [False] * len(msgs); last = 0; out += b"+OK \r\n"
        elif verb == b"last": out += b"+OK %d\r\n" % last
        elif verb == b"noop": out += b"+OK \r\n"
        else: out += b"-ERR unimplemented\r\n"
    return out, []

def main():
    ck = vlib.Check(PID, "proof")
    rb = vlib.RepoBuild()
    if not rb.ok:
        print("repository does not build:\n" + rb.log[-2000:]); sys.exit(2)
    ck.proofs(srcdir=rb.dir)
    drv = vlib.build_driver("C19")
    exe = rb.path("qmail-pop3d")
    rng = ck.rng
    base = os.path.join(vlib.scratch(), "popuser")
    os.makedirs(base, exist_ok=True); os.chown(base, UID, UID); os.chmod(vlib.scratch(), 0o755)
    md = os.path.join(base, "Maildir")
    fails, mism = [], []
    import gen_common; gen_common.translator_selfcheck(ck, rb, mism)
    jobs = []
    def setup(pop):
        shutil.rmtree(md, ignore_errors=True)
        for d in ("", "new", "cur", "tmp"):
            os.makedirs(os.path.join(md, d)); os.chown(os.path.join(md, d), UID, UID)
        msgs = []
        for k, m in enumerate(pop):
            p = os.path.join(md, m["sub"], m["name"])
            open(p, "wb").write(m["content"]); os.chown(p, UID, UID)
            os.utime(p, (1700000000 + 10 * k, 1700000000 + 10 * k))
            if m["unreadable"]: os.chmod(p, 0)
            msgs.append(dict(fn=("%s/%s" % (m["sub"], m["name"])).encode(), size=len(m["content"]), content=None if m["unreadable"] else m["content"]))
        return msgs
    def run(session_bytes):
        p = subprocess.run([exe, "Maildir"], input=session_bytes, stdout=subprocess.PIPE, stderr=subprocess.PIPE, cwd=base,
                           preexec_fn=lambda: (os.setgid(UID), os.setuid(UID)), timeout=30)
        return p.stdout, p.returncode
    def listing():
        return sorted("%s/%s" % (d, f) for d in ("new", "cur") for f in os.listdir(os.path.join(md, d)))
    pops = gen_populations(rng, ck.thorough)
    for pop in pops:
        sessions = gen_sessions(rng, len(pop), ck.thorough)
        if len(pop) not in (0, 2) and not ck.thorough:
            sessions = sessions[-60:]
        for s in sessions:
            msgs = setup(pop)
            eol = rng.choice([b"\r\n", b"\r\n", b"\n"])
            lines = [x.encode() for x in s]
            data = b"".join(l + eol for l in lines)
            if rng.random() < 0.1 and not data.endswith(b"QUIT" + eol): data += b"DELE 1"      # unterminated last line = no command
            out, rc = run(data)
            after = listing()
            raw_lines = [l + (b"\r" if eol == b"\r\n" else b"") for l in lines]
            jobs.append((pop, msgs, raw_lines, out, rc, after, [m["fn"].decode() for m in msgs]))
    mlines = []
    for pop, msgs, raw_lines, out, rc, after, before in jobs:
        ms = ",".join("%s:%d:%s" % (vlib.hx(m["fn"]), m["size"], "V" if m["content"] is None else vlib.hx(m["content"])) for m in msgs) or "-"
        ls = ",".join(vlib.hx(l) if l else "-" for l in raw_lines) or "-"
        mlines.append("sess %s %s" % (ms, ls))
    mout, _, _ = vlib.run_lines(drv, mlines)
    for (pop, msgs, raw_lines, out, rc, after, before), m in zip(jobs, mout):
        ck.evaluated(); ck.count("sessions")
        ck.nontrivial((tuple(before), tuple(raw_lines)))
        exp_out, exp_ops = ref_session(msgs, raw_lines)
        # maildir expected after the session
        exp_after = set(before)
        for op in exp_ops:
            if op[0] == "U": exp_after.discard(op[1].decode())
            else:
                exp_after.discard(op[1].decode()); exp_after.add(op[2].decode())
        mo, mops = m.split()
        obj = dict(kind="history", maildir=[dict(fn=x["fn"].decode(), size=x["size"], readable=x["content"] is not None) for x in msgs],
                   session=[l.decode("latin1") for l in raw_lines], observed_output=out.decode("latin1")[:600], expected_output=exp_out.decode("latin1")[:600],
                   maildir_after=after, expected_after=sorted(exp_after))
        wraps = any(re_wrap(l) for l in raw_lines)
        if out != exp_out or sorted(exp_after) != after:
            if wraps:
                key = "pop3:msgno-wraps-2^64"
            elif sorted(exp_after) != after and set(after) < set(exp_after):
                key = "pop3:deleted-without-request"
            else:
                key = "pop3:session"
            fails.append((key, obj, len(raw_lines) * 100 + len(msgs)))
        if vlib.unhx(mo) != out[6:] and not (vlib.unhx(mo) == out[len(b"+OK \r\n"):]):
            mism.append(dict(obj, model_output=vlib.unhx(mo).decode("latin1")[:600]))
    # ---------------------------------------------------------------- a file vanishes during the session: QUIT still removes the other marked messages
    for variant in range(3):
        pop = [dict(sub="cur", name="17000000%02d.%d.host:2,S" % (k, k), content=b"S: %d\n\nb\n" % k, unreadable=False) for k in range(4)] + \
              [dict(sub="new", name="1700000009.9.host", content=b"N: 9\n\nnew\n", unreadable=False)]
        msgs = setup(pop)
        pr = subprocess.Popen([exe, "Maildir"], stdin=subprocess.PIPE, stdout=subprocess.PIPE, stderr=subprocess.PIPE, cwd=base, preexec_fn=lambda: (os.setgid(UID), os.setuid(UID)))
        def rl():
            return pr.stdout.readline()
        g = rl()
        marks = [[2, 3, 4], [1, 2], [2, 4]][variant]; vanish = [2, 1, 2][variant]
        for mno in marks:
            pr.stdin.write(b"DELE %d\r\n" % mno); pr.stdin.flush(); rl()
        os.remove(os.path.join(md, pop[vanish - 1]["sub"], pop[vanish - 1]["name"]))
        pr.stdin.write(b"QUIT\r\n"); pr.stdin.flush()
        out_q = pr.stdout.read(); pr.wait(timeout=10)
        after = listing()
        ck.evaluated(); ck.count("vanished_file_sessions"); ck.nontrivial(("vanish", variant))
        want_gone = {"%s/%s" % (pop[mno - 1]["sub"], pop[mno - 1]["name"]) for mno in marks}
        still = [f for f in after if f in want_gone]
        moved = any(f.startswith("cur/1700000009.9.host") for f in after) or "new/1700000009.9.host" in want_gone
        if still or not moved or not out_q.rstrip().endswith(b"+OK"):
            fails.append(("pop3:quit-gave-up-after-failed-unlink", dict(kind="history", maildir=[m["name"] for m in pop], marked=marks, removed_behind_its_back=vanish,
                                                                     quit_output=out_q.decode("latin1")[:300], marked_but_still_there=still, new_mail_moved_to_cur=moved, maildir_after=after), variant))
    # ---------------------------------------------------------------- qmail-popup: before authentication
    popup = rb.path("qmail-popup")
    stub = os.path.join(vlib.scratch(), "checkpw.sh"); fd3out = os.path.join(vlib.scratch(), "fd3.out")
    open(stub, "w").write("#!/bin/sh\ncat <&3 > \"$FD3OUT\"\ncase \"$STUBRC\" in k) kill -SEGV $$;; *) exit \"$STUBRC\";; esac\n"); os.chmod(stub, 0o755)
    words = [b"USER joe", b"USER Ann ", b"USER", b"user  x y", b"PASS s3 cr3t", b"PASS", b"pass  p", b"APOP ann 0123abcd", b"APOP x ", b"APOP nospace", b"APOP  a  b c", b"NOOP", b"QUIT",
             b"RETR 1", b"STAT", b"", b"   ", b"USER j\0oe", b"PASS a\0b", b"USER " + b"u" * 300, b"PASS " + b"p" * 700, b"XYZZY", b"USER\tjoe", b"uSeR Mixed"]
    pj = []
    for n in (1, 2):
        for seq in itertools.product(range(len(words[:14])), repeat=n):
            pj.append([words[i] for i in seq])
    for _ in range(400 if ck.thorough else 120):
        pj.append([rng.choice(words) for _ in range(rng.randint(1, 7))])
    if not ck.thorough: pj = pj[:14] + rng.sample(pj[14:14 + 196], 60) + pj[210:]
    plines, pres = [], []
    for seq in pj:
        eol = rng.choice([b"\r\n", b"\n"]); src = rng.choice(["0", "0", "1", "7", "k"])
        data = b"".join(l + eol for l in seq)
        if os.path.exists(fd3out): os.remove(fd3out)
        pr = subprocess.run([popup, "pop.example", stub], input=data, stdout=subprocess.PIPE, stderr=subprocess.PIPE, env=dict(os.environ, FD3OUT=fd3out, STUBRC=src), timeout=30)
        m = re.match(rb"^\+OK <([^>]*)>\r\n", pr.stdout)
        fd3 = open(fd3out, "rb").read() if os.path.exists(fd3out) else None
        raw = [l + (b"\r" if eol == b"\r\n" else b"") for l in seq]
        pres.append((seq, pr, m, fd3, src))
        plines.append("popup %s %s %s %s" % (vlib.hx(m.group(1)) if m else "-", ",".join(["x"] + [vlib.hx(l) if l else "-" for l in raw]), "1" if src == "k" else "0", "0" if src == "k" else src))
    pm, _, _ = vlib.run_lines(drv, plines)
    for (seq, pr, m, fd3, src), mo in zip(pres, pm):
        ck.evaluated(); ck.count("popup_sessions"); ck.nontrivial(("popup", tuple(seq), src))
        obj = dict(kind="history", program="qmail-popup", session=[l.decode("latin1") for l in seq], subprogram_exit=src, output=pr.stdout.decode("latin1")[:400],
                   fd3=None if fd3 is None else vlib.hx(fd3))
        if not m:
            fails.append(("popup:no-greeting", obj, len(seq))); continue
        banner = m.group(1); rest = pr.stdout[m.end():]
        # direct oracles: the subprogram runs only after USER+PASS or APOP and gets exactly three NUL-terminated fields ending with the banner
        if fd3 is not None:
            parts = fd3.split(b"\0")
            sawcred = any(l.strip().lower().startswith((b"pass", b"apop")) for l in seq)
            if len(parts) != 4 or parts[3] != b"" or parts[2] != b"<" + banner + b">" or not sawcred or not parts[0]:
                fails.append(("popup:credentials-not-verbatim", obj, len(seq)))
        mrep, mfd = mo.split()
        if vlib.unhx(mrep) != rest or (None if mfd == "none" else vlib.unhx(mfd)) != fd3:
            mism.append(dict(obj, model_output=vlib.unhx(mrep).decode("latin1")[:400], model_fd3=mfd))
    # directed: credentials that end in a blank or a CR reach the checker byte for byte (only the CR of the line end is removed)
    for u_, p_, eol in [(b"alice ", b"open sesame ", b"\r\n"), (b"alice", b"secret\r", b"\r\n"), (b"al ice  ", b" x ", b"\n"), (b"bob\r", b"pw\r\r", b"\r\n"), (b"carol", b"tab\t ", b"\n")]:
        data = b"USER " + u_ + eol + b"PASS " + p_ + eol
        if os.path.exists(fd3out): os.remove(fd3out)
        pr = subprocess.run([popup, "pop.example", stub], input=data, stdout=subprocess.PIPE, stderr=subprocess.PIPE, env=dict(os.environ, FD3OUT=fd3out, STUBRC="0"), timeout=30)
        m = re.match(rb"^\+OK <([^>]*)>\r\n", pr.stdout)
        fd3 = open(fd3out, "rb").read() if os.path.exists(fd3out) else None
        ck.evaluated(); ck.count("popup_verbatim_credentials")
        want = None if not m else u_ + b"\0" + p_.lstrip(b" ") + b"\0<" + m.group(1) + b">\0"
        if want is None or fd3 != want:
            fails.append(("popup:credentials-not-verbatim", dict(kind="history", program="qmail-popup", session=data.decode("latin1"), fd3=None if fd3 is None else vlib.hx(fd3),
                                                                 expected_fd3=None if want is None else vlib.hx(want)), len(data)))
    # refuses to run as root
    p = subprocess.run([exe, "Maildir"], input=b"QUIT\r\n", stdout=subprocess.PIPE, stderr=subprocess.PIPE, cwd=base)
    ck.evaluated(); ck.count("root_refused")
    if p.returncode == 0 or p.stdout.startswith(b"+OK"):
        fails.append(("pop3:runs-as-root", dict(kind="input", note="qmail-pop3d served a session as uid 0", exit=p.returncode), 0))
    ck.cov["disagreements_checked"] = len(mism)
    ck.cov["rule"] = ("maildir populations (0-5 messages in new/ and cur/, dot-leading lines, no final newline, empty, NUL/8-bit, unreadable files, info suffixes, distinct mtimes) x "
                      "command sequences: every sequence of length 1-2/3 over 13 representative commands, seeded sequences to length 12 with boundary arguments (0, 1, n, n+1, huge, 2^64+1, junk, "
                      "'n k' for TOP), CRLF and LF-only line ends, unterminated last line, sessions without QUIT. non-trivial = distinct (maildir, session)")
    ck.sample(dict(maildir=jobs[200][6], session=[l.decode() for l in jobs[200][2]]))
    fails.sort(key=lambda x: x[2])
    seen = set()
    for key, obj, _ in fails:
        if key in seen and key not in ck.known: continue
        seen.add(key)
        ck.violation(key, obj, what="real qmail-pop3d: " + key)
    real = [f for f in fails if f[0] not in ck.known]
    if mism and not real:
        ck.violation("correspondence", dict(kind="correspondence", broken="Pop/Pop3.v session = qmail-pop3d.c", first=mism[0], n=len(mism)),
                     nofail=True, what="model and implementation disagree but the reference oracle holds")
    ck.proof_failure_violation(bool(real))
    ck.finish(trusted_base=[vlib.KERNEL_TB, vlib.EXTRACTION_TB, "checks/C19.py (maildir setup, the independent RFC 1939 reference, running qmail-pop3d under uid 65534)"],
              assumptions=["messages have distinct mtimes (equal mtimes are ordered by the heap, outside the property)", "STAT's message count is not reduced by DELE (documented; excluded by the property)",
                           "qmail-popup's subprogram is a stand-in that records descriptor 3 and exits with a chosen status; the 20-minute timeouts are not exercised",
                           "message numbers >= 2^64 wrap (recorded finding pop3:msgno-wraps-2^64)"])

import re
def re_wrap(l):
    m = re.match(rb"^\s*(dele|retr|top|list|uidl)\s+([0-9]+)", l, re.I)
    return bool(m and int(m.group(2)) >= 2 ** 64)

def replay(path):
    obj = json.load(open(path))
    print("re-run ./check C19 (deterministic for the same VERIF_SEED); recorded case:", json.dumps(obj)[:800])
    return 0
