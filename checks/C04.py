"""C04 - finished recipients are never retried; at most one attempt in flight.

proof: coq/Props/Properties_C04.v (Queue/QueueSpec.v: conc_ok invariant, finished_never_retried)
tie:   the histories of C03 (real qmail-queue + qmail-send + qmail-clean, scripted spawners) under every concurrency
       setting 0..3 and announced spawner limit 1..4, with SIGKILL/SIGTERM + restart after completion marks were
       written; every translated event must be accepted by the automaton; oracles on what the spawners really saw:
       no delivery command for a (message, recipient) after a K or D report whose one-byte mark reached the file, at
       most one outstanding command per recipient, outstanding commands per channel never above min(configured,
       announced), without crashes every K-reported recipient got exactly one command answered K."""
import json, os, sys
import vlib
import queue_common as qc
import C03 as base
import C02 as c02

PID = "C04"

def main():
    ck = vlib.Check(PID, "proof")
    rb = vlib.RepoBuild()
    if not rb.ok:
        print("repository does not build:\n" + rb.log[-2000:]); sys.exit(2)
    ck.proofs(srcdir=rb.dir)
    drv = vlib.build_driver("C02")
    rng = ck.rng
    fails, mism = [], []
    verdicts = [b"K", b"K", b"D", b"Z", b"Xgarbled"]
    combos = [(cl, cr, al, ar) for cl in (0, 1, 2, 3) for cr in (1, 2) for al in (1, 2, 4) for ar in (1, 4)]
    n_h = 36 if ck.thorough else 9
    for h in range(n_h):
        cl, cr, al, ar = combos[h % len(combos)] if ck.thorough else rng.choice(combos)
        W = qc.World(rb, "c04", conc=(cl, cr))
        plan = {}; msgs = []
        for m in range(rng.randint(1, 3)):
            rc = []
            for j in range(rng.randint(2, 6)):
                a = b"h%dm%dr%d@%s.example" % (h, m, j, rng.choice([b"local", b"local", b"remote"]))
                plan[a] = [rng.choice(verdicts) for _ in range(rng.randint(0, 2))] + [rng.choice([b"K", b"K", b"D"])]
                rc.append(a)
            if rng.random() < 0.3: rc.append(rc[0])          # the same address twice in one envelope: two records
            msgs.append((b"s%d@x.example" % m, rc))
        R = qc.Runner(W, plan, announce=(al, ar)); R.start(); R.service(0.3)
        crashed = False
        for sender, rc in msgs:
            R.inject(sender, rc)
            # let several reports arrive slowly so that attempts pile up against the limit
            R.service(0.1, answer=False); R.service(0.1, answer=False); R.service(0.1)
            act = rng.random()
            if act < 0.35: R.service(0.1); R.kill(); R.start(); crashed = True
            elif act < 0.55: R.service(0.1); R.term(); R.start()
        R.drain(); R.kill()
        T = base.check_history(ck, drv, W, R, "history %d concurrency local=%d remote=%d announced %d/%d" % (h, cl, cr, al, ar), fails, mism)
        ck.nontrivial("h%d" % h); ck.count("conc_%d_%d_%d_%d" % (cl, cr, al, ar))
        obj = dict(kind="history", history=R.history[-60:], concurrency=dict(local=cl, remote=cr, announced_local=al, announced_remote=ar),
                   commands=[(c["n"], c["chan"], c["rcpt"].decode("latin1"), (c["verdict"] or b"?")[:1].decode("latin1"), c["gen"]) for c in R.cmds][-60:])
        bad = qc.retried_after_mark(T.events)
        if bad:
            fails.append(("send:finished-recipient-retried", dict(obj, retried=[dict(msg=n, channel=c, record=i, address=T.recs.get(n, [[], []])[c][i].decode("latin1") if i < len(T.recs.get(n, [[], []])[c]) else "?",
                                                                                     events=[e[2] for e in T.events[pm:pm + 1] + T.events[pc:pc + 1]]) for n, c, i, pm, pc in bad][:5]), len(R.history)))
        lim = {"l": min(cl, al), "r": min(cr, ar)}
        for k in ("l", "r"):
            if R.maxfly[k] > lim[k]:
                fails.append(("send:concurrency-exceeded", dict(obj, channel=k, outstanding=R.maxfly[k], limit=lim[k]), len(R.history)))
        # at most one outstanding command per record: commands of one generation for the same (n, rcpt) overlap only if the address occurs twice
        for g in set(c["gen"] for c in R.cmds):
            cs = [c for c in R.cmds if c["gen"] == g]
            for i, c in enumerate(cs):
                mult = sum(1 for s, rc in R.accepted for r in rc if r == c["rcpt"])
                dup = [x for x in cs[:i] if x["n"] == c["n"] and x["rcpt"] == c["rcpt"] and (x["verdict"] in (None, b"lost"))]
                if len(dup) >= max(1, mult):
                    fails.append(("send:two-attempts-in-flight", dict(obj, recipient=c["rcpt"].decode("latin1"), msg=c["n"]), len(R.history)))
        dropped = R.dropped()
        if dropped:
            fails.append(("send:recipient-dropped", dict(obj, dropped=[x.decode("latin1") for x in dropped]), len(R.history)))
        # exactly once: within one daemon generation (no crash in between) a recipient is never reported delivered twice
        for g in set(c["gen"] for c in R.cmds):
            seen_k = {}
            for c in R.cmds:
                if c["gen"] == g and c["verdict"] and c["verdict"][:1] == b"K":
                    seen_k[(c["n"], c["rcpt"])] = seen_k.get((c["n"], c["rcpt"]), 0) + 1
            for (n, r), k in seen_k.items():
                mult = max(1, sum(rc.count(r) for s_, rc in R.accepted))
                if k > mult:
                    fails.append(("send:delivered-twice-without-crash", dict(obj, recipient=r.decode("latin1"), msg=n, k_reports=k, generation=g), len(R.history)))
    # a build configured for up to 255 concurrent deliveries (conf-spawn): the spawner announces 200, control asks for 250
    rb2 = vlib.RepoBuild("spawn255", conf={"conf-spawn": "255"})
    if rb2.ok:
        for conc, ann in (((250, 250), (200, 130)), ((250, 90), (255, 255))):
            W = qc.World(rb2, "big", conc=conc)
            many = [b"b%03d@remote.example" % i for i in range(230)] + [b"l%03d@local.example" % i for i in range(210)]
            R = qc.Runner(W, {}, default=b"K", announce=ann); R.start(); R.service(0.4)
            R.inject(b"s@x.example", many)
            for _ in range(12): R.service(0.15, answer=False)
            lim = {"l": min(conc[0], ann[0]), "r": min(conc[1], ann[1])}
            slots = {"l": [c["dl"]["slot"][0] for c in R.cmds if c["chan"] == "l"], "r": [c["dl"]["slot"][0] for c in R.cmds if c["chan"] == "r"]}
            ck.evaluated(); ck.nontrivial(("big", conc, ann)); ck.count("conf_spawn_255_histories")
            for k in ("l", "r"):
                if R.maxfly[k] > lim[k] or any(x >= lim[k] for x in slots[k]):
                    fails.append(("send:concurrency-exceeded", dict(kind="history", build="conf-spawn=255", concurrency=dict(local=conc[0], remote=conc[1], announced_local=ann[0], announced_remote=ann[1]),
                                                                   channel=k, outstanding=R.maxfly[k], highest_slot=max(slots[k] or [0]), limit=lim[k]), 0))
            R.kill()
    else:
        mism.append(dict(stream="build with conf-spawn=255 failed", input="", real=rb2.log[-500:], model=""))
    # a crash inside todo_do (info/local written, todo still there), restart: nothing already delivered may be delivered again
    def judge(W, R, T, k):
        # the crash came before any delivery attempt, so nothing excuses a second delivery after the restart
        cnt = {}
        for c in R.cmds:
            if c["verdict"] and c["verdict"][:1] == b"K": cnt[(c["n"], c["rcpt"])] = cnt.get((c["n"], c["rcpt"]), 0) + 1
        for (n, r), kk in cnt.items():
            if kk > 1:
                fails.append(("send:delivered-twice-without-crash", dict(kind="history", scenario="SIGKILL before mutating call %d of qmail-send (inside todo_do, before any delivery), restart" % k,
                              history=R.history[-40:], recipient=r.decode("latin1"), msg=n, k_reports=kk), k))
        bad = qc.retried_after_mark(T.events)
        if bad:
            fails.append(("send:finished-recipient-retried", dict(kind="history", scenario="SIGKILL before mutating call %d of qmail-send (inside todo_do), restart" % k, history=R.history[-40:],
                          retried=[dict(msg=n, channel=c, record=i, events=[e[2] for e in T.events[pm:pm + 1] + T.events[pc:pc + 1]]) for n, c, i, pm, pc in bad][:5]), k))
    c02.crash_in_preprocessing(ck, rb, drv, rng, fails, mism, judge=judge, verdict=b"K")
    base.finish(ck, fails, mism, "send")

def replay(path):
    obj = json.load(open(path))
    print("re-run ./check C04 (deterministic for the same VERIF_SEED); recorded case:", json.dumps(obj)[:2000])
    return 0
