"""C03 - no accepted recipient is ever dropped: delivered or bounced.

proof: coq/Props/Properties_C03.v (Queue/QueueSpec.v: the queue as a guarded automaton over observable events;
       no_drop invariant over every accepted event sequence)
tie:   histories of the real qmail-queue + qmail-send + qmail-clean (this process plays both spawners): messages with
       local and remote recipients, every assignment of K / Z / D / garbled / missing reports to delivery attempts,
       SIGALRM/SIGHUP/SIGTERM, SIGKILL at arbitrary instants and before each mutating system call of qmail-send
       (SYSSHIM_KILLAT), single failing system calls; the interposer's log of every process is translated into the
       automaton's events and every event must be accepted; oracle on the real system: at the end every accepted
       recipient got a K report, or is named in a bounce message that is in the queue / was delivered, or is still
       marked not-done in the queue."""
import json, os, sys, time
import vlib
import queue_common as qc

PID = "C03"

def fixed_plan():
    return {b"a1@local.example": [b"K"], b"a2@remote.example": [b"D"], b"a3@local.example": [b"Z", b"Xjunk", b"K"],
            b"b1@remote.example": [b"Z", b"D"], b"c1@local.example": [b"D"], b"c2@local.example": [b"Z", b"Z", b"K"],
            # three records of equal length on one channel: the first finishes, the second is deferred twice, the third once
            b"d1@local.example": [b"K"], b"d2@local.example": [b"Z", b"Z", b"K"], b"d3@local.example": [b"Z", b"K"]}

def fixed_history(R, kill_mid=False):
    R.inject(b"s@x.example", [b"a1@local.example", b"a2@remote.example", b"a3@local.example"])
    R.service(0.25)
    R.inject(b"", [b"b1@remote.example"])
    R.service(0.2)
    if kill_mid:
        R.kill(); R.start()
    R.inject(b"t@y.example", [b"c1@local.example", b"c2@local.example"])
    R.inject(b"w@z.example", [b"d1@local.example", b"d2@local.example", b"d3@local.example"])
    return R.drain(18)

def check_history(ck, drv, W, R, tag, fails, mism, extra=None):
    """oracles + trace acceptance for one finished history"""
    lines = W.loglines()
    T = qc.Translator(); T.feed(lines)
    rej, inv = qc.accept(drv, T.events)
    ck.evaluated(); ck.count("events", len(T.events))
    obj = dict(kind="history", scenario=tag, history=R.history[-60:], plan={k.decode("latin1"): [x.decode("latin1") if x else None for x in v] for k, v in R.plan.items()})
    if extra: obj.update(extra)
    dropped = R.dropped()
    if dropped:
        fails.append(("send:recipient-dropped", dict(obj, dropped=[x.decode("latin1") for x in dropped]), len(R.history)))
    if rej is not None:
        if os.environ.get("VERIF_KEEPLOG"):
            import shutil; shutil.copy(W.log, os.environ["VERIF_KEEPLOG"])
        k = T.events[rej][1]
        # a concrete reading of one kind of rejected event: the completion mark that follows a K/D report is written on another
        # recipient's record than the one the report was for (the reported recipient stays to do and is attempted again, the marked one
        # is never attempted)
        w = T.events[rej][0].split(" ")
        if w[0] == "mark" and len(w) == 4:
            evs = [e[0].split(" ") for e in T.events[:rej]]
            reps = [x for x in evs if x[0] == "rep" and x[1] == w[2]]
            if reps:
                cmds = [x for x in evs if x[0] == "cmd" and x[1] == w[2] and x[2] == reps[-1][2]]
                if cmds and cmds[-1][3] == w[1] and cmds[-1][4] != w[3] and reps[-1][3] in ("K", "D"):
                    fails.append(("send:completion-mark-on-wrong-recipient", dict(obj, reported_recipient_index=int(cmds[-1][4]), marked_recipient_index=int(w[3]), message=w[1], channel=w[2],
                                  around=[e[2] for e in T.events[max(0, rej - 8):rej + 1]]), len(R.history)))
        mism.append(dict(stream="event not allowed by QueueSpec", input=dict(obj, event=T.events[rej][2], around=[e[2] for e in T.events[max(0, rej - 8):rej + 1]], log=lines[max(0, k - 4):k + 2]), real="accepted by the code", model="rejected; automaton state of that message: " + inv))
    elif "doc=1 nodrop=1 conc=1" not in inv:
        mism.append(dict(stream="invariant false on an accepted trace", input=obj, real=inv, model="proved true"))
    return T

def main(pid=PID, focus="drop"):
    ck = vlib.Check(pid, "proof")
    rb = vlib.RepoBuild()
    if not rb.ok:
        print("repository does not build:\n" + rb.log[-2000:]); sys.exit(2)
    ck.proofs(srcdir=rb.dir)
    drv = vlib.build_driver("C02")
    rng = ck.rng
    fails, mism = [], []
    # ---------------------------------------------------------------- 1. the fixed rich history, with and without a crash
    nmut = 0
    for km in (False, True):
        W = qc.World(rb, "fixed"); R = qc.Runner(W, fixed_plan()); R.start(); R.service(0.3)
        done = fixed_history(R, km)
        R.kill()
        T = check_history(ck, drv, W, R, "fixed history" + (" with SIGKILL" if km else ""), fails, mism)
        ck.nontrivial("fixed%d" % km)
        if not km:
            nmut = sum(1 for l in W.loglines() if l.startswith(str(T.send) + " ") and (" unlink " in l or " link " in l or " fsync " in l or (" write " in l and not " write 0 " in l) or " open " in l))
        if not done: ck.count("not_drained")
    # ---------------------------------------------------------------- 2. a crash before each mutating call of qmail-send
    pts = list(range(1, max(2, int(nmut * 0.8))))
    sel = pts if ck.thorough else sorted(rng.sample(pts, min(10, len(pts))))
    for k in sel:
        W = qc.World(rb, "killat"); R = qc.Runner(W, fixed_plan())
        R.start(send_extra={"SYSSHIM_KILLAT": str(k)}); R.service(0.3)
        R.inject(b"s@x.example", [b"a1@local.example", b"a2@remote.example", b"a3@local.example"])
        R.inject(b"t@y.example", [b"c1@local.example", b"c2@local.example"])
        for _ in range(8):
            R.service(0.12)
            if not W.d.alive(): break
        died = not W.d.alive()
        R.kill(); R.start(); R.drain(); R.kill()
        check_history(ck, drv, W, R, "SIGKILL before mutating call %d of qmail-send" % k, fails, mism, extra=dict(killat=k, died=died))
        ck.nontrivial("killat%d" % k); ck.count("crash_points_hit" if died else "crash_points_not_reached")
    # ---------------------------------------------------------------- 3. random histories
    verdicts = [b"K", b"K", b"Z", b"D", b"Xgarbled", b"Z", None]
    for h in range(40 if ck.thorough else 6):
        W = qc.World(rb, "rand", conc=(rng.choice([1, 2, 4]), rng.choice([1, 2, 4])))
        plan = {}
        msgs = []
        for m in range(rng.randint(1, 3)):
            rc = []
            for j in range(rng.randint(1, 4)):
                a = b"m%dr%d@%s.example" % (m, j, rng.choice([b"local", b"remote"]))
                plan[a] = [rng.choice(verdicts) for _ in range(rng.randint(1, 3))] + [rng.choice([b"K", b"D"])]
                rc.append(a)
            msgs.append((rng.choice([b"s@x.example", b"", b"#@[]", b"v-@[]"]), rc))
        R = qc.Runner(W, plan, announce=(rng.choice([1, 3, 4]), rng.choice([2, 4]))); R.start(); R.service(0.3)
        for sender, rc in msgs:
            R.inject(sender, rc); R.service(rng.choice([0.05, 0.15]))
            act = rng.random()
            if act < 0.25: R.kill(); R.start()
            elif act < 0.4: R.term(); R.start()
            elif act < 0.5: os.kill(W.d.send_pid, 1); R.history.append("SIGHUP")
        R.drain(); R.kill(); R.start(); R.drain(6); R.kill()
        check_history(ck, drv, W, R, "random history %d" % h, fails, mism)
        ck.nontrivial("rand%d" % h)
    # ---------------------------------------------------------------- 4. single failing system calls of qmail-send
    faults = ["unlink:local/:5:1", "unlink:info/:5:1", "open:info/:5:1", "open:local/:5:1", "fsync:fd:5:1", "fsync:fd:5:2", "open:bounce/:5:1",
              "openr:bounce/:5:1", "openr:bounce/:5:2", "openr:mess/:5:2", "openr:mess/:5:4", "open:bounce/:5:2", "open:bounce/:5:3", "unlink:bounce/:5:1", "open:mess/:5:1", "open:mess/:5:3", "open:todo/:5:1", "write:fd1:5:1", "unlink:remote/:5:1", "read:local/:5:2", "read:local/:5:3", "read:local/:5:5", "read:remote/:5:1", "read:remote/:5:2", "read:info/:5:2", "read:todo/:5:1", "read:bounce/:5:1", "open:remote/:13:2", "link:todo/:5:1"]
    directed = ["openr:bounce/:5:1", "openr:bounce/:5:2", "read:bounce/:5:1", "read:local/:5:3", "openr:mess/:5:2"]      # failures inside injectbounce and in a later pass
    for fs in (faults if ck.thorough else directed + rng.sample([x for x in faults if x not in directed], 5)):
        W = qc.World(rb, "fault"); R = qc.Runner(W, fixed_plan())
        R.start(send_extra={"SYSSHIM_FAIL": fs}); R.service(0.3)
        fixed_history(R); R.kill(); R.start(); R.drain(6); R.kill()
        check_history(ck, drv, W, R, "failing system call " + fs, fails, mism, extra=dict(fault=fs))
        ck.nontrivial("fault" + fs)
    # ---------------------------------------------------------------- 5. the queue program refuses the bounce (every class of exit code)
    # a failed submission of the bounce - permanent codes included - leaves the message and its bounce record in place; after a restart the
    # bounce is submitted again and names the failed recipient
    for code in ((31, 11, 40, 115, 54, 81, 91) if ck.thorough else (31, 53)):
        W = qc.World(rb, "qqrefuse"); R = qc.Runner(W, {b"q1@local.example": [b"D"], b"q2@local.example": [b"K"]})
        cnt = os.path.join(vlib.scratch(), "qqfail.%d" % code)
        if os.path.exists(cnt): os.remove(cnt)
        extra = {"QMAILQUEUE": os.path.join(vlib.VERIF, "harness", "qq_fail_first.sh"), "QQFAIL_COUNT": cnt, "QQFAIL_CODE": str(code), "QQFAIL_N": "1",
                 "QQFAIL_REAL": os.path.join(W.home, "bin", "qmail-queue")}
        R.start(send_extra=extra); R.service(0.3)
        R.inject(b"s@x.example", [b"q1@local.example", b"q2@local.example"])
        for _ in range(10): R.service(0.12)
        R.kill(); R.start(send_extra=extra); R.drain(8); R.kill()
        check_history(ck, drv, W, R, "queue program exits %d for the first bounce submission" % code, fails, mism, extra=dict(qq_exit=code))
        ck.nontrivial("qqrefuse%d" % code); ck.count("bounce_submission_refused")
    finish(ck, fails, mism, "send:recipient-dropped")

def finish(ck, fails, mism, what):
    ck.cov["disagreements_checked"] = len(mism)
    ck.cov["rule"] = ("histories of the real qmail-queue/qmail-send/qmail-clean with scripted spawners: a fixed rich history (K, D, Z then garbled then K, bounce, double bounce) with and without SIGKILL; "
                      "SIGKILL before the k-th mutating system call of qmail-send (all k thorough, a seeded sample quick) followed by restart and drain; seeded random histories (1-3 messages x 1-4 recipients, "
                      "reports K/Z/D/garbled/missing, senders incl. empty and #@[], SIGKILL/SIGTERM/SIGHUP/SIGALRM, concurrency 1-4); single failing system calls. Every translated event must be accepted by the automaton. "
                      "non-trivial = distinct histories")
    fails.sort(key=lambda x: x[2])
    seen = set()
    for key, obj, _ in fails:
        if key in seen: continue
        seen.add(key)
        ck.violation(key, obj, what="real qmail-send: " + key)
    real_fails = [f for f in fails if f[0] not in ck.known]
    if mism and not real_fails:
        ck.violation("correspondence", dict(kind="correspondence", broken="Queue/QueueSpec.v accepts every observable event of qmail-queue.c, qmail-send.c, qmail-clean.c (" + mism[0]["stream"] + ")", first=mism[0], n=len(mism)),
                     nofail=True, what="model and implementation disagree (%s)" % mism[0]["stream"])
    ck.proof_failure_violation(bool(real_fails))
    ck.finish(trusted_base=[vlib.KERNEL_TB, vlib.EXTRACTION_TB, "shim/sysshim.c (logs every system call with data, kills before the k-th mutating call, injects failures)",
                            "checks/queue_common.py Translator (system-call log -> automaton events) and checks/daemon_common.py (scripted spawners)"],
              assumptions=["a crash is SIGKILL of qmail-send and qmail-clean: completed writes are kept (loss of un-fsynced data cannot be produced on this file system; the automaton demands the fsyncs instead, so a missing fsync is a rejected event)",
                           "routing of recipients to the local/remote channel is C10's subject; here only the number of records per channel file is compared with the envelope",
                           "the spec's guards are obligations on the code that only the trace acceptance enforces; the theorems are about every event sequence the automaton accepts"])

def replay(path):
    obj = json.load(open(path))
    print("re-run ./check %s (deterministic for the same VERIF_SEED); recorded case:" % PID, json.dumps(obj)[:2000])
    return 0
