"""C12 - mailbox deliveries are complete or absent: maildir atomic, mbox rolled back.

proof: coq/Props/Properties_C12.v
tie:   the real qmail-local delivering to ./Maildir/ and ./mbox under the interposer: every single
       failing open/write/fsync/close/link of the observed call sequence, kills before each call;
       the observed maildir trace is checked by the extracted oracle (every prefix, fsync position),
       the maildir on disk afterwards is compared; mbox files before/after are compared with the
       extracted mbox_entry and read back with the extracted mbox(5) reader and an independent Python
       reader; a delivery blocked on the lock while another entry is appended must roll back to the
       position it finds AFTER getting the lock."""
import fcntl, json, os, re, subprocess, sys, time
import vlib

PID = "C12"

def py_mbox_read(data):
    """independent reader of mbox(5)"""
    lines = data.split(b"\n")
    if lines and lines[-1] == b"":
        lines.pop()
    msgs, cur = [], None
    for l in lines:
        if l.startswith(b"From "):
            if cur: msgs.append(cur)
            cur = [l, []]
        elif cur:
            cur[1].append(l)
    if cur: msgs.append(cur)
    out = []
    for f, body in msgs:
        if body and body[-1] == b"":
            body = body[:-1]
        body = [l[1:] if re.match(rb"^>+From ", l) else l for l in body]
        out.append((f, b"".join(x + b"\n" for x in body)))
    return out

def gen_msgs(rng, thorough):
    base = [b"", b"x", b"x\n", b"Subject: s\n\nbody\n", b"From me\n", b">From me\n>>From you\n", b"a\nFrom x\nb", b"\n\n\n", b"From \n", b"From", b">From",
            b"nul\0byte\n\xff\xfe\n", b"Fromage\n", b" From x\n", b">>>From x\n>\n>From\n", b"a" * 1023 + b"\n", b"a" * 1024, b"b" * 1025 + b"\nFrom z\n", b"c" * 2047 + b"\nFrom q"]
    for _ in range(60 if thorough else 15):
        parts = [rng.choice([b"From ", b">From ", b">>From x", b"\n", b"text", b"\0", b">", b"F", b"From", b" "]) for _ in range(rng.randint(0, 12))]
        base.append(b"".join(parts))
    return base

class Local:
    def __init__(self, rb):
        self.rb = rb
        self.exe = rb.path("qmail-local")
        self.home = os.path.join(vlib.scratch(), "uhome")
        os.makedirs(self.home, exist_ok=True)
        os.chmod(self.home, 0o700)
        for d in ("Maildir", "Maildir/tmp", "Maildir/new", "Maildir/cur"):
            os.makedirs(os.path.join(self.home, d), exist_ok=True)
        self.msgf = os.path.join(vlib.scratch(), "local.msg")
        self.qhome = rb.make_home()
    def run(self, msg, sender, delivery, extra=None, wait=True):
        open(self.msgf, "wb").write(msg)
        log = os.path.join(vlib.scratch(), "local.log")
        if os.path.exists(log): os.remove(log)
        env = vlib.shim_env(self.qhome, log=log, extra=dict({"SYSSHIM_LOGWRITE": "all"}, **(extra or {})))
        f0 = open(self.msgf, "rb")
        p = subprocess.Popen([self.exe, "--", "user", self.home, "user", "", "", "dom.example", sender, delivery],
                             stdin=f0, stdout=subprocess.PIPE, stderr=subprocess.PIPE, env=env)
        if not wait:
            return p, log, f0
        out, err = p.communicate(timeout=60)
        f0.close()
        lines = [l.split() for l in open(log, errors="replace").read().split("\n") if l.strip()] if os.path.exists(log) else []
        return p.returncode, lines, err

def maildir_abstract(lines):
    toks, calls = [], []
    fdrole = {}
    pend = 0
    def flush():
        nonlocal pend
        if pend:
            toks.append(("W", pend)); pend = 0
    for w in lines:
        if len(w) < 3: continue
        c = w[1]; inj = w[-1] == "INJECTED"
        if c == "open" and w[2].startswith("tmp/"):
            flush(); res = int(w[5]); toks.append(("CT", res >= 0)); calls.append(("open", "tmp/"))
            if res >= 0: fdrole[res] = "T"
        elif c == "write" and fdrole.get(int(w[2])) == "T":
            calls.append(("write", "fd" + w[2]))
            if inj: flush(); toks.append(("WFAIL",))
            else: pend += int(w[6])
        elif c == "fsync" and fdrole.get(int(w[2])) == "T":
            flush(); toks.append(("FS", w[4] == "0")); calls.append(("fsync", "fd" + w[2]))
        elif c == "close" and fdrole.get(int(w[2])) == "T":
            flush(); toks.append(("CL", w[4] == "0")); calls.append(("close", "fd" + w[2])); fdrole.pop(int(w[2]))
        elif c == "link":
            flush(); toks.append(("LN", w[5] == "0") if w[2].startswith("tmp/") and w[3].startswith("new/") else ("OTHER", " ".join(w))); calls.append(("link", "new/"))
        elif c == "rename":
            flush(); toks.append(("OTHER", " ".join(w)))
        elif c == "unlink" and w[2].startswith("tmp/"):
            flush(); toks.append(("UT",))
        elif c == "unlink":
            flush(); toks.append(("OTHER", " ".join(w)))
    flush()
    return toks, calls

def render_md(toks, content):
    out, off = ["CD1"], 0
    for t in toks:
        if t[0] == "W":
            d = content[off:off + t[1]]; d += b"\xee" * (t[1] - len(d)); off += t[1]; out.append("W:" + vlib.hx(d))
        elif t[0] in ("CT", "FS", "CL", "LN"): out.append("%s%d" % t)
        elif t[0] == "UT": out.append("UT")
        elif t[0] == "OTHER": out.append("UT")      # not a maildir event: flagged separately by the caller
    return out

def main():
    ck = vlib.Check(PID, "proof")
    rb = vlib.RepoBuild()
    if not rb.ok:
        print("repository does not build:\n" + rb.log[-2000:]); sys.exit(2)
    ck.proofs(srcdir=rb.dir)
    drv = vlib.build_driver("C12")
    L = Local(rb)
    rng = ck.rng
    msgs = gen_msgs(rng, ck.thorough)
    fails, mism = [], []
    new = os.path.join(L.home, "Maildir/new"); tmp = os.path.join(L.home, "Maildir/tmp")
    def clear_md():
        for d in (new, tmp):
            for f in os.listdir(d): os.remove(os.path.join(d, f))
    # ---------------- maildir
    md_jobs = []
    for mi, msg in enumerate(msgs):
        sender = "s@x.example"
        content = b"Return-Path: <s@x.example>\nDelivered-To: user@dom.example\n" + msg
        clear_md()
        rc, lines, err = L.run(msg, sender, "./Maildir/")
        toks, calls = maildir_abstract(lines)
        md_jobs.append((msg, content, "none", rc, toks, sorted(os.listdir(new)), [open(os.path.join(new, f), "rb").read() for f in sorted(os.listdir(new))], os.listdir(tmp)))
        if mi % 3 == 0 or ck.thorough:
            seen = {}
            for kind, where in calls:
                seen[kind] = seen.get(kind, 0) + 1
                if kind == "write" and seen[kind] > 2: continue
                where2 = where if kind in ("open", "link") else "fd"
                for mode in ("FAIL", "KILL"):
                    clear_md()
                    extra = {"SYSSHIM_FAIL": "%s:%s:%d:%d" % (kind, where2, 28 if kind != "open" else 5, seen[kind])} if mode == "FAIL" else \
                            {"SYSSHIM_KILL": "%s:%s:%d" % (kind, where2, seen[kind])}
                    rc2, lines2, err2 = L.run(msg, sender, "./Maildir/", extra)
                    toks2, _ = maildir_abstract(lines2)
                    md_jobs.append((msg, content, "%s %s #%d" % (mode, kind, seen[kind]), rc2, toks2, sorted(os.listdir(new)),
                                    [open(os.path.join(new, f), "rb").read() for f in sorted(os.listdir(new))], os.listdir(tmp)))
    oracle, _, _ = vlib.run_lines(drv, ["mdoracle %s %s" % (vlib.hx(c), " ".join(render_md(t, c))) for _, c, _, _, t, _, _, _ in md_jobs])
    for (msg, content, plan, rc, toks, names, datas, tmps), o in zip(md_jobs, oracle):
        ck.evaluated(); ck.count("maildir_" + plan.split()[0])
        ck.nontrivial(("md", msg[:40], plan, tuple(t[0] for t in toks)))
        obj = dict(kind="trace", delivery="maildir", plan=plan, message=msg.decode("latin1")[:200], exit=rc, trace=[list(map(str, t)) for t in toks], new=names, tmp=tmps)
        bad = None
        if o != "1" or any(t[0] == "OTHER" for t in toks): bad = "maildir:incomplete-or-not-by-link"
        elif any(d != content for d in datas): bad = "maildir:visible-file-wrong-content"
        elif rc == 0 and len(names) != 1: bad = "maildir:success-without-message"
        elif rc != 0 and plan.startswith("FAIL") and names: bad = "maildir:failure-reported-but-visible"
        elif rc not in (0, 111) and not plan.startswith("KILL"): bad = "maildir:exit-code"
        elif plan.startswith(("none", "FAIL")) and tmps: bad = "maildir:tmp-left-behind"
        if bad: fails.append((bad, obj, len(msg)))
    # a delivery must never replace an existing file of new/ (names are only ever created by link):
    # two deliveries forced onto the same time.pid.host name
    clear_md()
    same = {"SYSSHIM_PID": "4242", "SYSSHIM_TIME": "1790000000"}
    rc1, _, _ = L.run(b"first message\n", "s@x.example", "./Maildir/", same)
    names1 = sorted(os.listdir(new)); data1 = [open(os.path.join(new, f), "rb").read() for f in names1]
    rc2, _, _ = L.run(b"second message, same name\n", "s@x.example", "./Maildir/", same)
    names2 = sorted(os.listdir(new)); data2 = [open(os.path.join(new, f), "rb").read() for f in names2]
    ck.evaluated(); ck.count("maildir_same_name")
    if not (rc1 == 0 and len(names1) == 1 and rc2 == 111 and names2 == names1 and data2 == data1):
        fails.append(("maildir:existing-message-replaced", dict(kind="history", delivery="maildir", history="two deliveries with identical time.pid.host", exits=[rc1, rc2],
                                                               new_after_first=names1, new_after_second=names2, first_intact=data2 == data1), 1))
    clear_md()
    # ---------------- mbox
    mbox = os.path.join(L.home, "mbox")
    senders = ["s@x.example", "", "a b@c", "tab\there@x", "new\nline@x", "#@[]"]
    mb_jobs = []
    old_pool = [b"", b"From old Mon Sep 28 00:00:00 2026\nReturn-Path: <o>\nold body\n\n"]
    for mi, msg in enumerate(msgs):
        sender = senders[mi % len(senders)]
        old = old_pool[mi % 2]
        open(mbox, "wb").write(old)
        rc, lines, err = L.run(msg, sender, "./mbox")
        after = open(mbox, "rb").read()
        mb_jobs.append((msg, sender, old, "none", rc, after))
        if mi % 3 == 0 or ck.thorough:
            nw = sum(1 for w in lines if len(w) > 2 and w[1] == "write" and w[2] not in ("1", "2"))
            for kind, nth in [("write", k) for k in range(1, min(nw, 3) + 1)] + [("fsync", 1)]:
                open(mbox, "wb").write(old)
                rc2, lines2, err2 = L.run(msg, sender, "./mbox", {"SYSSHIM_FAIL": "%s:fd:28:%d" % (kind, nth)})
                mb_jobs.append((msg, sender, old, "FAIL %s #%d" % (kind, nth), rc2, open(mbox, "rb").read()))
    # model entry: ufline and header lines are taken from what the program wrote (date opaque), checked for shape
    for msg, sender, old, plan, rc, after in mb_jobs:
        ck.evaluated(); ck.count("mbox_" + plan.split()[0])
        ck.nontrivial(("mb", msg[:40], sender, plan))
        obj = dict(kind="input", delivery="mbox", plan=plan, message=msg.decode("latin1")[:200], sender=sender, exit=rc, old_len=len(old), after_len=len(after))
        if plan.startswith("FAIL"):
            if rc != 111: fails.append(("mbox:failure-not-temporary", obj, len(msg)))
            elif after != old: fails.append(("mbox:not-rolled-back", obj, len(msg)))
            continue
        if rc != 0 or not after.startswith(old):
            fails.append(("mbox:append", obj, len(msg))); continue
        ent = after[len(old):]
        m = re.match(rb"^(From ([^ \n]*) ([^\n]*)\n)(Return-Path: <[^\n]*>\nDelivered-To: user@dom\.example\n)", ent)
        if not m:
            fails.append(("mbox:entry-shape", obj, len(msg))); continue
        uf, hdr = m.group(1), m.group(4)
        exp_sender = (sender or "MAILER-DAEMON").replace(" ", "-").replace("\t", "-").replace("\n", "-").encode()
        if m.group(2) != exp_sender or ent.count(b"\nFrom ") and False:
            fails.append(("mbox:from-line", obj, len(msg))); continue
        me, _, _ = vlib.run_lines(drv, ["entry %s %s %s" % (vlib.hx(uf), vlib.hx(hdr), vlib.hx(msg)), "mread " + vlib.hx(after), "mread " + vlib.hx(old)])
        if vlib.unhx(me[0]) != ent:
            mism.append(dict(obj, observed_entry=vlib.hx(ent)[:300], model_entry=me[0][:300]))
        plus = msg if (msg == b"" or msg.endswith(b"\n")) else msg + b"\n"
        want = py_mbox_read(old) + [(uf[:-1], hdr + plus)]
        got_py = py_mbox_read(after)
        got_coq = [] if me[1] == "-" else [(vlib.unhx(a), vlib.unhx(b)) for a, b in (x.split(":") for x in me[1].split(";"))]
        if got_py != want or got_coq != want:
            fails.append(("mbox:reader-does-not-recover-message", dict(obj, want=str(want)[:300], got=str(got_py)[:300]), len(msg)))
    # ---------------- blocked on the lock while another entry lands, then a failing write
    for trial in range(6 if ck.thorough else 3):
        old = old_pool[1]
        open(mbox, "wb").write(old)
        holder = open(mbox, "ab")
        fcntl.flock(holder, fcntl.LOCK_EX)
        p, log, f0 = L.run(b"second message\n", "b@x", "./mbox", {"SYSSHIM_FAIL": ("write:fd:28:1" if trial % 2 == 0 else "fsync:fd:28:1")}, wait=False)
        t0 = time.time()
        while time.time() - t0 < 5:
            if os.path.exists(log) and "mbox" in open(log, errors="replace").read(): break
            time.sleep(0.01)
        time.sleep(0.15)
        other = b"From a Mon Sep 28 00:00:01 2026\nfirst message\n\n"
        holder.write(other); holder.flush(); os.fsync(holder.fileno())
        fcntl.flock(holder, fcntl.LOCK_UN); holder.close()
        try:
            p.communicate(timeout=40)
        except subprocess.TimeoutExpired:
            p.kill()
        f0.close()
        after = open(mbox, "rb").read()
        ck.evaluated(); ck.count("mbox_blocked_then_fault")
        ck.nontrivial(("mbl", trial))
        if p.returncode != 111 or after != old + other:
            fails.append(("mbox:rollback-destroys-other-delivery", dict(kind="schedule", delivery="mbox", schedule="B opens and blocks on the lock; A appends and unlocks; B's write fails",
                                                                       exit=p.returncode, expected_len=len(old + other), after_len=len(after),
                                                                       log=open(log, errors="replace").read()[-1500:]), 0))
    ck.cov["disagreements_checked"] = len(mism)
    ck.cov["traces_validated_against_impl"] = len(md_jobs)
    ck.cov["rule"] = ("messages: empty, no final newline, From_/>From_/>>From_ lines, NUL, 8-bit, sizes around 1024/2048, random fragments; senders with space/tab/newline; "
                      "maildir: plain, every single failing open/write/fsync/close/link, kill before each; mbox: plain, failing writes/fsync on empty and non-empty mailboxes; "
                      "one scheduled interleaving (blocked on the lock while another entry lands, then a failing write). non-trivial = distinct (message, plan, trace shape)")
    ck.sample(dict(delivery="maildir", message=repr(msgs[5]), trace=[list(map(str, t)) for t in md_jobs[5][4]]))
    ck.sample(dict(delivery="mbox", message=repr(msgs[6]), sender=senders[0]))
    fails.sort(key=lambda x: x[2])
    seen = set()
    for key, obj, _ in fails:
        if key in seen: continue
        seen.add(key)
        ck.violation(key, obj, what="real qmail-local: " + key)
    if mism and not fails:
        ck.violation("correspondence", dict(kind="correspondence", broken="Local/Mailbox.v mbox_entry = qmail-local.c mailfile()", first=mism[0], n=len(mism)),
                     nofail=True, what="model and implementation disagree but the oracles hold")
    ck.proof_failure_violation(bool(fails))
    ck.finish(trusted_base=[vlib.KERNEL_TB, vlib.EXTRACTION_TB, "shim/sysshim.c", "checks/C12.py trace abstraction and the independent Python mbox reader"],
              assumptions=["file-system model as for C01 (synchronous directory operations, data durable up to fsync)",
                           "mbox roll-back is promised only when the lock was obtained (dot-qmail(5)); lock failure is not injected",
                           "general interleavings of two or three mbox writers are represented by one scheduled interleaving plus the flock assumption; a machine-checked interleaving theorem is not yet part of Properties_C12.v",
                           "the date in the From_ line (myctime) is opaque"])

def replay(path):
    obj = json.load(open(path))
    print("re-run ./check C12 (deterministic for the same VERIF_SEED); recorded case:", json.dumps(obj)[:600])
    return 0
