"""validation of the C -> Gallina translator (tools/c2gallina.py): the functions it generated on this run, extracted to
OCaml, against the very C functions they were generated from (harness/h_leaf.c), on seeded arguments"""
import os
import vlib

def translator_selfcheck(ck, rb, mism, n=1):
    try:
        h = rb.compile_harness(os.path.join(vlib.VERIF, "harness", "h_leaf.c"), os.path.join(vlib.scratch(), "h_leaf"),
                               objs=["ip.o", "fmtqfn.o", "auto_split.o", "date822fmt.o", "datetime.a", "cdb.a", "cdbmake.a", "case.a", "fs.a", "stralloc.a", "error.a", "str.a"])
    except vlib.HarnessBuildError as e:
        mism.append(dict(kind="translator", what="harness/h_leaf.c does not build", log=str(e)[-600:])); return
    try:
        drv = vlib.build_driver("GEN")
    except RuntimeError as e:
        mism.append(dict(kind="translator", what="the generated functions do not build (a function the translator refuses, or changed parameters)", log=str(e)[-900:])); return
    rng = ck.rng
    hx = vlib.hx
    def rb_(k, alpha=None): return bytes(rng.choice(alpha) if alpha else rng.randrange(256) for _ in range(k))
    def nz(b): return bytes(c or 1 for c in b)
    L = []
    split = int(open(os.path.join(rb.dir, "conf-split")).readline().split()[0])      # auto_split, as the build derives it
    for _ in range(60 * n):
        s = rb_(rng.choice([0, 1, 2, 3, 4, 5, 7, 8, 9, 31, 64]), rng.choice([None, b"AZaz@[`{", b"abc"]))
        t = bytes((c ^ 0x20) if (65 <= c <= 90 or 97 <= c <= 122) and rng.random() < 0.5 else c for c in s)
        if rng.random() < 0.3 and t: t = t[:-1] + bytes([rng.randrange(256)])
        c = rng.choice(list(s) + [0, 65, 97, 255]) if s else 65
        L += ["cm_hash " + hx(s), "cdb_hash " + hx(s), "case_diffb %s %s" % (hx(s), hx(t if len(t) == len(s) else s)), "case_lowerb " + hx(s),
              "byte_chr %s %d" % (hx(s), c), "byte_rchr %s %d" % (hx(s), c), "str_chr %s %d" % (hx(nz(s)), c), "str_rchr %s %d" % (hx(nz(s)), c),
              "byte_copy %s %d" % (hx(s), rng.randint(0, len(s))), "byte_copyr %s %d" % (hx(s), rng.randint(0, len(s))), "byte_zero %s %d" % (hx(s), rng.randint(0, len(s))),
              "str_start %s %s" % (hx(nz(s)), hx(nz(s[:rng.randint(0, len(s))]) + rng.choice([b"", b"x"]))),
              "case_diffs %s %s" % (hx(nz(s)), hx(nz(t))), "case_starts %s %s" % (hx(nz(s)), hx(nz(t[:rng.randint(0, len(t))]))), "fmt_str " + hx(nz(s))]
        u = rng.choice([0, 1, 9, 10, 99, 100, 4294967295, 4294967296, 18446744073709551615, rng.getrandbits(64), rng.getrandbits(20)])
        d = rng.choice([b"", b"0", b"007", b"12345", b"18446744073709551615", b"18446744073709551616", b"99999999999999999999999", b"12x", b"x", b"777", b"1777777777777777777777", b"89"])
        ipt = rng.choice([b"1.2.3.4", b"[127.0.0.1]", b"[300.1.1.1]x", b"[1.2.3]", b"[1.2.3.4", b"[]", b"", b"[1..2.3]", b"[18446744073709551617.0.0.1]", b"[1.2.3.4]]", b"[01.002.3.4]", b"9.9.9.9.9"])
        L += ["ip_scan " + hx(ipt.strip(b"[")), "ip_scanbracket " + hx(ipt), "ip_fmt " + hx(rb_(4)), "quote_doit " + hx(rb_(rng.choice([0, 1, 2, 5, 40]), rng.choice([None, b'ab"\\\r\n']))) ]
        L += ["safeput " + hx(nz(rb_(rng.choice([0, 1, 3, 9, 40]), rng.choice([None, None, b"az[]\\^_`{@-.%+/=: \x7f\x80\xff"])))),
              "fmtqfn %s %d %d %d" % (hx(rng.choice([b"mess/", b"intd/", b"todo/", b"", b"info/", b"a" * 40])), rng.choice([u, u % 100000, 0, 22, 23, 24]), rng.choice([0, 1, 1, -1, 256]), split)]
        L += ["hashadd %d %d" % (u % 2 ** 32, rng.randrange(256)), "unpack " + hx(rb_(4)), "pack %d" % (u % 2 ** 32), "scan_ulong " + hx(d + rng.choice([b"", b" ", b"a"])),
              "scan_8long " + hx(d), "fmt_ulong %d" % u, "fmt_uint0 %d %d" % (u % 2 ** 32, rng.choice([0, 1, 5, 12, 20]))]
    a, _, _ = vlib.run_lines(h, L)
    b, _, _ = vlib.run_lines(drv, L)
    for l, x, y in zip(L, a, b):
        ck.evaluated(); ck.count("translator_selfcheck")
        if x != y: mism.append(dict(kind="translator", what="generated function and C function disagree", call=l[:300], c=x[:200], generated=y[:200]))
