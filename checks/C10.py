"""C10 - recipients are routed and rewritten exactly by the control files.

proof: coq/Props/Properties_C10.v
tie:   the real rewrite()/senderadd() with control files parsed by the real getcontrols() and
       regetcontrols() (function harness including qmail-send.c) against the extracted Route.rewrite;
       the extracted declarative route_spec is the oracle on the real function's answers."""
import json, os, sys
import vlib
from send_common import *

PID = "C10"

def main():
    ck = vlib.Check(PID, "proof")
    rb = vlib.RepoBuild()
    if not rb.ok:
        print("repository does not build:\n" + rb.log[-2000:]); sys.exit(2)
    ck.proofs(srcdir=rb.dir)
    drv = vlib.build_driver("C10")
    h = SendHarness(rb)
    rng = ck.rng
    ncfg = 400 if ck.thorough else 90
    cases = []        # (ctl, recip, impl)
    for ci in range(ncfg):
        c = gen_absent(rng, gen_ctl(rng))
        h.write_ctl(c)
        assert h.cmd("ctl") == "ok"
        for r in gen_recips(rng, 25):
            cases.append((c, r, h.cmd("rw " + vlib.hx(r)), "initial", None))
        if ci % 3 == 0:
            # HUP: only locals and virtualdomains are re-read
            c2 = gen_absent(rng, gen_ctl(rng))
            h.write_ctl(dict(c, locals=c2["locals"], vdoms=c2["vdoms"]))
            h.cmd("reread")
            ceff = dict(c, locals=c2["locals"], vdoms=c2["vdoms"])
            for r in gen_recips(rng, 15):
                cases.append((ceff, r, h.cmd("rw " + vlib.hx(r)), "after-HUP", c))
    model, _, _ = vlib.run_lines(drv, ["rw %s %s" % (ctl_args(c), vlib.hx(r)) for c, r, _, _, _ in cases])
    spec, _, _ = vlib.run_lines(drv, ["spec %s %s" % (ctl_args(c), vlib.hx(r)) for c, r, _, _, _ in cases])
    fails, mism = [], []
    import gen_common; gen_common.translator_selfcheck(ck, rb, mism)
    for (c, r, impl, phase, before), m, s in zip(cases, model, spec):
        ck.evaluated(); ck.count("rewrite_" + phase); ck.count("class_" + impl[:1])
        ck.nontrivial((r, impl))
        obj = dict(kind="input", fn="rewrite", phase=phase, recipient=r.decode("latin1"), control={k: (None if v is None else v.decode("latin1")) for k, v in c.items()},
                   observed=impl, spec=s, model=m)
        if before is not None: obj["control_at_startup"] = {k: (None if v is None else v.decode("latin1")) for k, v in before.items()}
        if impl != s:
            fails.append(("route:" + ("hup-not-applied" if phase == "after-HUP" and impl == m else "misrouted"), obj, len(r)))
        if impl != m:
            mism.append(obj)
    # ---- the hash table itself (Base/Constmap.v) against constmap.c: structure and lookups, with and without colons,
    #      on the very buffers control_readfile hands to constmap_init (lines NUL-terminated)
    tdrv = vlib.build_driver("TBL")
    objs_, libs_ = rb.link_deps("qmail-send")
    hcm = rb.compile_harness(os.path.join(vlib.VERIF, "harness", "h_cmap.c"), os.path.join(vlib.scratch(), "h_cmap10"), objs=[o for o in objs_ if o != "constmap.o"], libs=libs_)
    cl = []
    for _ in range(80 if ck.thorough else 25):
        c = gen_ctl(rng)
        for fc, content in ((1, c["vdoms"]), (0, c["locals"]), (0, c["pct"])):
            lines_ = [l.rstrip(b" \t") for l in content.split(b"\n")]
            lines_ = [l for l in lines_ if l and not l.startswith(b"#")]
            if rng.random() < 0.2: lines_ += [b"k%d.bulk:%d" % (k_, k_) for k_ in range(rng.choice([60, 64, 70, 140]))]
            buf = b"".join(l + b"\0" for l in lines_)
            cl.append("dump %d %s" % (fc, vlib.hx(buf)))
            keys = [l.split(b":")[0] if fc else l for l in lines_[:8]] + [b"", b"nokey", b"a.dom"]
            for k_ in keys:
                cl.append("cm %d %s %s" % (fc, vlib.hx(buf), vlib.hx(flipcase(rng, k_))))
    ca, _, _ = vlib.run_lines(hcm, cl)
    cb, _, _ = vlib.run_lines(tdrv, cl)
    for l_, x_, y_ in zip(cl, ca, cb):
        ck.evaluated(); ck.count("constmap_" + l_.split()[0] + l_.split()[1])
        if x_ != y_: mism.append(dict(fn="constmap", query=l_[:300], observed=x_[:300], model=y_[:300]))
    # senderadd (VERP)
    sa = []
    for _ in range(3000 if ck.thorough else 600):
        snd = rng.choice([b"owner-@host-@[]", b"o-@h-@[]", b"-@[]", b"@-@[]", b"a@b", b"", b"list-owner-@lists.dom-@[]", b"x-@[]", b"a@b-@[]x", b"-@h-@[]"])
        if rng.random() < 0.3:
            snd = bytes(rng.choice(b"ab@-[].") for _ in range(rng.randint(0, 9))) + rng.choice([b"", b"-@[]"])
        rc = rng.choice(gen_recips(rng, 3))
        sa.append((snd, rc))
    a = [h.cmd("sadd %s %s" % (vlib.hx(s), vlib.hx(r))) for s, r in sa]
    b, _, _ = vlib.run_lines(drv, ["sadd %s %s" % (vlib.hx(s), vlib.hx(r)) for s, r in sa])
    for (s, r), x, y in zip(sa, a, b):
        ck.evaluated(); ck.count("senderadd")
        ck.nontrivial(("sa", s, r))
        # documented rule: owner-@host-@[] + box@rhost -> owner-box=rhost@host ; anything else unchanged
        exp = s
        if s.endswith(b"-@[]") and b"@" in r:
            base = s[:-4]
            j = base.rfind(b"@")
            if j >= 0:
                k = r.rfind(b"@")
                exp = base[:j] + r[:k] + b"=" + r[k + 1:] + b"@" + base[j + 1:]
        if vlib.unhx(x) != exp:
            fails.append(("route:verp-sender", dict(kind="input", fn="senderadd", sender=s.decode("latin1"), recipient=r.decode("latin1"), observed=x, expected=vlib.hx(exp)), len(s)))
        if x != y:
            mism.append(dict(fn="senderadd", sender=s.decode("latin1"), recipient=r.decode("latin1"), observed=x, model=y))
    h.close()
    ck.cov["disagreements_checked"] = len(mism)
    ck.cov["rule"] = ("seeded configurations of locals/virtualdomains/percenthack/envnoathost (users, domains, dot wildcards, catch-all, empty-tag exceptions, "
                      "mixed case, comments, trailing blanks, no-colon lines; no duplicate keys) x recipients built from the configured names plus near-misses "
                      "(case flips, extra labels, missing/trailing/multiple @ and %), before and after a re-read; VERP senders. non-trivial = distinct (recipient, result)")
    for c, r, impl, ph, _ in cases[:3]:
        ck.sample(dict(recipient=r.decode("latin1"), result=impl, phase=ph, virtualdomains=(c["vdoms"] or b"").decode("latin1")))
    fails.sort(key=lambda x: x[2])
    seen = set()
    for key, obj, _ in fails:
        if key in seen:
            continue
        seen.add(key)
        ck.violation(key, obj, what="real %s disagrees with the documented routing rules" % obj["fn"])
    if mism and not fails:
        ck.violation("correspondence", dict(kind="correspondence", broken="Send/Route.v rewrite/senderadd = qmail-send.c", first=mism[0], n=len(mism)),
                     nofail=True, what="model and implementation disagree but the declarative oracle holds")
    ck.proof_failure_violation(bool(fails))
    ck.finish(trusted_base=[vlib.KERNEL_TB, vlib.EXTRACTION_TB, "harness/h_send.c (#include qmail-send.c; real getcontrols/regetcontrols/control_readfile/constmap)"],
              assumptions=["control files without NUL bytes and without duplicate keys (constmap: the last duplicate wins - documented as out of domain)",
                           "the order-preserving partition of a message's recipients by todo_do() is exercised in the daemon histories (C03), not here"])

def replay(path):
    obj = json.load(open(path))
    rb = vlib.RepoBuild(); h = SendHarness(rb); drv = vlib.build_driver("C10")
    if obj.get("fn") == "rewrite":
        dec = lambda d: {k: (None if v is None else v.encode("latin1")) for k, v in d.items()}
        c = dec(obj["control"])
        if obj.get("control_at_startup"):
            h.write_ctl(dec(obj["control_at_startup"])); h.cmd("ctl"); h.write_ctl(c); h.cmd("reread")
        else:
            h.write_ctl(c); h.cmd("ctl")
        r = obj["recipient"].encode("latin1")
        impl = h.cmd("rw " + vlib.hx(r))
        s, _, _ = vlib.run_lines(drv, ["spec %s %s" % (ctl_args(c), vlib.hx(r))])
        print("recipient", r, "impl", impl, "spec", s[0])
        h.close(); vlib._cleanup()
        return 0 if impl == s[0] else 1
    h.close(); vlib._cleanup()
    return 0
