"""C18 - helpers at trust boundaries act only on validated requests.

proof: coq/Props/Properties_C18.v (qmail-clean request handling, spawn.c command validation,
       qmail-send del_dochan report parsing)
tie:   (1) the real qmail-clean in a scratch queue under the interposer (unlink calls and status
           bytes per request, real and injected unlink failures), against the extracted clean_handle;
       (2) the real qmail-rspawn/qmail-lspawn fed delivery-command streams (reports per command,
           files opened, as seen by the interposer) against the extracted parse_cmds/docmd;
       (3) the real del_dochan() (function harness with real delivery tables, mark and bounce
           files) against the extracted reports/del_event."""
import json, os, re, select, subprocess, sys, time
import vlib

PID = "C18"
SPLIT = 23

# ------------------------------------------------------------------------------------------ clean
def gen_clean(ck):
    rng = ck.rng
    reqs = []
    tails_alpha = [b"0", b"1", b"9", b"/", b".", b"a", b"\xff", b" "]
    def tails(n):
        if n == 0:
            yield b""
            return
        for t in tails(n - 1):
            for a in tails_alpha:
                yield t + a
    L = 4 if ck.thorough else 3
    alltails = [t for n in range(0, L + 1) for t in tails(n)]
    for pre in [b"foop/", b"todo/", b"foop", b"todo", b"todoX", b"foopX", b"fooq/", b"tode/", b"Foop/", b"intd/", b"mess/", b"../..", b"/etc/", b"todo\xff", b""]:
        for t in alltails:
            reqs.append(pre + t)
    ck.count("clean_prefix_x_tail_exhaustive", len(reqs))
    special = [b"foop/18446744073709551617", b"todo/18446744073709551616", b"foop/18446744073709551615", b"foop/99999999999999999999",
               b"foop/007", b"todo/0", b"foop/1", b"f", b"foop/", b"todo/", b"foop/" + b"1" * 94, b"foop/" + b"1" * 95, b"foop/" + b"1" * 96,
               b"foop/66", b"todo/66", b"foop/77", b"todo/77", b"foop/88", b"todo/88", b"foop/12a", b"todoX7", b"todoX77", b"foop/1/2", b"foop/../../x"]
    reqs += special
    for _ in range(4000 if ck.thorough else 800):
        pre = rng.choice([b"foop/", b"todo/", b"todo", b"foo", b"x"])
        n = rng.choice([1, 2, 3, 5, 10, 19, 20, 21, 40, 94, 95, 96, 120])
        body = bytes(rng.choice(b"0123456789" if rng.random() < 0.8 else b"0123456789/.a\xff") for _ in range(n))
        reqs.append(pre + body)
    ck.count("clean_special_and_random", len(reqs) - len(alltails) * 15)
    return [r for r in reqs if b"\0" not in r]

def parse_log(path, pid=None):
    ev = []
    if not os.path.exists(path):
        return ev
    for line in open(path, errors="replace"):
        w = line.split()
        if len(w) < 3:
            continue
        if pid is not None and w[0] != str(pid):
            continue
        ev.append(w[1:])
    return ev

class CleanProc:
    def __init__(self, rb, home, log, fail=None):
        extra = {"SYSSHIM_LOGWRITE": "1"}
        if fail:
            extra["SYSSHIM_FAIL"] = fail
        self.log = log
        self.p = subprocess.Popen([rb.path("qmail-clean")], stdin=subprocess.PIPE, stdout=subprocess.PIPE,
                                  env=vlib.shim_env(home, log=log, extra=extra), bufsize=0)
        self.pos = 0
    def request(self, req, settle=0.0):
        """send one request, read one status byte (fast path); returns (status bytes, unlink events)"""
        os.write(self.p.stdin.fileno(), req + b"\0")
        r, _, _ = select.select([self.p.stdout], [], [], 5)
        out = os.read(self.p.stdout.fileno(), 64) if r else b""
        if settle:
            time.sleep(settle)
            while select.select([self.p.stdout], [], [], 0)[0]:
                more = os.read(self.p.stdout.fileno(), 64)
                if not more:
                    break
                out += more
        ev = []
        with open(self.log, errors="replace") as f:
            f.seek(self.pos)
            data = f.read()
            self.pos += len(data.encode(errors="replace")) if False else 0
        return out, data
    def close(self):
        try:
            self.p.stdin.close()
            rest = self.p.stdout.read()
            self.p.wait(timeout=5)
        except Exception:
            self.p.kill(); rest = b""
        return rest

def unlinks_of(logtext):
    out = []
    for line in logtext.split("\n"):
        w = line.split()
        if len(w) >= 6 and w[1] == "unlink":
            res = "o" if w[4] == "0" else ("n" if w[5] == "2" else "f")
            out.append((w[2], res))
    return out

def run_single(rb, home, req, fail):
    """slow exact path: one fresh qmail-clean, one request, close stdin, collect everything"""
    log = os.path.join(vlib.scratch(), "clean1.log")
    if os.path.exists(log):
        os.remove(log)
    cp = CleanProc(rb, home, log, fail)
    os.write(cp.p.stdin.fileno(), req + b"\0")
    rest = cp.close()
    return rest, unlinks_of(open(log, errors="replace").read() if os.path.exists(log) else "")

def model_clean(drv, items):
    """items: (req, u1, u2) -> (resp bytes, [paths])"""
    out, _, _ = vlib.run_lines(drv, ["clean %d %s %s %s" % (SPLIT, vlib.hx(r), u1, u2) for r, u1, u2 in items])
    res = []
    for l in out:
        a, b = l.split()
        res.append((vlib.unhx(a), [] if b == "-" else [vlib.unhx(x) for x in b.split(",")]))
    return res

def clean_oracle(req, resp, unl):
    """direct oracle on what the real qmail-clean did for one request"""
    if len(resp) != 1:
        return "clean:status-count"
    paths = [p for p, _ in unl]
    m = re.match(rb"^(foop|todo)/([0-9]+)$", req)
    if resp == b"x":
        return "clean:reject-then-execute" if paths else None
    if not m or len(req) + 1 > 100 or len(req) + 1 < 7:
        return "clean:acted-on-invalid-request"
    n = int(m.group(2))
    allowed = {"intd/%d" % n, ("mess/%d/%d" % (n % SPLIT, n)) if m.group(1) == b"foop" else "todo/%d" % n}
    for p in paths:
        if p not in allowed:
            if n >= 2 ** 64 and p in {"intd/%d" % (n % 2 ** 64), "mess/%d/%d" % ((n % 2 ** 64) % SPLIT, n % 2 ** 64), "todo/%d" % (n % 2 ** 64)}:
                return "clean:id-wraps-2^64"
            return "clean:other-path"
    return None

def check_clean(ck, rb, home, drv):
    q = os.path.join(home, "queue")
    # files for a few ids so that unlink really removes something; 88 fails with a real error (directory)
    for n in (66, 1, 7):
        for f in ("intd/%d" % n, "todo/%d" % n, "mess/%d/%d" % (n % SPLIT, n)):
            open(os.path.join(q, f), "w").close()
    os.makedirs(os.path.join(q, "intd/88"), exist_ok=True)
    os.makedirs(os.path.join(q, "mess/%d/88" % (88 % SPLIT)), exist_ok=True)
    fail = "unlink:todo/77:5;unlink:mess/8/77:5"        # injected EIO on the second unlink for id 77
    reqs = gen_clean(ck)
    log = os.path.join(vlib.scratch(), "clean.log")
    cp = CleanProc(rb, home, log, fail)
    obs = []
    logpos = 0
    for r in reqs:
        os.write(cp.p.stdin.fileno(), r + b"\0")
        rd, _, _ = select.select([cp.p.stdout], [], [], 5)
        out = os.read(cp.p.stdout.fileno(), 64) if rd else b""
        data = b""
        if os.path.exists(log):
            with open(log, "rb") as f:
                f.seek(logpos); data = f.read()
            # only complete lines are consumed
            k = data.rfind(b"\n") + 1
            data = data[:k]; logpos += k
        obs.append((out, unlinks_of(data.decode(errors="replace"))))
    rest = cp.close()
    items = []
    for r, (out, unl) in zip(reqs, obs):
        u = [x[1] for x in unl] + ["o", "o"]
        items.append((r, u[0], u[1]))
    model = model_clean(drv, items)
    fails, mism = [], []
    # main() of qmail-clean.c as generated from today's source by tools/c2gallina.py, one request at a time with the same unlink
    # answers: the same status byte and the same unlink calls as the model (which is compared with the real process below)
    try:
        gen = model_clean(vlib.build_driver("GEN"), items)
        for (r, u1, u2), g, m_ in zip(items, gen, model):
            ck.count("clean_generated_main")
            if g != m_:
                mism.append(dict(kind="translator", what="generated main() of qmail-clean.c and the model disagree", request_hex=vlib.hx(r), unlink_answers=u1 + u2,
                                 generated=[vlib.hx(g[0]), [p.decode("latin1") for p in g[1]]], model=[vlib.hx(m_[0]), [p.decode("latin1") for p in m_[1]]])); break
    except (RuntimeError, ValueError) as e:
        mism.append(dict(kind="translator", what="the generated main() of qmail-clean.c does not build or run", log=str(e)[-600:]))
    suspicious = []
    for i, (r, (out, unl), (mresp, mpaths)) in enumerate(zip(reqs, obs, model)):
        ck.evaluated()
        if out != b"x":
            ck.nontrivial(("c", r))
        ck.count("clean_resp_" + (out[:1].decode(errors="replace") if out else "none"))
        if out != mresp or [p.encode() for p, _ in unl] != mpaths or clean_oracle(r, out, unl):
            suspicious.append(i)
    if rest:
        suspicious.append(len(reqs) - 1)
    # exact re-run of every suspicious request in isolation
    for i in sorted(set(suspicious))[:300]:
        r = reqs[i]
        out, unl = run_single(rb, home, r, fail)
        u = [x[1] for x in unl] + ["o", "o"]
        (mresp, mpaths), = model_clean(drv, [(r, u[0], u[1])])
        key = clean_oracle(r, out, unl)
        obj = dict(kind="input", component="qmail-clean", request_hex=vlib.hx(r), status_bytes=vlib.hx(out), unlinks=unl,
                   expected_status=vlib.hx(mresp), expected_unlinks=[p.decode(errors="replace") for p in mpaths])
        if key:
            fails.append((key, obj, len(r)))
        elif out != mresp or [p.encode() for p, _ in unl] != mpaths:
            mism.append(obj)
    return fails, mism, reqs

# ------------------------------------------------------------------------------------------ spawn
STUB = r"""#!/bin/sh
# stand-in for qmail-remote / qmail-local: one recipient report and a message report
printf 'r\0Kstub %s\0' "$#"
"""

def gen_cmd_streams(ck):
    rng = ck.rng
    good = [b"1/24", b"12/35", b"7/3", b"0/100", b"9" * 99, b"1", b"12"]
    bad = [b"", b"/1", b"1.", b"../1", b"1/../x", b"1/../24", b"a", b"1a", b"-1", b"1 ", b"\xff", b"1" * 100, b"1" * 101, b"1//2", b"12/", b"5/28", b"5", b"6", b"4/"]
    cmds = []
    for m in good + bad:
        for rc in (b"r@x", b"nohost", b"a@b@c", b"@"):
            cmds.append((rng.choice([0, 1, 5, 119, 120, 200, 255]), m, b"s@y", rc))
    for _ in range(200 if ck.thorough else 60):
        m = bytes(rng.choice(b"0123456789/.a") for _ in range(rng.randint(0, 6)))
        cmds.append((rng.randrange(256), m, bytes(rng.choice(b"ab@") for _ in range(rng.randint(0, 5))), bytes(rng.choice(b"ab@.") for _ in range(rng.randint(0, 6)))))
    return cmds

def enc_cmd(c):
    d, m, s, r = c
    return bytes([d]) + m + b"\0" + s + b"\0" + r + b"\0"

def read_reports(fd, n, timeout=3.0):
    """reads n reports (delnum byte, text, NUL) from the spawner's output"""
    buf = b""
    reps = []
    end = time.time() + timeout
    while len(reps) < n and time.time() < end:
        r, _, _ = select.select([fd], [], [], 0.2)
        if r:
            d = os.read(fd, 4096)
            if not d:
                break
            buf += d
            while True:
                if len(buf) < 2:
                    break
                k = buf.find(b"\0", 1)
                if k < 0:
                    break
                reps.append((buf[0], buf[1:k])); buf = buf[k + 1:]
    return reps, buf

def check_spawn(ck, rb, home, drv, prog):
    mess = os.path.join(home, "queue/mess")
    uq = vlib.QMAIL_USERS["qmailq"]
    def mk(path, kind):
        p = os.path.join(mess, path)
        os.makedirs(os.path.dirname(p), exist_ok=True)
        if kind == "dir":
            os.makedirs(p, exist_ok=True)
        else:
            open(p, "w").write("Subject: x\n\nbody\n")
            os.chown(p, uq if kind == "good" else 12345, 0)
    mk("1/24", "good"); mk("12/35", "good"); mk("7/3", "good"); mk("0/100", "good"); mk("5/28", "wrongowner"); mk("1//2", "good")
    kinds = {b"1/24": "g", b"12/35": "g", b"7/3": "g", b"0/100": "g", b"5/28": "w", b"6": "n", b"4/": "n", b"12/": "n", b"1//2": "g",
             b"1": "n", b"12": "n", b"5": "n"}
    stub = os.path.join(vlib.scratch(), "stub.sh")
    open(stub, "w").write(STUB); os.chmod(stub, 0o755)
    # qmail-lspawn runs bin/qmail-local after qmail-getpw; for the validation layer the rspawn path is enough for both
    log = os.path.join(vlib.scratch(), "spawn_%s.log" % prog)
    env = vlib.shim_env(home, log=log, extra={"QMAILREMOTE": stub})
    p = subprocess.Popen([rb.path(prog)], stdin=subprocess.PIPE, stdout=subprocess.PIPE, env=env, bufsize=0, cwd=home)
    fdo = p.stdout.fileno()
    r, _, _ = select.select([fdo], [], [], 5)
    first = os.read(fdo, 1) if r else b""
    nspawn = first[0] if first else -1
    cmds = gen_cmd_streams(ck)
    fails, mism = [], []
    for c in cmds:
        ck.evaluated()
        os.write(p.stdin.fileno(), enc_cmd(c))
        reps, rest = read_reports(fdo, 1)
        d, m, s, rc = c
        fk = kinds.get(m, "a")
        ml, _, _ = vlib.run_lines(drv, ["docmd %d - %s %d %s %s" % (nspawn, fk, d, vlib.hx(m), vlib.hx(rc))])
        w = ml[0].split()
        obj = dict(kind="input", component=prog, command=dict(delnum=d, messid_hex=vlib.hx(m), sender_hex=vlib.hx(s), recip_hex=vlib.hx(rc)),
                   reports=[(x, y.decode(errors="replace")[:80]) for x, y in reps], expected=ml[0])
        if len(reps) != 1 or rest:
            fails.append(("spawn:report-count", obj, len(m))); continue
        rd, text = reps[0]
        ck.nontrivial(("s", prog, m, rc))
        if rd != d:
            fails.append(("spawn:wrong-delnum", obj, len(m))); continue
        exp_v = "K" if w[0] == "S" else w[-1]
        if text[:1].decode(errors="replace") != exp_v:
            # spawned although the model refuses is the dangerous direction
            if text[:1] == b"K" and w[0] != "S":
                fails.append(("spawn:ran-unvalidated-command", obj, len(m)))
            else:
                mism.append(obj)
    p.stdin.close()
    try:
        p.wait(timeout=5)
    except Exception:
        p.kill()
    # every file the spawner itself opened for reading must be a numeric message name
    opened = []
    for w in parse_log(log, pid=p.pid):
        if w[0] == "open" and len(w) >= 3:
            opened.append(w[1])
    for path in opened:
        if path in ("../lock/tcpto", "queue/lock/tcpto") or path.startswith("/") and ("/lib" in path or path.startswith("/etc") or path.startswith("/proc") or path.startswith("/dev")):
            continue
        if path.endswith("passwd.group") or "/passwd." in path:
            continue
        if not re.match(r"^[0-9][0-9/]*$", path) or len(path) >= 100:
            fails.append(("spawn:opened-non-numeric-path", dict(kind="input", component=prog, opened=path), len(path)))
    ck.count("spawn_cmds_" + prog, len(cmds))
    ck.cov.setdefault("spawn_opened_paths", {})[prog] = sorted(set(opened))[:12]
    return fails, mism

# ------------------------------------------------------------------------------------------ qmail-lspawn as a process
LSTUB = """#!/bin/sh
# stand-in for bin/qmail-local: prints the bytes the check prepared (they may contain NUL) and exits with the prepared code
cat "%(dir)s/lstub.out"
exit "$(cat "%(dir)s/lstub.exit")"
"""

def check_lspawn_process(ck, rb, drv):
    """One report per command whatever the delivery program prints: the text is cut at the first NUL, so no byte the
    program chooses can frame a second report (with another command's delivery number) on the channel to qmail-send."""
    import C11
    L = C11.Lspawn(rb)
    ql = os.path.join(L.home, "bin", "qmail-local")
    open(ql, "w").write(LSTUB % dict(dir=vlib.scratch())); os.chmod(ql, 0o755)
    L.write_assign([("=", b"joe", [b"joe", b"30001", b"30001", b"/", b"", b""])])
    drv11 = vlib.build_driver("C11")
    rng = ck.rng
    outs = [b"", b"delivered\n", b"\0", b"a\0b", b"did 1+0+0\n\0\2Kforged success\0", b"\0\3Dforged failure\0\4Zx\0", b"x\0\0\0", b"\0" * 40, b"K\0Z\0D\0",
            b"line1\nline2\n\0\1K", b"y" * 300 + b"\0\7K" + b"z" * 300]
    for _ in range(30 if ck.thorough else 8):
        outs.append(bytes(rng.choice(b"ab\0\0\1\2KZD\n") for _ in range(rng.randint(0, 30))))
    env = vlib.shim_env(L.home, users=L.users)
    p = subprocess.Popen([rb.path("qmail-lspawn"), "./Mailbox"], stdin=subprocess.PIPE, stdout=subprocess.PIPE, env=env, bufsize=0, cwd=L.home)
    fdo = p.stdout.fileno()
    select.select([fdo], [], [], 5); os.read(fdo, 1)
    fails, mism = [], []
    jobs = []
    for k, o in enumerate(outs):
        for ec in ((0, 100, 111, 99, 1) if k < 11 else (rng.choice([0, 100, 111]),)):
            open(os.path.join(vlib.scratch(), "lstub.out"), "wb").write(o)
            open(os.path.join(vlib.scratch(), "lstub.exit"), "w").write(str(ec))
            d = rng.choice([1, 5, 9])
            os.write(p.stdin.fileno(), bytes([d]) + b"0/23\0sender@x.example\0joe@host.example\0")
            reps, rest = read_reports(fdo, 1, timeout=5.0)
            time.sleep(0.02)
            more, rest2 = read_reports(fdo, 5, timeout=0.05) if select.select([fdo], [], [], 0)[0] else ([], b"")
            jobs.append((d, o, ec, reps + more, rest + rest2))
    p.stdin.close()
    try: p.wait(timeout=5)
    except Exception: p.kill()
    vl, _, _ = vlib.run_lines(drv11, ["verdict 0 %d" % ec for _, _, ec, _, _ in jobs])
    for (d, o, ec, reps, rest), v in zip(jobs, vl):
        ck.evaluated(); ck.count("lspawn_process_reports"); ck.nontrivial(("lsp", o, ec))
        obj = dict(kind="input", component="qmail-lspawn (process)", delnum=d, program_output_hex=vlib.hx(o), program_exit=ec,
                   reports=[(x, vlib.hx(y)[:120]) for x, y in reps], leftover_hex=vlib.hx(rest), model_verdict=v)
        cut = o.split(b"\0")[0]
        if len(reps) != 1 or rest: fails.append(("spawn:report-count", obj, len(o)))
        elif reps[0][0] != d: fails.append(("spawn:wrong-delnum", obj, len(o)))
        elif reps[0][1][:1] == b"K" and ec not in (0, 99): fails.append(("spawn:failure-reported-as-success", obj, len(o)))
        elif reps[0][1] != v.encode() + cut: mism.append(obj)
    return fails, mism

# ------------------------------------------------------------------------------------------ qmail-lspawn report() as a function
def check_lspawn_report_fn(ck, rb, drv):
    """report() of qmail-lspawn.c (function harness, memory substdio) = Local/LspawnReport.v lspawn_report = the Gallina generated from
    today's report(); and directly: whatever the delivery program wrote, the report has no NUL, starts with K, Z or D, K only after exit 0."""
    objs, libs = rb.link_deps("qmail-lspawn")
    fails, mism = [], []
    try:
        h = rb.compile_harness(os.path.join(vlib.VERIF, "harness", "h_lsreport.c"), os.path.join(vlib.scratch(), "h_lsreport"),
                               objs=[o for o in objs if o != "spawn.o"], libs=libs)
        gen = vlib.build_driver("GEN")
    except (vlib.HarnessBuildError, RuntimeError) as e:
        return [], [dict(kind="translator", what="h_lsreport.c or the generated report() does not build", log=str(e)[-600:])]
    rng = ck.rng
    outs = [b"", b"delivered\n", b"\0", b"a\0b", b"did 1+0+0\n\0\2Kforged success\0", b"\0\3Dforged failure\0\4Zx\0", b"K\0Z\0D\0", b"\xff\x80\0x", b"y" * 300 + b"\0\7K"]
    for _ in range(200 if ck.thorough else 40):
        outs.append(bytes(rng.choice(b"ab\0\0\1\2KZD\n\xff") for _ in range(rng.randint(0, 30))))
    reps = [(0, e, outs[(e * 7) % len(outs)]) for e in range(256)] + [(1, e, o) for e in (0, 100) for o in outs[:9]] + [(0, e, o) for e in (0, 100, 111, 99) for o in outs]
    lines = ["lrep %d %d %s" % (c, e, vlib.hx(o)) for c, e, o in reps]
    a, _, _ = vlib.run_lines(h, ["rep" + l[4:] for l in lines])
    b, _, _ = vlib.run_lines(drv, lines)
    g, _, _ = vlib.run_lines(gen, lines)
    for (c, e, o), x, y, z in zip(reps, a, b, g):
        ck.evaluated(); ck.count("lspawn_report_fn"); ck.nontrivial(("lsr", c, e, o))
        r = vlib.unhx(x)
        obj = dict(kind="input", component="qmail-lspawn report()", crashed=c, exitcode=e, output_hex=vlib.hx(o), observed=r.decode("latin1")[:160], model=vlib.unhx(y).decode("latin1")[:160], generated=z[:200])
        if b"\0" in r or not r: fails.append(("spawn:report-count", obj, len(o)))
        elif r[:1] not in (b"K", b"Z", b"D"): fails.append(("spawn:no-verdict", obj, len(o)))
        elif r[:1] == b"K" and (c or e != 0): fails.append(("spawn:failure-reported-as-success", obj, len(o)))
        elif c and r[:1] != b"Z": fails.append(("spawn:crash-not-temporary", obj, len(o)))
        elif x != y: mism.append(obj)
        elif x != z: mism.append(dict(obj, kind="translator", what="generated report() and C report() disagree"))
    return fails, mism

# ------------------------------------------------------------------------------------------ del_dochan
def gen_del(ck):
    rng = ck.rng
    out = []
    def rep(d, v, text=b"text"):
        return bytes([d]) + v + text + b"\0"
    base = [rep(1, b"K"), rep(2, b"Z"), rep(3, b"D", b"no such user\n\n<x@y>:\nforged"), rep(1, b"X"), rep(9, b"K"), rep(10, b"K"), rep(255, b"D"),
            rep(0, b"K"), b"\0", b"\0\0", rep(2, b""), bytes([3, 0]), rep(4, b"K", b"a" * 9990), rep(4, b"D", b"b" * 9999), rep(4, b"D", b"c" * 10000),
            rep(4, b"K", b"d" * 20000), rep(5, b"Z", b"e" * 12000), rep(3, b"D", b"f" * 30000), rep(2, b"D", b"line1\n\n\nline2")]
    for _ in range(1500 if ck.thorough else 400):
        n = rng.randint(1, 6)
        s = b"".join(rng.choice(base) if rng.random() < 0.8 else bytes(rng.randrange(256) for _ in range(rng.randint(1, 8))) for _ in range(n))
        if rng.random() < 0.2:
            s = s[:rng.randint(0, len(s))]
        conc = rng.choice([0, 1, 5, 10, 20])
        used = sorted(rng.sample(range(conc), rng.randint(0, min(conc, 5)))) if conc else []
        dying = [u for u in used if rng.random() < 0.4]
        out.append((conc, used, dying, s))
    return out

DYING_TEXT = b"I'm not going to try again; this message has been in the queue too long.\n"

def addbounce_text(recip, report):
    """DESIGN Appendix C.4 (the real addbounce; proved about in C14)"""
    bt = bytearray(b"<" + recip)
    for i in range(len(bt)):
        if bt[i] == 10:
            bt[i] = ord("_")
    bt += b">:\n" + report
    if report and report[-1] != 10:
        bt += b"\n"
    for pos in range(len(bt) - 2, 0, -1):
        if bt[pos] == 10 and bt[pos - 1] == 10:
            bt[pos] = ord("/")
    return bytes(bt) + b"\n"

def expected_del_state(events, used, dying=()):
    """fold the model's event list into the final per-slot state"""
    st = {u: dict(used=1, numtodo=1, mark="T", bounce=None) for u in used}
    for e in events:
        if e == "I" or e == "-":
            continue
        m = re.match(r"R(\d+):([KZDM]):(\S+)", e)
        d, v, t = int(m.group(1)), m.group(2), vlib.unhx(m.group(3))
        s = st[d]
        s["used"] = 0
        if v in "KD":
            s["mark"] = "D"; s["numtodo"] = 0
        if v == "D":
            s["bounce"] = addbounce_text(b"r%d@x" % d, t)
    return st

def check_del(ck, rb, home, drv):
    h = rb.harness("h_deldochan", "qmail-send")
    cases = gen_del(ck)
    lines = ["del %d %s %s %s" % (c, ",".join(map(str, u)) or "-", ",".join(map(str, dy)) or "-", vlib.hx(s)) for c, u, dy, s in cases]
    impl, rc, err = vlib.run_lines([h, os.path.join(home, "queue")], lines)
    model, _, _ = vlib.run_lines(drv, ["delrun %d %s %s %s" % (c, ",".join(map(str, u)) or "-", ",".join(map(str, dy)) or "-", vlib.hx(s)) for c, u, dy, s in cases])
    fails, mism = [], []
    if len(impl) != len(cases):
        fails.append(("send:crashed-on-report-bytes", dict(kind="input", component="del_dochan", note="harness died rc=%s after %d cases" % (rc, len(impl)),
                                                         input=lines[len(impl)] if len(impl) < len(lines) else ""), 0))
        return fails, mism
    for (c, u, dy, s), a, b in zip(cases, impl, model):
        ck.evaluated()
        exp = expected_del_state(b.split(), u, dy)
        got = {}
        for w in a.split():
            m = re.match(r"s(\d+):u(\d):n(-?\d+):m(.):b(\S+)", w)
            if m:
                got[int(m.group(1))] = dict(used=int(m.group(2)), numtodo=int(m.group(3)), mark=m.group(4), bounce=vlib.unhx(m.group(5)))
        obj = dict(kind="input", component="del_dochan", concurrency=c, used=u, dying=dy, stream_hex=vlib.hx(s)[:400], observed=a[:400], model_events=b[:400])
        ck.nontrivial(("d", b))
        bad = None
        for slot in u:
            g, e = got.get(slot), exp[slot]
            if g is None:
                bad = "send:state"; break
            # direct oracle: a recipient is finished only if the model saw a finishing report for that slot
            if g["mark"] == "D" and e["mark"] != "D":
                bad = "send:finished-without-K-or-D"; break
            if len(g["bounce"]) > 10000 + 200:
                bad = "send:report-not-truncated"; break
            if g["mark"] == "T" and e["mark"] == "D" and max([len(x) for x in s.split(b"\0")] + [0]) < 9000:
                # a well-formed K/D report for a slot in use was not acted on (all segments far below REPORTMAX,
                # so the segmentation is the documented one: delivery number, text, NUL)
                bad = "send:valid-report-lost"; break
            if (g["used"], g["numtodo"], g["mark"]) != (e["used"], e["numtodo"], e["mark"]):
                bad = "corr"; break
            if e["bounce"] is not None and g["bounce"] != e["bounce"]:
                bad = "corr"; break
            if e["bounce"] is None and g["bounce"]:
                bad = "send:bounce-without-D"; break
        if bad == "corr":
            mism.append(obj)
        elif bad:
            fails.append((bad, obj, len(s)))
    ck.count("del_dochan_streams", len(cases))
    return fails, mism

def main():
    ck = vlib.Check(PID, "proof")
    rb = vlib.RepoBuild()
    if not rb.ok:
        print("repository does not build:\n" + rb.log[-2000:]); sys.exit(2)
    ck.proofs(srcdir=rb.dir)
    drv = vlib.build_driver("C18")
    home = rb.make_home(split=SPLIT)
    fails, mism = [], []
    import gen_common; gen_common.translator_selfcheck(ck, rb, mism)
    t0 = time.time()
    f, m, reqs = check_clean(ck, rb, home, drv); fails += f; mism += m
    vlib.log("clean part %.1fs" % (time.time() - t0)); t0 = time.time()
    for prog in ("qmail-rspawn",):
        f, m = check_spawn(ck, rb, home, drv, prog); fails += f; mism += m
    f, m = check_lspawn_process(ck, rb, drv); fails += f; mism += m
    f, m = check_lspawn_report_fn(ck, rb, drv); fails += f; mism += m
    vlib.log("spawn part %.1fs" % (time.time() - t0)); t0 = time.time()
    f, m = check_del(ck, rb, home, drv); fails += f; mism += m
    vlib.log("del part %.1fs" % (time.time() - t0))
    ck.cov["disagreements_checked"] = len(mism)
    ck.cov["rule"] = ("qmail-clean: 15 prefixes x every tail over {0,1,9,/,.,a,0xff,space} to length 3/4, boundary lengths, numbers around 2^64, "
                      "existing/absent files, a real unlink error (directory) and an injected one; spawn: command table (valid, non-numeric, path-like, "
                      "over-long message ids, delivery numbers 0..255, recipients without @) sent to the real qmail-rspawn one at a time; del_dochan: "
                      "seeded report streams (K/Z/D/garbage, out-of-range and unused delivery numbers, 10-20 kB reports, truncated streams). "
                      "non-trivial = distinct request accepted / distinct command reported on / distinct model event list")
    ck.sample(dict(component="qmail-clean", request=repr(reqs[700])))
    ck.sample(dict(component="qmail-rspawn", command="delnum 5, messid '1/../x', recipient 'r@x'"))
    ck.sample(dict(component="del_dochan", stream="01 4b 6f 6b 00  09 4b 00 ..."))
    fails.sort(key=lambda x: x[2])
    seen = set()
    for key, obj, _ in fails:
        if key in seen:
            continue
        seen.add(key)
        ck.violation(key, obj, what="%s: %s" % (obj.get("component"), key))
    real_fail = any(k not in ck.known for k, _, _ in fails)
    if mism and not real_fail:
        ck.violation("correspondence", dict(kind="correspondence", broken="Queue/Clean.v model = qmail-clean.c / spawn.c / del_dochan", first=mism[0], n=len(mism)),
                     nofail=True, what="model and implementation disagree but the direct oracles hold")
    ck.proof_failure_violation(real_fail)
    ck.finish(trusted_base=[vlib.KERNEL_TB, vlib.EXTRACTION_TB, "shim/sysshim.c (LD_PRELOAD: logs unlink/open/write, injects unlink errors, serves getpwnam)",
                            "harness/h_deldochan.c (#include qmail-send.c; real tables, real files)", "stand-in QMAILREMOTE shell script"],
              assumptions=["qmail-clean's periodic cleanuppid() (stale pid/ files older than 36 h) is outside this model (C02)",
                           "spawn.c's validation layer is exercised through qmail-rspawn; qmail-lspawn shares spawn.c (its user lookup is C11)",
                           "a digit string naming a number >= 2^64 is acted on modulo 2^64 (recorded finding clean:id-wraps-2^64)"])

def replay(path):
    obj = json.load(open(path))
    rb = vlib.RepoBuild(); home = rb.make_home(split=SPLIT)
    if obj.get("component") == "qmail-clean":
        r = vlib.unhx(obj["request_hex"])
        out, unl = run_single(rb, home, r, None)
        key = clean_oracle(r, out, unl)
        print("request", r, "status", out, "unlinks", unl, "oracle", key or "ok")
        vlib._cleanup()
        return 1 if key else 0
    print("replay of this component: re-run ./check C18 (deterministic for the same VERIF_SEED)")
    vlib._cleanup()
    return 0
