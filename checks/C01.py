"""C01 - queue acceptance is all-or-nothing and durable.

proof: coq/Props/Properties_C01.v (every prefix of qmail-queue's event sequence x every fault plan
       x every crash image)
tie:   the real qmail-queue run under the interposer on generated (message, envelope) pairs, with
       every single failing call of its observed call sequence, signals and kills at chosen points;
       the observed event trace is compared with the extracted model's trace, and the extracted
       oracle prefixes_ok is evaluated on the OBSERVED trace (every prefix, fsync positions included);
       the on-disk queue after each run is compared with the state the trace predicts."""
import json, os, re, subprocess, sys
import vlib

PID = "C01"
SPLIT = 23

def gen_inputs(ck):
    rng = ck.rng
    def env(sender, rcpts, term=b"\0"):
        return b"F" + sender + b"\0" + b"".join(b"T" + r + b"\0" for r in rcpts) + term
    msgs = [b"", b"x", b"Subject: t\n\nbody\n"] + [bytes(rng.randrange(256) for _ in range(n)) for n in (255, 256, 257, 2047, 2048, 2049, 8191, 8192, 8193)]
    envs = [("ok0", env(b"s@x", [])), ("ok1", env(b"s@x", [b"r@y"])), ("ok3", env(b"", [b"a@b", b"c@d", b"e@f"])),
            ("sender1002", env(b"a" * 1002, [b"r@y"])), ("sender1003", env(b"a" * 1003, [b"r@y"])), ("sender1004", env(b"a" * 1004, [b"r@y"])),
            ("rcpt1002", env(b"s", [b"r" * 1002])), ("rcpt1003", env(b"s", [b"q", b"r" * 1003])), ("rcpt1001", env(b"s", [b"r" * 1001, b"z"])),
            ("badfirst", b"Xs\0Tr\0\0"), ("badsecond", b"Fs\0Xr\0\0"), ("badthird", b"Fs\0Tr\0Fq\0\0"), ("noterm", env(b"s@x", [b"r@y"], b"")),
            ("empty", b""), ("junkafter", env(b"s", [b"r"]) + b"Tlate\0\0"), ("many", env(b"s@x", [b"r%d@y" % k for k in range(120)]))]
    small = env(b"ab", [b"cd", b"e"])
    for k in range(len(small)):
        envs.append(("cut%d" % k, small[:k]))
    inputs = []
    for name, e in envs:
        inputs.append((name, rng.choice(msgs[:6]), e))
    for m in msgs:
        inputs.append(("msg%d" % len(m), m, env(b"s@x", [b"r@y"])))
    for _ in range(40 if ck.thorough else 8):
        n = rng.randint(0, 5)
        inputs.append(("rand", bytes(rng.randrange(256) for _ in range(rng.choice([0, 10, 300, 3000]))),
                       env(bytes(rng.randrange(1, 256) for _ in range(rng.randint(0, 30))), [bytes(rng.randrange(1, 256) for _ in range(rng.randint(0, 40))) for _ in range(n)])))
    return inputs

class Runner:
    def __init__(self, rb):
        self.rb = rb
        self.home = rb.make_home(split=SPLIT)
        self.q = os.path.join(self.home, "queue")
        self.exe = rb.path("qmail-queue")
        self.n = 0
    def clean_queue(self):
        for d in ["pid", "intd", "todo"] + ["mess/%d" % i for i in range(SPLIT)]:
            p = os.path.join(self.q, d)
            for f in os.listdir(p):
                os.remove(os.path.join(p, f))
    def listing(self):
        out = {}
        for d in ["pid", "intd", "todo"] + ["mess/%d" % i for i in range(SPLIT)]:
            p = os.path.join(self.q, d)
            for f in os.listdir(p):
                fp = os.path.join(p, f)
                st = os.stat(fp)
                out[d.split("/")[0] + "/" + f] = (st.st_ino, open(fp, "rb").read())
        return out
    def run(self, msg, env, extra=None):
        self.clean_queue()
        self.n += 1
        s = vlib.scratch()
        log = os.path.join(s, "qq.log")
        if os.path.exists(log):
            os.remove(log)
        open(os.path.join(s, "qq.msg"), "wb").write(msg)
        open(os.path.join(s, "qq.env"), "wb").write(env)
        e = vlib.shim_env(self.home, log=log, extra=dict({"SYSSHIM_LOGWRITE": "all"}, **(extra or {})))
        with open(os.path.join(s, "qq.msg"), "rb") as f0, open(os.path.join(s, "qq.env"), "rb") as f1:
            p = subprocess.run([self.exe], stdin=f0, stdout=f1, stderr=subprocess.DEVNULL, env=e, timeout=30)
        lines = [l.split() for l in open(log, errors="replace").read().split("\n") if l.strip()] if os.path.exists(log) else []
        return p.returncode, lines, self.listing()

def abstract(lines, rc, listing, expected_body_len=None):
    """shim log -> abstract event tokens (write data as (role, length) pieces merged), raw call list"""
    fdrole = {}
    toks = []
    calls = []     # (kind, path/fd, ok) for fault enumeration
    pend = None    # merged write
    def flush():
        nonlocal pend
        if pend:
            toks.append(pend); pend = None
    for w in lines:
        if len(w) < 2 or w[1] == "KILL":
            continue
        c = w[1]
        inj = w[-1] == "INJECTED"
        if c == "alarm":
            flush(); toks.append(("A",)); continue
        if c == "open":
            path = w[2]; res = int(w[5])
            ok = res >= 0
            if path.startswith("pid/"):
                flush(); toks.append(("P", ok)); calls.append(("open", "pid/"))
                if ok: fdrole[res] = "M"
            elif path.startswith("intd/"):
                flush(); toks.append(("CI", ok)); calls.append(("open", "intd/"))
                if ok: fdrole[res] = "I"
            elif path.startswith("lock/trigger"):
                flush(); toks.append(("TR",))
                if ok: fdrole[res] = "T"
            continue
        if c == "link":
            flush(); ok = w[5] == "0"
            if w[3].startswith("mess/"): toks.append(("LM", ok)); calls.append(("link", "mess/"))
            elif w[3].startswith("todo/"): toks.append(("LT", ok)); calls.append(("link", "todo/"))
            else: toks.append(("OTHER", " ".join(w)))
            continue
        if c == "unlink":
            flush(); ok = w[4] == "0"
            if w[2].startswith("pid/"): toks.append(("UP", ok)); calls.append(("unlink", "pid/"))
            elif w[2].startswith("intd/"): toks.append(("UI", ok)); calls.append(("unlink", "intd/"))
            elif w[2].startswith("mess/"): toks.append(("UM", ok)); calls.append(("unlink", "mess/"))
            else: toks.append(("OTHER", " ".join(w)))
            continue
        if c == "write":
            fd = int(w[2]); role = fdrole.get(fd)
            if role in ("M", "I"):
                calls.append(("write", "fd%d" % fd))
                n = int(w[6]) if not inj and w[6].lstrip("-").isdigit() else -1
                if n > 0:
                    if pend and pend[0] == "W" + role:
                        pend = (pend[0], pend[1] + n)
                    else:
                        flush(); pend = ("W" + role, n)
                if n < 0:
                    flush(); toks.append(("WFAIL", role))
            continue
        if c == "fsync":
            flush(); fd = int(w[2]); role = fdrole.get(fd); ok = w[4] == "0"
            calls.append(("fsync", "fd%d" % fd))
            toks.append(("F" + (role or "?"), ok)); continue
        if c == "ftruncate":
            flush(); fd = int(w[2]); role = fdrole.get(fd)
            toks.append(("T" + (role or "?"),)); continue
        if c == "read" and inj:
            flush(); toks.append(("RFAIL", w[2])); continue
    flush()
    if rc >= 0:
        toks.append(("X", rc))
    return toks, calls

def render(toks, files, body, envdata):
    """tokens for the OCaml oracle; write data reconstructed from the expected content by offset"""
    out = []
    off = {"M": 0, "I": 0}
    src = {"M": body, "I": envdata}
    for t in toks:
        k = t[0]
        if k == "A": out.append("A")
        elif k == "P": out.append("P%d" % t[1])
        elif k in ("LM", "UP", "CI", "LT", "UI", "UM"): out.append("%s%d" % (k, t[1]))
        elif k in ("WM", "WI"):
            r = k[1]; d = src[r][off[r]:off[r] + t[1]]
            d = d + b"\xee" * (t[1] - len(d))            # wrote more than expected: visible as a mismatch
            off[r] += t[1]; out.append("%s:%s" % (k, vlib.hx(d)))
        elif k in ("FM", "FI"): out.append("%s%d" % (k, t[1]))
        elif k in ("TM", "TI"): out.append(k); off[k[1]] = 0
        elif k == "TR": out.append("TR")
        elif k == "X": out.append("X%d" % t[1])
        elif k in ("WFAIL", "RFAIL"): pass
        else: out.append("?" + str(t))
    return out

def model_faults(toks):
    """fault spec for the model, read off the observed trace (which call failed, how far writes got)"""
    f = []
    pidfail = sum(1 for t in toks if t[0] == "P" and not t[1])
    if pidfail: f.append("pid=%d" % pidfail)
    wm = sum(t[1] for t in toks if t[0] == "WM"); wi = sum(t[1] for t in toks if t[0] == "WI")
    seen = [t[0] for t in toks]
    for t in toks:
        k = t[0]
        if k == "LM" and not t[1]: f.append("lm")
        if k == "UP" and not t[1]: f.append("up")
        if k == "WFAIL": f.append(("mw=%d" % wm) if t[1] == "M" else ("iw=%d" % wi))
        if k == "RFAIL": f.append(("mr=%d" % wm) if t[1] == "0" else None)
        if k == "FM" and not t[1]: f.append("fm")
        if k == "CI" and not t[1]: f.append("ci")
        if k == "FI" and not t[1]: f.append("fi")
        if k == "LT" and not t[1]: f.append("lt")
        if k == "UI" and not t[1]: f.append("ui")
        if k == "UM" and not t[1]: f.append("um")
    f.append("ifl=%d" % wi)
    return ",".join(x for x in f if x) or "-"

def main():
    ck = vlib.Check(PID, "proof")
    rb = vlib.RepoBuild()
    if not rb.ok:
        print("repository does not build:\n" + rb.log[-2000:]); sys.exit(2)
    ck.proofs(srcdir=rb.dir)
    drv = vlib.build_driver("C01")
    R = Runner(rb)
    inputs = gen_inputs(ck)
    fails, mism = [], []
    oracle_jobs = []      # (desc, line)
    model_jobs = []
    records = []

    def one(name, msg, env, plan, extra):
        rc, lines, listing = R.run(msg, env, extra)
        toks, calls = abstract(lines, rc if rc != 137 else -1, listing)
        # the Received line as the real program wrote it (when the message file survived) else a same-length stand-in
        messf = [v for k, v in listing.items() if k.startswith("mess/")]
        body = None
        if messf and messf[0][1].startswith(b"Received: (qmail "):
            recv = messf[0][1].split(b"\n", 1)[0] + b"\n"
        else:
            # the file is gone: a stand-in of the same length (pid from the log, date822fmt prints the day unpadded)
            import time
            qpid = lines[0][0] if lines else "0"
            recv = ("Received: (qmail %s invoked by uid 0); %d Xxx 0000 00:00:00 -0000\n" % (qpid, time.gmtime().tm_mday)).encode()
        hdr = None
        for k, v in listing.items():
            if k.startswith("intd/") or k.startswith("todo/"):
                m = re.match(rb"^(u\d+\0p\d+\0)", v[1])
                if m: hdr = m.group(1)
        if hdr is None:
            hdr = ("u0\0p%s\0" % (lines[0][0] if lines else "0")).encode()
        if plan.startswith("fail read fd1 #1"):
            env = b""            # a read error is the end of the envelope as far as the program can tell: nothing was read
        records.append(dict(name=name, plan=plan, rc=rc, toks=toks, listing=listing, msg=msg, env=env, recv=recv, hdr=hdr, calls=calls))
        return rc, toks, calls

    for name, msg, env in inputs:
        rc, toks, calls = one(name, msg, env, "none", None)
        ck.count("plain_runs")
        if name.startswith(("ok", "msg", "cut", "bad", "sender100", "rcpt100", "rand")) or ck.thorough:
            # every single failing call of the observed sequence
            seen = {}
            for kind, where in calls:
                seen[(kind, where)] = seen.get((kind, where), 0) + 1
                nth = seen[(kind, where)]
                if kind == "write" and nth > 3 and not ck.thorough:
                    continue
                err = 28 if kind in ("write", "fsync") else 5
                one(name, msg, env, "fail %s %s #%d" % (kind, where, nth), {"SYSSHIM_FAIL": "%s:%s:%d:%d" % (kind, where, err, nth)})
                ck.count("single_fault_runs")
            # every write of the observed sequence cut short once (half of the bytes taken, no error): the program must write the rest
            seen3 = {}
            for kind, where in calls:
                if kind != "write": continue
                seen3[where] = seen3.get(where, 0) + 1
                if seen3[where] > 4 and not ck.thorough: continue
                one(name, msg, env, "short write %s #%d" % (where, seen3[where]), {"SYSSHIM_FAIL": "write:%s:999:%d" % (where, seen3[where])})
                ck.count("short_write_runs")
            for fd, nth in (("fd0", 1), ("fd0", 2), ("fd1", 1)):
                one(name, msg, env, "fail read %s #%d" % (fd, nth), {"SYSSHIM_FAIL": "read:%s:5:%d" % (fd, nth)})
                ck.count("read_fault_runs")
            if name in ("ok1", "ok3", "msg2048", "many", "msg8193"):
                for rule in ("link:todo/:1:14", "link:mess/:1:14", "fsync:fd:1:14", "fsync:fd:2:14", "link:todo/:1:15"):
                    one(name, msg, env, "signal after " + rule, {"SYSSHIM_SIGNAL": rule})
                    ck.count("signal_runs")
                seen2 = {}
                for kind, where in calls:
                    seen2[(kind, where)] = seen2.get((kind, where), 0) + 1
                    if kind == "write" and seen2[(kind, where)] > 2:
                        continue
                    one(name, msg, env, "kill before %s %s #%d" % (kind, where, seen2[(kind, where)]), {"SYSSHIM_KILL": "%s:%s:%d" % (kind, where, seen2[(kind, where)])})
                    ck.count("kill_runs")

    # model traces and oracle, batched
    mlines, olines = [], []
    for r in records:
        r["fspec"] = model_faults(r["toks"])
        mlines.append("events %s %s %s %s %s" % (vlib.hx(r["recv"]), vlib.hx(r["msg"]), vlib.hx(r["hdr"]), vlib.hx(r["env"]), r["fspec"]))
    mout, _, _ = vlib.run_lines(drv, mlines)
    pout, _, _ = vlib.run_lines(drv, ["parse " + vlib.hx(r["env"]) for r in records])
    for r, p in zip(records, pout):
        kind, data = p.split()
        r["envdata"] = r["hdr"] + vlib.unhx(data)
        r["parse"] = kind
        olines.append("oracle %s %s %s %s %s" % (vlib.hx(r["recv"]), vlib.hx(r["msg"]), vlib.hx(r["hdr"]), vlib.hx(r["env"]),
                                                 " ".join(render(r["toks"], r["listing"], r["recv"] + r["msg"], r["envdata"]))))
    oout, _, _ = vlib.run_lines(drv, olines)
    for r, m, o in zip(records, mout, oout):
        ck.evaluated()
        obs = []
        for t in r["toks"]:
            if t[0] in ("WFAIL", "RFAIL"): continue
            if t[0] in ("WM", "WI"): obs.append("%s:%d" % t)
            elif len(t) == 1: obs.append(t[0])
            elif t[0] == "X": obs.append("X%d" % t[1])
            elif t[0] == "OTHER": obs.append("OTHER(" + t[1] + ")")
            else: obs.append("%s%d" % (t[0], t[1]))
        obs_s = " ".join(obs)
        ck.nontrivial((r["name"], r["plan"], obs_s))
        names = sorted(k.split("/")[0] for k in r["listing"])
        m = " ".join(x for x in m.split() if x not in ("WM:0", "WI:0"))       # a zero-length append is no event
        obj = dict(kind="trace", input=r["name"], plan=r["plan"], message_len=len(r["msg"]), envelope_hex=vlib.hx(r["env"])[:400],
                   exit=r["rc"], observed=obs_s, model=m, oracle=o, files_after=names)
        w = o.split()
        ok = w[0] == "1" and "OTHER" not in obs_s and "?" not in " ".join(render(r["toks"], r["listing"], b"", b""))
        # the queue on disk must be what the trace says (names), and a visible message must be complete on disk
        st = dict(x.split("=") for x in w[1:])
        disk = dict(pid=int(any(n == "pid" for n in names)), mess=int("mess" in names), intd=int("intd" in names), todo=int("todo" in names))
        if ok and any(int(st[k]) != disk[k] for k in disk):
            ok = False; obj["note"] = "on-disk names differ from the state the observed trace predicts"
        if disk["todo"]:
            todo = [v for k, v in r["listing"].items() if k.startswith("todo/")][0]
            mess = [v for k, v in r["listing"].items() if k.startswith("mess/")]
            good = r["parse"] == "O" and todo[1] == r["envdata"] and mess and mess[0][1] == r["recv"] + r["msg"] and \
                [k for k in r["listing"] if k.startswith("mess/")][0].split("/")[1] == str(mess[0][0])
            if not good:
                ok = False; obj["note"] = "todo entry present but message/envelope incomplete or misnamed on disk"
        if r["rc"] == 0 and not disk["todo"]:
            ok = False; obj["note"] = "exit 0 without a todo entry"
        if r["rc"] not in (0, 137, -14, -15, 52) and r["rc"] > 0 and disk["todo"]:
            ok = False; obj["note"] = "failure exit but the message is visible"
        if r["plan"] == "none" or r["plan"].startswith("short write"):
            exp = {"O": 0, "E": 54, "B": 91, "L": 11}[r["parse"]]
            if r["rc"] != exp:
                ok = False; obj["note"] = "exit code %d, documented %d" % (r["rc"], exp)
        if not ok:
            key = "queue:partial-message-visible" if disk["todo"] or st.get("todo") == "1" else "queue:protocol"
            fails.append((key, obj, len(r["msg"]) + len(r["env"])))
            continue
        # correspondence with the model trace (a zero-length append is no event)
        m = " ".join(x for x in m.split() if x not in ("WM:0", "WI:0"))
        if r["plan"].startswith(("kill", "signal")):
            mo = m.split()
            ob = [x for x in obs if not x.startswith("X")]
            pre = mo[:len(ob)]
            # a write may be cut short by the kill: compare kinds, lengths only when complete
            same = all(a == b or (a.split(":")[0] == b.split(":")[0] and a[0] == "W") for a, b in zip(ob, pre)) and len(ob) <= len(mo)
            if not same:
                mism.append(obj)
        elif obs_s != m:
            mism.append(obj)
    ck.cov["disagreements_checked"] = len(mism)
    ck.cov["traces_validated_against_impl"] = len(records)
    ck.cov["rule"] = ("inputs: message sizes around 256/2048/8192, envelopes with 0..120 recipients, addresses of 1001-1004 bytes, wrong record letters, "
                      "missing terminator, EOF at every offset of a small envelope, random; plans: none, every single failing open/link/unlink/write/fsync, every write cut short once, "
                      "of the observed call sequence, read errors on fd 0/1, SIGALRM/SIGTERM right after chosen calls, kill before each call. "
                      "non-trivial = distinct (input, plan, observed event trace)")
    for r in records[:2] + records[-1:]:
        ck.sample(dict(input=r["name"], plan=r["plan"], exit=r["rc"], trace=" ".join(str(t) for t in r["toks"])[:300]))
    fails.sort(key=lambda x: x[2])
    seen = set()
    for key, obj, _ in fails:
        if key in seen:
            continue
        seen.add(key)
        ck.violation(key, obj, what="real qmail-queue: %s (%s)" % (key, obj.get("note", "oracle prefixes_ok false on the observed trace")))
    if mism:
        from collections import Counter
        ck.cov["disagreement_kinds"] = Counter((x["plan"].split("#")[0], x["observed"] + " | " + x["model"]) for x in mism).most_common(8)
    if mism and not fails:
        ck.violation("correspondence", dict(kind="correspondence", broken="Queue/Inject.v qq_events = qmail-queue.c main()", first=mism[0], n=len(mism)),
                     nofail=True, what="model and implementation traces disagree but the oracle holds on every observed prefix")
    ck.proof_failure_violation(bool(fails))
    ck.finish(trusted_base=[vlib.KERNEL_TB, vlib.EXTRACTION_TB, "shim/sysshim.c (log, single-fault injection, kill-before-call, signal-after-call, getpwnam served)",
                            "checks/C01.py trace abstraction (merges adjacent writes; maps paths to event kinds)"],
              assumptions=["directory operations are synchronous and file data is durable up to the last successful fsync (conf-qmail's stated requirement); "
                           "loss of unsynced data is covered by the theorem and by evaluating the oracle on the fsync positions of the real trace, not by physically losing data",
                           "two simultaneous faults are not injected; a short write takes half of the offered bytes; the Received: line is treated as opaque bytes"])

def replay(path):
    obj = json.load(open(path))
    print("trace replay: re-run ./check C01 (deterministic for the same VERIF_SEED); recorded case:", obj.get("input"), obj.get("plan"), obj.get("observed"))
    return 0
