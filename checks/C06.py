"""C06 - outbound SMTP DATA cannot be terminated or hijacked by message content.

proof: coq/Props/Properties_C06.v (theorems about Codec.rblast)
tie:   the real qmail-remote.c blast() (function harness) against the extracted rblast,
       exhaustively over {CR,LF,'.',x}* and on random long messages, all read chunkings of
       short inputs; the extracted oracle ok_C06 is evaluated on what the real function
       produced; the real qmail-smtpd blast() decodes the real encoder's output."""
import json, sys
import vlib
from codec_common import exhaustive, random_msgs

PID = "C06"
GENMIS = []

def classify(m, res):
    """classifier key for known_findings.json"""
    if b"\0" in m and b"\r\r" not in m and b"\r." not in m:
        return "remote:nul-byte"
    if b"\r." in m:
        return "remote:barecr-dot-unstuffed"
    if b"\r\r" in m:
        return "remote:barecr-cr-raw"
    return "remote:encoding"

def gen_cases(ck):
    L = 10 if ck.thorough else 8
    cases = []
    for m in exhaustive(L):
        cases.append((m, 0))
    ck.count("exhaustive_len<=%d" % L, len(cases))
    n0 = len(cases)
    for m in exhaustive(5):
        for ch in (1, 2, 3):
            cases.append((m, ch))
    ck.count("chunked_len<=5", len(cases) - n0)
    n0 = len(cases)
    for m in exhaustive(6 if ck.thorough else 5, alpha=[13, 10, 46, 120, 0, 255]):
        if 0 in m or 255 in m:
            cases.append((m, 0))
    ck.count("exhaustive_with_NUL_0xff", len(cases) - n0)
    sizes = [0, 1, 2, 50, 255, 256, 257, 1023, 1024, 1025, 2047, 2048, 2049, 5000]
    rnd = random_msgs(ck.rng, 3000 if ck.thorough else 600, sizes)
    for m in rnd:
        cases.append((m, ck.rng.choice([0, 0, 1, 7, 1024])))
    ck.count("random_long", len(rnd))
    return cases

def run(ck, rb, cases):
    drv = vlib.build_driver("C06")
    h = rb.harness("h_rblast", "qmail-remote")
    hs = rb.harness("h_sblast", "qmail-smtpd")
    impl, rc, err = vlib.run_lines(h, ["enc %s %d" % (vlib.hx(m), c) for m, c in cases])
    if len(impl) != len(cases):
        raise RuntimeError("harness died: rc=%s %s (got %d of %d)" % (rc, err[-500:], len(impl), len(cases)))
    model, _, _ = vlib.run_lines(drv, ["enc %s" % vlib.hx(m) for m, c in cases])
    # blast() as GENERATED from today's qmail-remote.c (coq/gen/CGen.v C_rblast) against the compiled function: validation of the translator
    global GENMIS
    GENMIS = []
    try:
        gdrv = vlib.build_driver("GEN")
        pick = list(range(len(cases))) if len(cases) <= 6000 else sorted(ck.rng.sample(range(len(cases)), 6000))
        g, _, _ = vlib.run_lines(gdrv, ["rblast %s" % vlib.hx(cases[i][0]) for i in pick])
        for i, gr in zip(pick, g):
            ck.count("generated_rblast")
            if gr != impl[i]: GENMIS.append(dict(message=vlib.hx(cases[i][0]), real=impl[i][:200], generated=gr[:200]))
    except RuntimeError as e:
        GENMIS.append(dict(what="generated functions do not build", log=str(e)[-600:]))
    oracle, _, _ = vlib.run_lines(drv, ["ok06 %s %s" % (vlib.hx(m), r if r[0] in "SP" else "S ff") for (m, c), r in zip(cases, impl)])
    # the package's own server decodes what the real client produced
    canon, _, _ = vlib.run_lines(drv, ["canon %s" % vlib.hx(m) for m, c in cases])
    dec_in = [(i, r[2:]) for i, r in enumerate(impl) if r.startswith("S ")]
    dec, _, _ = vlib.run_lines(hs, ["dec %s 0" % o for i, o in dec_in])
    own = {}
    for (i, o), d in zip(dec_in, dec):
        exp = "D %s - " % canon[i][2:] if canon[i].startswith("S ") else None
        own[i] = exp is not None and d.startswith(exp)
    return impl, model, oracle, own

def main():
    ck = vlib.Check(PID, "proof")
    rb = vlib.RepoBuild()
    if not rb.ok:
        print("repository does not build:\n" + rb.log[-2000:]); sys.exit(2)
    ck.proofs()
    cases = gen_cases(ck)
    impl, model, oracle, own = run(ck, rb, cases)
    ck.evaluated(len(cases))
    mism, fails = [], []
    for i, ((m, c), a, b, o) in enumerate(zip(cases, impl, model, oracle)):
        if a.startswith("S ") and len(m) > 0:
            ck.nontrivial(m)
        if a != b:
            mism.append(i)
        if o != "1" or (a.startswith("S ") and not own.get(i, False)):
            fails.append(i)
    # ---- message content reaches the wire only in DATA mode: the real qmail-remote against a server that answers DATA
    #      with 354 / 4xx / 5xx (single- and multi-line); unless the answer was 3xx nothing but QUIT may follow
    import C09, os, subprocess
    home = rb.make_home(); srv = C09.Server()
    open(os.path.join(home, "control", "me"), "w").write("client.example\n")
    open(os.path.join(home, "control", "smtproutes"), "w").write(":127.0.0.1:%d\n" % srv.port)
    msgf = os.path.join(vlib.scratch(), "c06.msg")
    open(msgf, "wb").write(b"Subject: t\n\nMAIL FROM:<mallory@evil.example>\nRCPT TO:<victim@x.example>\nDATA\nforged\n.\nQUIT\n")
    hijack = []
    for data_reply in (b"354 go\r\n", b"451 greylisted\r\n", b"421-busy\r\n421 later\r\n", b"554 no\r\n", b"500-a\r\n500 b\r\n", b"452 full\r\n"):
        for rcpts in (1, 2):
            srv.script = b"220 s\r\n250 hello\r\n250 sender ok\r\n" + b"250 rcpt ok\r\n" * rcpts + data_reply + b"250 queued\r\n" * 8 + b"221 bye\r\n"
            srv.received = b""; srv.done = False
            with open(msgf, "rb") as f0:
                pr = subprocess.run([rb.path("qmail-remote"), "dest.example", "s@client.example"] + ["r%d@dest.example" % k for k in range(rcpts)],
                                    stdin=f0, stdout=subprocess.PIPE, stderr=subprocess.PIPE, env=vlib.shim_env(home), cwd=home, timeout=60)
            import time as _t
            for _ in range(100):
                if getattr(srv, "done", False): break
                _t.sleep(0.02)
            got = srv.received
            after = got.split(b"DATA\r\n", 1)[1] if b"DATA\r\n" in got else b""
            ck.evaluated(); ck.count("data_reply_sessions"); ck.nontrivial(("datareply", data_reply, rcpts))
            if not data_reply.startswith(b"3") and after.strip() not in (b"", b"QUIT"):
                hijack.append(dict(kind="history", server_reply_to_DATA=data_reply.decode(), recipients=rcpts, sent_after_DATA=after.decode("latin1")[:300], report=pr.stdout.decode("latin1")[:200]))
    os.remove(os.path.join(home, "control", "smtproutes"))
    for o in hijack[:1]:
        ck.violation("remote:content-sent-outside-data-mode", o, what="qmail-remote transmitted the message although the server had refused DATA: its lines are read as SMTP commands")
    ck.cov["disagreements_checked"] = len(mism)
    ck.cov["rule"] = ("the real qmail-remote against a scripted server answering DATA with 354/4xx/5xx; exhaustive {CR,LF,'.',x}* to the stated length (read chunk = whole), every chunking 1..3 of "
                      "strings to length 5, seeded random messages around the 1024-byte buffers; non-trivial = "
                      "distinct non-empty message for which the real blast() returned an encoding")
    ck.cov["exhaustive"] = True
    for m, c in cases[5:8] + cases[-2:]:
        ck.sample(dict(message_hex=vlib.hx(m)[:160], length=len(m), read_chunk=c))
    fails.sort(key=lambda i: len(cases[i][0]))
    seen = set()
    for i in fails:
        m, c = cases[i]
        key = classify(m, impl[i])
        if key in seen:
            continue
        seen.add(key)
        ck.violation(key, dict(kind="input", input_hex=vlib.hx(m), read_chunk=c, observed=impl[i], expected=model[i],
                               oracle="ok_C06 (extracted) on the real blast() output; real qmail-smtpd blast() on it",
                               n_failing=len(fails)),
                     what="qmail-remote blast() output violates C06 for message %r" % m)
    if mism and not fails and not hijack:
        i = min(mism, key=lambda i: len(cases[i][0]))
        m, c = cases[i]
        ck.violation("correspondence", dict(kind="correspondence", broken="Codec.rblast = qmail-remote.c blast()",
                                            input_hex=vlib.hx(m), read_chunk=c, observed=impl[i], expected=model[i],
                                            n_disagreements=len(mism)), nofail=True,
                     what="model and implementation disagree but every implementation output satisfies ok_C06")
    if GENMIS and not (fails or hijack):
        ck.violation("correspondence-generated", dict(kind="correspondence", broken="coq/gen/CGen.v C_rblast (generated from qmail-remote.c by tools/c2gallina.py) = the compiled blast()",
                                                      first=GENMIS[0], n=len(GENMIS)), nofail=True, what="the generated function and the compiled function disagree (translator)")
    ck.proof_failure_violation(bool(fails or hijack))
    ck.finish(trusted_base=[vlib.KERNEL_TB, vlib.EXTRACTION_TB,
                            "harness/h_rblast.c, harness/h_sblast.c (substdio endpoints replaced by memory buffers; _exit via longjmp)",
                            "modelled: qmail-remote.c blast() as Codec.renc; substdio buffering assumed transparent (exercised with chunked reads)"],
              assumptions=["message is read completely from the queue file (read errors -> temp_read are not modelled)",
                           "theorems are about Codec.rblast; the tie to blast() is differential (exhaustive small alphabet + random)"])

def replay(path):
    obj = json.load(open(path))
    rb = vlib.RepoBuild()
    h = rb.harness("h_rblast", "qmail-remote")
    drv = vlib.build_driver("C06")
    m = obj["input_hex"]; c = obj.get("read_chunk", 0)
    impl, _, _ = vlib.run_lines(h, ["enc %s %d" % (m, c)])
    ok, _, _ = vlib.run_lines(drv, ["ok06 %s %s" % (m, impl[0])])
    print("input", m, "impl", impl[0], "ok_C06", ok[0])
    vlib._cleanup()
    return 0 if ok[0] == "1" else 1
