"""C06 - outbound SMTP DATA cannot be terminated or hijacked by message content.

proof: coq/Props/Properties_C06.v (theorems about Codec.rblast)
tie:   the real qmail-remote.c blast() (function harness) against the extracted rblast,
       exhaustively over {CR,LF,'.',x}* and on random long messages, all read chunkings of
       short inputs; the extracted oracle ok_C06 is evaluated on what the real function
       produced; the real qmail-smtpd blast() decodes the real encoder's output."""
import json, sys
import vlib
from codec_common import exhaustive, random_msgs

PID = "C06"

def classify(m, res):
    """classifier key for known_findings.json"""
    if b"\0" in m and b"\r\r" not in m and b"\r." not in m:
        return "remote:nul-byte"
    if b"\r." in m:
        return "remote:barecr-dot-unstuffed"
    if b"\r\r" in m:
        return "remote:barecr-cr-raw"
    return "remote:encoding"

def gen_cases(ck):
    L = 10 if ck.thorough else 8
    cases = []
    for m in exhaustive(L):
        cases.append((m, 0))
    ck.count("exhaustive_len<=%d" % L, len(cases))
    n0 = len(cases)
    for m in exhaustive(5):
        for ch in (1, 2, 3):
            cases.append((m, ch))
    ck.count("chunked_len<=5", len(cases) - n0)
    n0 = len(cases)
    for m in exhaustive(6 if ck.thorough else 5, alpha=[13, 10, 46, 120, 0, 255]):
        if 0 in m or 255 in m:
            cases.append((m, 0))
    ck.count("exhaustive_with_NUL_0xff", len(cases) - n0)
    sizes = [0, 1, 2, 50, 255, 256, 257, 1023, 1024, 1025, 2047, 2048, 2049, 5000]
    rnd = random_msgs(ck.rng, 3000 if ck.thorough else 600, sizes)
    for m in rnd:
        cases.append((m, ck.rng.choice([0, 0, 1, 7, 1024])))
    ck.count("random_long", len(rnd))
    return cases

def run(ck, rb, cases):
    drv = vlib.build_driver("C06")
    h = rb.harness("h_rblast", "qmail-remote")
    hs = rb.harness("h_sblast", "qmail-smtpd")
    impl, rc, err = vlib.run_lines(h, ["enc %s %d" % (vlib.hx(m), c) for m, c in cases])
    if len(impl) != len(cases):
        raise RuntimeError("harness died: rc=%s %s (got %d of %d)" % (rc, err[-500:], len(impl), len(cases)))
    model, _, _ = vlib.run_lines(drv, ["enc %s" % vlib.hx(m) for m, c in cases])
    oracle, _, _ = vlib.run_lines(drv, ["ok06 %s %s" % (vlib.hx(m), r if r[0] in "SP" else "S ff") for (m, c), r in zip(cases, impl)])
    # the package's own server decodes what the real client produced
    canon, _, _ = vlib.run_lines(drv, ["canon %s" % vlib.hx(m) for m, c in cases])
    dec_in = [(i, r[2:]) for i, r in enumerate(impl) if r.startswith("S ")]
    dec, _, _ = vlib.run_lines(hs, ["dec %s 0" % o for i, o in dec_in])
    own = {}
    for (i, o), d in zip(dec_in, dec):
        exp = "D %s - " % canon[i][2:] if canon[i].startswith("S ") else None
        own[i] = exp is not None and d.startswith(exp)
    return impl, model, oracle, own

def main():
    ck = vlib.Check(PID, "proof")
    rb = vlib.RepoBuild()
    if not rb.ok:
        print("repository does not build:\n" + rb.log[-2000:]); sys.exit(2)
    ck.proofs()
    cases = gen_cases(ck)
    impl, model, oracle, own = run(ck, rb, cases)
    ck.evaluated(len(cases))
    mism, fails = [], []
    for i, ((m, c), a, b, o) in enumerate(zip(cases, impl, model, oracle)):
        if a.startswith("S ") and len(m) > 0:
            ck.nontrivial(m)
        if a != b:
            mism.append(i)
        if o != "1" or (a.startswith("S ") and not own.get(i, False)):
            fails.append(i)
    ck.cov["disagreements_checked"] = len(mism)
    ck.cov["rule"] = ("exhaustive {CR,LF,'.',x}* to the stated length (read chunk = whole), every chunking 1..3 of "
                      "strings to length 5, seeded random messages around the 1024-byte buffers; non-trivial = "
                      "distinct non-empty message for which the real blast() returned an encoding")
    ck.cov["exhaustive"] = True
    for m, c in cases[5:8] + cases[-2:]:
        ck.sample(dict(message_hex=vlib.hx(m)[:160], length=len(m), read_chunk=c))
    fails.sort(key=lambda i: len(cases[i][0]))
    seen = set()
    for i in fails:
        m, c = cases[i]
        key = classify(m, impl[i])
        if key in seen:
            continue
        seen.add(key)
        ck.violation(key, dict(kind="input", input_hex=vlib.hx(m), read_chunk=c, observed=impl[i], expected=model[i],
                               oracle="ok_C06 (extracted) on the real blast() output; real qmail-smtpd blast() on it",
                               n_failing=len(fails)),
                     what="qmail-remote blast() output violates C06 for message %r" % m)
    if mism and not fails:
        i = min(mism, key=lambda i: len(cases[i][0]))
        m, c = cases[i]
        ck.violation("correspondence", dict(kind="correspondence", broken="Codec.rblast = qmail-remote.c blast()",
                                            input_hex=vlib.hx(m), read_chunk=c, observed=impl[i], expected=model[i],
                                            n_disagreements=len(mism)), nofail=True,
                     what="model and implementation disagree but every implementation output satisfies ok_C06")
    ck.proof_failure_violation(bool(fails))
    ck.finish(trusted_base=[vlib.KERNEL_TB, vlib.EXTRACTION_TB,
                            "harness/h_rblast.c, harness/h_sblast.c (substdio endpoints replaced by memory buffers; _exit via longjmp)",
                            "modelled: qmail-remote.c blast() as Codec.renc; substdio buffering assumed transparent (exercised with chunked reads)"],
              assumptions=["message is read completely from the queue file (read errors -> temp_read are not modelled)",
                           "theorems are about Codec.rblast; the tie to blast() is differential (exhaustive small alphabet + random)"])

def replay(path):
    obj = json.load(open(path))
    rb = vlib.RepoBuild()
    h = rb.harness("h_rblast", "qmail-remote")
    drv = vlib.build_driver("C06")
    m = obj["input_hex"]; c = obj.get("read_chunk", 0)
    impl, _, _ = vlib.run_lines(h, ["enc %s %d" % (m, c)])
    ok, _, _ = vlib.run_lines(drv, ["ok06 %s %s" % (m, impl[0])])
    print("input", m, "impl", impl[0], "ok_C06", ok[0])
    vlib._cleanup()
    return 0 if ok[0] == "1" else 1
