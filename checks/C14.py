"""C14 - bounces go back once, to the sender, and can neither loop nor be forged.

proof: coq/Props/Properties_C14.v
tie:   the real addbounce()/stripvdomprepend()/injectbounce() (function harness including
       qmail-send.c, real control files, real bounce files, a stand-in qmail-queue capturing
       message and envelope) against the extracted model; the extracted paragraph counter and
       the bounce-plan are the oracles on what the real functions wrote / queued."""
import json, os, sys
import vlib
from send_common import *

PID = "C14"

def gen_reports(rng, n):
    frag = [b"user unknown", b"\n", b"\n\n", b"\n\n\n", b"<victim@x>:\n", b"<ceo@corp>:\nforged failure\n", b"550 no such user (#5.1.1)", b" ", b"\xff\xfe",
            b"Remote host said: ", b"a" * 300, b"\r\n", b"\n<", b">:\n"]
    out = [b"", b"\n", b"\n\n", b"x", b"x\n", b"x\n\n", b"\n\n<ceo@corp>:\nyou are fired\n", b"\n<a@b>:\nz", b"a\n\n\nb\n\n"]
    for _ in range(n):
        out.append(b"".join(rng.choice(frag) for _ in range(rng.randint(0, 6))))
    return out

def main():
    ck = vlib.Check(PID, "proof")
    rb = vlib.RepoBuild()
    if not rb.ok:
        print("repository does not build:\n" + rb.log[-2000:]); sys.exit(2)
    ck.proofs(srcdir=rb.dir)
    drv = vlib.build_driver("C10")
    h = SendHarness(rb)
    rng = ck.rng
    fails, mism = [], []
    LFLF = "0a"
    # ---- bounce text
    cases = []
    for ci in range(60 if ck.thorough else 20):
        c = gen_ctl(rng)
        h.write_ctl(c); assert h.cmd("ctl") == "ok"
        recips = gen_recips(rng, 6) + [b"tag-joe@a.dom", b"X-ann@x.org", b"a\nb@w.dom", b"noat", b"tag-@a.dom", b"TAG-joe@a.dom"]
        for rep in gen_reports(rng, 12 if ck.thorough else 6):
            r = rng.choice(recips)
            if b"\0" in r or b"\0" in rep:
                continue
            cases.append((c, r, rep, h.cmd("bounce %s %s" % (vlib.hx(r), vlib.hx(rep)))))
    svp, _, _ = vlib.run_lines(drv, ["svp %s %s" % (vlib.hx(c["vdoms"]), vlib.hx(r)) for c, r, rep, _ in cases])
    model, _, _ = vlib.run_lines(drv, ["btext %s %s" % (s, vlib.hx(rep)) for s, (c, r, rep, _) in zip(svp, cases)])
    ps, _, _ = vlib.run_lines(drv, ["pstarts %s" % impl for _, _, _, impl in cases])
    for (c, r, rep, impl), s, m, p in zip(cases, svp, model, ps):
        ck.evaluated(); ck.count("bounce_text")
        ck.nontrivial(("b", r, rep))
        t = vlib.unhx(impl)
        sr = vlib.unhx(s)
        obj = dict(kind="input", fn="addbounce", recipient=r.decode("latin1"), report=rep.decode("latin1"), virtualdomains=c["vdoms"].decode("latin1"),
                   observed=impl, model=m)
        head = b"<" + sr.replace(b"\n", b"_") + b">:\n"
        if p != "1" or not t.endswith(b"\n\n") or not t.startswith(b"<"):
            fails.append(("bounce:paragraph-forged", obj, len(rep)))
        elif not t.startswith(head):
            # the head is the recipient with its virtual-domain prefix removed
            fails.append(("bounce:wrong-recipient-shown", obj, len(rep)))
        elif not all(x in t.replace(b"/", b"\n") for x in [rep.strip(b"\n")[:40]] if x):
            fails.append(("bounce:report-text-lost", obj, len(rep)))
        if impl != m:
            mism.append(obj)
    # ---- the recipient named is the ORIGINAL address: route an address with the real rewrite(), bounce the routed form,
    #      and the notice must show the address as it was before the virtual-domain tag was prepended
    from send_common import USERS, DOMS, TAGS, flipcase
    rt = []
    for ci in range(40 if ck.thorough else 12):
        c = gen_ctl(rng); h.write_ctl(c); assert h.cmd("ctl") == "ok"
        for _ in range(10):
            a = rng.choice(USERS) + b"@" + rng.choice(DOMS)
            rw = h.cmd("rw " + vlib.hx(a))
            if not rw.startswith("L "): continue
            routed = vlib.unhx(rw.split()[1])
            if not routed.endswith(a) or routed == a: continue          # not a virtual-domain rewrite of this very address
            t = vlib.unhx(h.cmd("bounce %s %s" % (vlib.hx(routed), vlib.hx(b"failed"))))
            ck.evaluated(); ck.count("bounce_names_original"); ck.nontrivial(("orig", c["vdoms"], a))
            if not t.startswith(b"<" + a + b">:\n"):
                keys = [l.split(b":")[0].strip().lower() for l in c["vdoms"].split(b"\n") if b":" in l and not l.startswith(b"#")]
                full = a.lower() in keys
                fails.append(("bounce:full-address-vdom-prefix-kept" if full else "bounce:wrong-recipient-shown",
                              dict(kind="configuration", virtualdomains=c["vdoms"].decode("latin1"), locals=c["locals"].decode("latin1"), address=a.decode("latin1"),
                                   routed_as=routed.decode("latin1"), notice_head=t[:80].decode("latin1")), len(a)))
    # ---- an address the routing left alone (remote, e.g. through an empty-tag exception under a tagged wildcard) is named verbatim,
    #      also when its local part happens to begin with the wildcard's tag
    for ci in range(60 if ck.thorough else 24):
        tag = rng.choice(TAGS)
        wild, exc, dom = rng.choice([(b".a.dom", b"b.a.dom", b"b.a.dom"), (b".a.dom", b".b.a.dom", b"c.b.a.dom"), (b"", b"x.org", b"x.org"), (b"", b".w.dom", b"sub.w.dom"),
                                     (b".dom", b"a.dom", b"a.dom"), (b".a.dom", b"b.a.dom", b"B.A.dom")])
        lines = [flipcase(rng, wild) + b":" + tag, flipcase(rng, exc) + b":"]
        if rng.random() < 0.5: lines.append(b"hack.dom:t2")
        rng.shuffle(lines)
        c = dict(env=b"def.host", locals=b"local.dom\n", pct=b"", vdoms=b"\n".join(lines) + b"\n")
        h.write_ctl(c); assert h.cmd("ctl") == "ok"
        for a in [tag + b"-" + rng.choice(USERS) + b"@" + dom, tag + b"-@" + dom, rng.choice(USERS) + b"@" + dom, tag + b"@" + dom]:
            rw = h.cmd("rw " + vlib.hx(a))
            ck.evaluated(); ck.count("bounce_names_unrouted"); ck.nontrivial(("unrouted", c["vdoms"], a))
            if rw != "R " + vlib.hx(a):
                mism.append(dict(kind="configuration", virtualdomains=c["vdoms"].decode("latin1"), address=a.decode("latin1"), rewrite=rw, expected="remote, unchanged")); continue
            t = vlib.unhx(h.cmd("bounce %s %s" % (vlib.hx(a), vlib.hx(b"failed"))))
            if not t.startswith(b"<" + a + b">:\n"):
                fails.append(("bounce:wrong-recipient-shown", dict(kind="configuration", virtualdomains=c["vdoms"].decode("latin1"), locals="local.dom\n", address=a.decode("latin1"),
                                                                     routed_as=a.decode("latin1"), notice_head=t[:80].decode("latin1")), len(a)))
            sv, _, _ = vlib.run_lines(drv, ["svp %s %s" % (vlib.hx(c["vdoms"]), vlib.hx(a))])
            if vlib.unhx(sv[0]) != a: mism.append(dict(kind="configuration", virtualdomains=c["vdoms"].decode("latin1"), address=a.decode("latin1"), model_strip=sv[0]))
    # n recipients -> n paragraphs
    for k in range(0, len(cases) - 5, 5):
        grp = cases[k:k + 5]
        cat = "".join(x[3] for x in grp if x[3] != "-")
        n, _, _ = vlib.run_lines(drv, ["pstarts %s" % (cat or "-")])
        ck.evaluated(); ck.count("bounce_concat")
        if int(n[0]) != len([x for x in grp if x[3] != "-"]):
            fails.append(("bounce:paragraph-forged", dict(kind="input", fn="addbounce", items=[(x[1].decode("latin1"), x[2].decode("latin1")) for x in grp], paragraphs=n[0]), 999))
    # ---- the bounce markers survive forwarding: a local forward (real qmail-local) re-injects with the owner address as the
    #      sender only for ordinary messages; a bounce ("") and a double bounce ("#@[]") keep their sender, which is what lets
    #      qmail-send recognise and discard a failing double bounce further down the chain
    from C13 import Home
    H = Home(rb); drv13 = vlib.build_driver("C13")
    for owner in (None, ".qmail-pm-owner", ".qmail-pm-owner-default", ".qmail-default"):
        for snd in [b"", b"#@[]", b"s@x.example", b"#@[]x", b"#", b"#@[]-@[]"]:
            files = {".qmail-pm": ("file", 0o600, b"&admin@offsite.example\n")}
            if owner: files[owner] = ("file", 0o600, b"&boss@offsite.example\n")
            if owner == ".qmail-pm-owner-default": files[".qmail-pm-owner"] = ("file", 0o600, b"&boss@offsite.example\n")
            H.reset(files)
            rc, out, err = H.run(["alias", H.home, "pm", "-", "pm", "host.example", snd.decode(), ""], b"Subject: failure notice\n\nHi.\n")
            envf = open(H.qqout + ".env", "rb").read() if os.path.exists(H.qqout + ".env") else None
            ck.evaluated(); ck.count("forwarded_bounce_sender"); ck.nontrivial(("fw", owner, snd))
            has_owner = owner in (".qmail-pm-owner", ".qmail-pm-owner-default")      # only the exact owner file counts, never a default
            if snd in (b"", b"#@[]") or not has_owner: exp_s = snd
            elif owner == ".qmail-pm-owner-default": exp_s = b"pm-owner-@host.example-@[]"
            else: exp_s = b"pm-owner@host.example"
            exp_env = b"F" + exp_s + b"\0Tadmin@offsite.example\0\0"
            # the extracted Local/Owner.v forward_sender on the same file population
            o1 = "e" if has_owner else "a"; o2 = "e" if owner == ".qmail-pm-owner-default" else "a"
            mfs, _, _ = vlib.run_lines(drv13, ["fws %s %s %s %s %s %s %s" % (vlib.hx(snd), vlib.hx(b"pm"), vlib.hx(b"host.example"), vlib.hx(b"-"), vlib.hx(b"pm"), o1, o2)])
            if mfs[0] != "S " + vlib.hx(exp_s) and not (rc != 0 or envf != exp_env):
                mism.append(dict(kind="configuration", fn="forward_sender", qmail_files=sorted(files), sender=snd.decode(), observed_envelope=None if envf is None else envf.decode("latin1"), model=mfs[0]))
            if rc != 0 or envf != exp_env:
                key = "bounce:marker-sender-lost-in-forward" if snd in (b"", b"#@[]") else "bounce:forward-envelope"
                fails.append((key, dict(kind="configuration", fn="qmail-local forward", qmail_files=sorted(files), sender=snd.decode(), exit=rc, stderr=err.decode("latin1")[:200],
                                        observed_envelope=None if envf is None else envf.decode("latin1"), expected_envelope=exp_env.decode("latin1")), len(snd)))
    # ---- who gets the notice
    senders = [b"joe@a.dom", b"", b"#@[]", b"owner-@host-@[]", b"list-owner-@lists.dom-@[]", b"x-@[]", b"-@[]", b"#@[]-@[]", b"a b@c", b"\"q\"@d", b"J@A.DOM", b"-@[]-@[]", b"@[]", b"#@[]x"]
    for _ in range(60 if ck.thorough else 20):
        senders.append(bytes(rng.choice(b"ab@-[]#.") for _ in range(rng.randint(0, 8))) + rng.choice([b"", b"-@[]"]))
    for ci in range(3):
        c = gen_ctl(rng)
        dbt, dbh = rng.choice([(b"postmaster", b"dbl.host"), (b"admin", b"a.dom"), (None, None)])
        cd = os.path.join(h.home, "control")
        for f, v in (("doublebounceto", dbt), ("doublebouncehost", dbh)):
            p = os.path.join(cd, f)
            if v is None:
                if os.path.exists(p): os.remove(p)
            else:
                open(p, "wb").write(v + b"\n")
        h.write_ctl(c); assert h.cmd("ctl") == "ok"
        dto = (dbt or b"postmaster") + b"@" + (dbh or b"me.host")
        for s in senders:
            for ex in (0, 53, 31):
                for f in (".msg", ".env"):
                    if os.path.exists(h.qqout + f): os.remove(h.qqout + f)
                open(h.qqout + ".exit", "w").write(str(ex))
                res = h.cmd("inject " + vlib.hx(s))
                env = open(h.qqout + ".env", "rb").read() if os.path.exists(h.qqout + ".env") else None
                msg = open(h.qqout + ".msg", "rb").read() if os.path.exists(h.qqout + ".msg") else None
                ml, _, _ = vlib.run_lines(drv, ["plan %s %s" % (vlib.hx(dto), vlib.hx(s))])
                w = ml[0].split()
                ck.evaluated(); ck.count("inject_" + w[0])
                ck.nontrivial(("i", s, ex))
                obj = dict(kind="input", fn="injectbounce", sender=s.decode("latin1"), qq_exit=ex, doublebounceto=dto.decode("latin1"),
                           result=res, envelope=None if env is None else env.decode("latin1"), model=ml[0])
                base = s[:-4] if len(s) >= 4 and s.endswith(b"-@[]") else s
                # independent statement of the rule
                if base == b"#@[]":
                    exp_env = None
                elif base == b"":
                    exp_env = b"F#@[]\0T" + dto + b"\0\0"
                else:
                    exp_env = b"F\0T" + base + b"\0\0"
                if env != exp_env:
                    key = "bounce:loop-or-wrong-envelope" if (env is not None and exp_env is not None and not env.startswith(exp_env[:2] if exp_env.startswith(b"F\0") else b"F#@[]")) else "bounce:wrong-envelope"
                    fails.append((key, obj, len(s)))
                    continue
                committed = exp_env is None or ex == 0
                want = "ret=%d bouncefile=%d" % (1 if committed else 0, 0 if committed else 1)
                if res != want:
                    fails.append(("bounce:record-removed-without-commit" if "bouncefile=0" in res and not committed else "bounce:result", obj, len(s)))
                    continue
                if msg is not None and (b"<x@y>:\nfailed\n\n" not in msg or b"Subject: orig" not in msg):
                    fails.append(("bounce:notice-content", obj, len(s)))
                mexp = None if w[0] == "X" else (b"F" + vlib.unhx(w[1]) + b"\0T" + vlib.unhx(w[2]) + b"\0\0")
                if mexp != env:
                    mism.append(obj)
    h.close()
    ck.cov["disagreements_checked"] = len(mism)
    ck.cov["rule"] = ("recipients (with and without virtual-domain prefixes, LF in the address) x failure reports assembled from hostile fragments (blank lines, "
                      "forged '<addr>:' lines, 8-bit, long) through the real addbounce(); groups of 5 concatenated; sender forms (ordinary, empty, #@[], VERP, "
                      "degenerate) x queue exit 0/53/31 x doublebounceto settings through the real injectbounce(). non-trivial = distinct (recipient, report) / (sender, exit)")
    ck.sample(dict(fn="addbounce", recipient=cases[3][1].decode("latin1"), report=cases[3][2].decode("latin1")[:80]))
    ck.sample(dict(fn="injectbounce", sender="owner-@host-@[]", qq_exit=0))
    fails.sort(key=lambda x: x[2])
    seen = set()
    for key, obj, _ in fails:
        if key in seen:
            continue
        seen.add(key)
        ck.violation(key, obj, what="real %s: %s" % (obj.get("fn", "qmail-send"), key))
    fails = [f for f in fails if f[0] not in ck.known]
    if mism and not fails:
        ck.violation("correspondence", dict(kind="correspondence", broken="Send/Route.v addbounce_text/stripvdomprepend/bounce_plan = qmail-send.c", first=mism[0], n=len(mism)),
                     nofail=True, what="model and implementation disagree but the direct oracles hold")
    ck.proof_failure_violation(bool(fails))
    ck.finish(trusted_base=[vlib.KERNEL_TB, vlib.EXTRACTION_TB, "harness/h_send.c (#include qmail-send.c)", "harness/qqstub.sh (stand-in qmail-queue recording fd 0 and fd 1)"],
              assumptions=["failure reports and addresses are C strings (no NUL), as del_dochan hands them over",
                           "the messdone/injectbounce ordering in the daemon (bounce record unlinked only after the notice is committed) is checked here at function level; daemon histories are C03"])

def replay(path):
    obj = json.load(open(path))
    rb = vlib.RepoBuild(); h = SendHarness(rb); drv = vlib.build_driver("C10")
    if obj.get("fn") == "addbounce" and "recipient" in obj:
        h.write_ctl(dict(env=b"def.host", locals=b"", pct=b"", vdoms=obj.get("virtualdomains", "").encode("latin1"))); h.cmd("ctl")
        impl = h.cmd("bounce %s %s" % (vlib.hx(obj["recipient"].encode("latin1")), vlib.hx(obj["report"].encode("latin1"))))
        p, _, _ = vlib.run_lines(drv, ["pstarts " + impl])
        print("text", vlib.unhx(impl), "paragraph starts", p[0])
        h.close(); vlib._cleanup()
        return 0 if p[0] == "1" else 1
    h.close(); vlib._cleanup()
    return 0
