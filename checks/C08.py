"""C08 - SMTP transactions are well-sequenced and relaying is gated by policy.

proof: coq/Props/Properties_C08.v
tie:   the real qmail-smtpd (stand-in qmail-queue recording every submission) on generated command
       sequences x configurations (rcpthosts, morercpthosts.cdb built by the real qmail-newmrh,
       badmailfrom, localiphost, databytes, RELAYCLIENT): reply codes, submissions (sender, recipients
       in order) and exit status against the extracted session model; an independent Python reference
       of the documented behaviour is the oracle."""
import json, sys, os, subprocess
import vlib, re
from smtp_common import *

PID = "C08"

def addrparse_stream(ck, rb, drv, mism):
    """addrparse() of qmail-smtpd.c (function harness, localiphost set and unset, the host's own addresses as ipme_init() finds them)
    = the model's addrparse = the Gallina generated from today's addrparse() by tools/c2gallina.py (with every array access checked)."""
    try:
        h = rb.harness("h_addrparse2", "qmail-smtpd"); gen = vlib.build_driver("GEN")
    except (vlib.HarnessBuildError, RuntimeError) as e:
        mism.append(dict(kind="translator", what="h_addrparse2.c or the generated addrparse() does not build", log=str(e)[-600:])); return
    rng = ck.rng
    own, _, _ = vlib.run_lines(h, ["ipme"])
    own = own[0].strip()
    if not re.match(r"^(-|([0-9a-f]{8})+)$", own):
        mism.append(dict(kind="harness", what="ipme_init() failed in the harness", got=own[:100])); return
    ips = [] if own == "-" else [bytes.fromhex(own[i:i + 8]) for i in range(0, len(own), 8)]
    lits = [b"[%d.%d.%d.%d]" % tuple(ip) for ip in ips] + [b"[127.0.0.1]", b"[0.0.0.0]", b"[10.9.8.7]", b"[127.0.0.1", b"[127.0.0.1]x", b"[383.0.0.257]", b"[127.0.0.01]", b"[1.2.3]", b"[]", b"[127.0.0.1]]",
                                                                 b"[18446744073709551743.0.0.1]", b"[.0.0.1]", b"[127.0.0.1.]"]
    args = []
    for _ in range(1500 if ck.thorough else 400):
        k = rng.random()
        if k < 0.45: a = gen_addr(rng)
        elif k < 0.8:
            u = rng.choice([b"joe", b"a@b", b"\"q\"", b"x\\@y", b""]); a = rng.choice([b"<", b"", b"<@r.example,@s:", b" : "]) + u + b"@" + rng.choice(lits) + rng.choice([b">", b"", b"> SIZE=1", b" "])
        else: a = bytes(rng.choice(b"<>@:\" \\ab.[]1") for _ in range(rng.randint(0, 14)))
        if b"\0" in a or b"\n" in a: continue
        args.append((a, rng.choice([0, 1, 1]), rng.choice([b"lip.host", b"", b"x" * rng.choice([1, 890, 899, 900])])))
    ipme_dots = ",".join("%d.%d.%d.%d" % tuple(ip) for ip in ips) or "-"
    A, _, _ = vlib.run_lines(h, ["ap %s %d %s" % (vlib.hx(a), ok, vlib.hx(lh)) for a, ok, lh in args])
    M, _, _ = vlib.run_lines(drv, ["ap %s %s %s" % (vlib.hx(lh) if ok else "N", ipme_dots, vlib.hx(a)) for a, ok, lh in args])
    G, _, _ = vlib.run_lines(gen, ["ap %s %d %s %s" % (vlib.hx(a), ok, vlib.hx(lh), own) for a, ok, lh in args])
    for (a, ok, lh), x, m, g in zip(args, A, M, G):
        ck.evaluated(); ck.count("addrparse_fn"); ck.nontrivial(("ap", a, ok, lh))
        xm = "N" if x == "F" else (x[2:] if x.startswith("S ") else x)
        if x.startswith("S ") and xm == "-": xm = ""
        obj = dict(kind="input", component="qmail-smtpd addrparse()", arg=a.decode("latin1"), liphostok=ok, liphost=lh.decode("latin1")[:40], own_addresses=ipme_dots, observed=x[:200], model=m[:200], generated=g[:200])
        if xm != (m if m != "-" else ""): mism.append(obj)
        elif x != g: mism.append(dict(obj, kind="translator", what="generated addrparse() and C addrparse() disagree"))

def main():
    ck = vlib.Check(PID, "proof")
    rb = vlib.RepoBuild()
    if not rb.ok:
        print("repository does not build:\n" + rb.log[-2000:]); sys.exit(2)
    ck.proofs(srcdir=rb.dir)
    drv = vlib.build_driver("C08")
    S = Smtpd(rb)
    rng = ck.rng
    jobs = []
    for ci in range(60 if ck.thorough else 22):
        c = gen_cfg(rng)
        S.configure(c)
        for _ in range(25 if ck.thorough else 14):
            data = gen_session(rng, c)
            exits = [rng.choice([0, 0, 0, 31, 53, 11, 81]) for _ in range(4)]
            out, rc, subs = S.run(c, data, exits)
            jobs.append((c, data, exits, out, rc, subs))
    # directed: bad-sender list against senders whose local part contains @, quotes, escapes, source routes, case
    cb = dict(gen_cfg(rng), rcpthosts=[b"ok.dom"], morercpthosts=[], badmailfrom=[b"@bad.dom", b"spam@x.dom"], relayclient=None, databytes=0, localiphost=None)
    S.configure(cb)
    for snd in [b"<joe@bad.dom>", b"<JOE@BAD.DOM>", b"<\"joe@home\"@bad.dom>", b"<joe\\@home@bad.dom>", b"<@r.example:\"a@b\"@bad.dom>", b"<spam@x.dom>", b"<SPAM@X.dom>",
                b"<spam@x.dom@ok.dom>", b"<ok@ok.dom>", b"<@bad.dom>", b"<x@sub.bad.dom>", b"<joe@bad.dom.>", b"joe@bad.dom", b"<>"]:
        data = b"MAIL FROM:" + snd + b"\r\nRCPT TO:<joe@ok.dom>\r\nDATA\r\nhi\r\n.\r\nQUIT\r\n"
        out, rc, subs = S.run(cb, data, [0])
        jobs.append((cb, data, [0], out, rc, subs))
    # directed: IP-literal domains of this host in sender and recipient, accepted (relaying enabled / no rcpthosts), with
    # control/localiphost present and absent (it then defaults to control/me): the envelope shows the substituted host
    for lip in (None, b"lip.host"):
        for rl, rh in ((b"", [b"ok.dom"]), (None, None), (b"@relay.hack", [b"ok.dom"])):
            cl = dict(gen_cfg(rng), rcpthosts=rh, morercpthosts=[], badmailfrom=None, relayclient=rl, databytes=0, localiphost=lip, unterminated=False)
            S.configure(cl)
            for snd, rcp in [(b"s@[127.0.0.1]", b"x@[127.0.0.1]"), (b"joe\\@home@[127.0.0.1]", b"x@[0.0.0.0]"), (b"s@[10.9.8.7]", b"x@[127.0.0.1]x"), (b"s@x.example", b"\"a@b\"@[127.0.0.1]")]:
                data = b"MAIL FROM:<" + snd + b">\r\nRCPT TO:<" + rcp + b">\r\nDATA\r\nhi\r\n.\r\nQUIT\r\n"
                out, rc, subs = S.run(cl, data, [0])
                jobs.append((cl, data, [0], out, rc, subs))
    # directed: every letter of the alphabet, in either case on either side, in both constmap-backed lists
    import string
    for L in string.ascii_lowercase:
        l = L.encode(); U = l.upper()
        cz = dict(gen_cfg(rng), rcpthosts=[b"ok.dom", b"a" + U + b"b.dom", b"." + U + U + b".dom", l + b"x.dom"], morercpthosts=[], badmailfrom=[b"@s" + l + b".dom", b"q" + U + b"@x.dom"],
                  relayclient=None, databytes=0, localiphost=None)
        S.configure(cz)
        for snd, rcp in [(b"a@s" + U + b".dom", b"joe@ok.dom"), (b"q" + l + b"@x.dom", b"joe@ok.dom"), (b"ok@x.example", b"joe@a" + l + b"b.dom"), (b"ok@x.example", b"joe@sub." + l + U + b".dom"),
                         (b"ok@x.example", b"joe@" + U + b"x.dom"), (b"ok@x.example", b"joe@" + l + b"y.dom")]:
            data = b"MAIL FROM:<" + snd + b">\r\nRCPT TO:<" + rcp + b">\r\nDATA\r\nhi\r\n.\r\nQUIT\r\n"
            out, rc, subs = S.run(cz, data, [0])
            jobs.append((cz, data, [0], out, rc, subs))
    ml, _, _ = vlib.run_lines(drv, ["sess %s %s %s" % (cfg_args(c), vlib.hx(d), ",".join("%d:-" % e for e in ex)) for c, d, ex, _, _, _ in jobs])
    fails, mism = [], []
    import gen_common; gen_common.translator_selfcheck(ck, rb, mism)
    addrparse_stream(ck, rb, drv, mism)
    # directed: an unreadable / truncated compiled extra list.  The lookup then fails; whatever the server answers,
    # a recipient whose domain is on no list must not get 250 and nothing may be handed to the queue for it.
    cm = dict(gen_cfg(rng), rcpthosts=[b"ok.dom"], morercpthosts=[b"more.dom", b".more.dom"], badmailfrom=None, relayclient=None, databytes=0, localiphost=None)
    S.configure(cm)
    cdbp = os.path.join(S.cd, "morercpthosts.cdb")
    whole = open(cdbp, "rb").read()
    for cut in [0, 1, 7, 100, 1024, 2047, 2048, len(whole) // 2 + 1024, len(whole) - 1]:
        open(cdbp, "wb").write(whole[:cut])
        for dom in [b"unlisted.dom", b"sub.unlisted.dom", b"notok.dom"]:
            data = b"MAIL FROM:<s@x.example>\r\nRCPT TO:<joe@" + dom + b">\r\nDATA\r\nhi\r\n.\r\nQUIT\r\n"
            out, rc, subs = S.run(cm, data, [0])
            ck.evaluated(); ck.count("broken_cdb_sessions")
            codes = reply_codes(out)[1:]
            done = [env for _, env in subs if env.endswith(b"\0\0")]
            if (len(codes) > 1 and codes[1] == 250) or done:
                fails.append(("smtpd:accepted-what-policy-refuses", dict(kind="input", config="rcpthosts=ok.dom; morercpthosts.cdb = first %d of %d bytes of the file qmail-newmrh compiled from more.dom/.more.dom" % (cut, len(whole)),
                              session=data.decode(), observed_codes=codes, observed_submissions=[e.decode("latin1") for e in done]), cut))
    os.remove(cdbp)
    # ---- the concrete tables (Base/Cdb.v, Base/Constmap.v, Local/NewU.v, Smtp/RcptHosts.v) against the real code:
    #      (1) the file qmail-newmrh writes = newmrh_image(text), byte for byte; (2) the table constmap_init builds =
    #      the model's (mask, bucket heads, per-entry length/hash/next) and every lookup agrees; (3) rcpthosts() of the real
    #      qmail-smtpd on intact, truncated and damaged files answers 250 / 553 / 421 exactly where rcpthosts_c says Yes / No / Error
    tdrv = vlib.build_driver("TBL")
    objs_, libs_ = rb.link_deps("qmail-smtpd")
    hcm = rb.compile_harness(os.path.join(vlib.VERIF, "harness", "h_cmap.c"), os.path.join(vlib.scratch(), "h_cmap"), objs=[o for o in objs_ if o != "constmap.o"], libs=libs_)
    hcdb = rb.harness("h_cdb", "qmail-newmrh", extra_objs=["cdb.a"])
    cdbtmp = os.path.join(vlib.scratch(), "h_cdb.tmp")
    LONG33 = b"a" * 29 + b".dom"; LONG46 = b"host-with-a-rather-long-name.sub.example.dom.xx"; LONG70 = b"x" * 31 + b"." + b"y" * 34 + b".dom"
    PIECES = [b"more.dom", b".More.DOM", b"# comment", b"", b" ", b"x.y \t ", b"  lead", b"#", b"a\tb", b"dup", b"dup", b"ZONE.example", b".zz.Dom", b"jazz.dom",
              LONG33, b"." + LONG46, LONG70, LONG33[:-1] + b"n", b"b" * 32]
    texts = [b"more.dom\n.more.dom\n", b"", b"\n", b"no-newline-at-end", LONG33 + b"\n." + LONG46 + b"\n" + LONG70 + b"\nb" + b"b" * 31 + b"\n"]
    for _ in range(40 if ck.thorough else 12):
        t = b"".join(rng.choice(PIECES) + rng.choice([b"\n", b"\n", b" \n", b"\t\n"]) for _ in range(rng.randint(0, 9)))
        texts.append(t[:-1] if t and rng.random() < 0.3 else t)
    texts.insert(1, b"".join(b"h%d.bulk.dom\n" % k for k in range(400)))          # many records: collisions, long probe chains, wrap-around
    imgs = []
    for t in texts:
        open(os.path.join(S.cd, "morercpthosts"), "wb").write(t)
        if os.path.exists(cdbp): os.remove(cdbp)
        r_ = subprocess.run([rb.path("qmail-newmrh")], env=vlib.shim_env(S.home), cwd=S.home, stdout=subprocess.PIPE, stderr=subprocess.PIPE)
        imgs.append(open(cdbp, "rb").read() if r_.returncode == 0 and os.path.exists(cdbp) else None)
    mimg, _, _ = vlib.run_lines(tdrv, ["newmrh " + vlib.hx(t) for t in texts])
    for t, real, m_ in zip(texts, imgs, mimg):
        ck.evaluated(); ck.count("newmrh_images"); ck.nontrivial(("mrh", t))
        if real is None or vlib.hx(real) != m_:
            mism.append(dict(kind="input", component="qmail-newmrh", text=t.decode("latin1")[:300], real_len=None if real is None else len(real), model_len=len(m_) // 2,
                             first_difference=None if real is None else next((i for i, (a_, b_) in enumerate(zip(vlib.hx(real), m_)) if a_ != b_), None)))
    # lookups through the real reader on intact and damaged images, and the whole rcpthosts() through the real qmail-smtpd
    rhl = [b"ok.dom", b"Plaza.Example"]
    crh = dict(gen_cfg(rng), rcpthosts=rhl, morercpthosts=[], badmailfrom=None, relayclient=None, databytes=0, localiphost=None)
    S.configure(crh)
    rhbuf = b"".join(x + b"\0" for x in rhl)
    glines, sess = [], []
    for t, real in list(zip(texts, imgs))[:(len(texts) if ck.thorough else 10)]:
        if real is None: continue
        variants = [real]
        for _ in range(3):
            k_ = rng.random()
            if k_ < 0.5: variants.append(real[:rng.randrange(len(real) + 1)])
            else:
                i_ = rng.randrange(len(real)) if k_ < 0.8 else rng.randrange(0, 2048)
                variants.append(real[:i_] + bytes([rng.randrange(256)]) + real[i_ + 1:])
        for img in variants:
            if len(img) > 20000 or (len(img) > 9000 and img is not real): continue
            doms = [b"more.dom", b"sub.more.dom", b"MORE.dom", b"x.y", b"a\tb", b"zone.example", b"q.zz.dom", b"unlisted.dom", b"ok.dom", b"dup", b"lead",
                    LONG33, b"sub." + LONG46, LONG70, LONG33[:-1] + b"n", LONG33 + b"x", b"b" * 32, b"b" * 33]
            if img is real and len(real) > 9000: doms = [b"h%d.bulk.dom" % k for k in range(400)] + [b"h400.bulk.dom", b"bulk.dom"]     # every record of a large file
            for dom in doms:
                glines.append("get %s %s" % (vlib.hx(img), vlib.hx(dom.lower())))
                sess.append((img, dom))
    ga, _, _ = vlib.run_lines([hcdb, cdbtmp], glines)
    gb, _, _ = vlib.run_lines(tdrv, glines)
    for l_, x_, y_ in zip(glines, ga, gb):
        ck.evaluated(); ck.count("cdb_lookups_" + x_[:1])
        if x_ != y_: mism.append(dict(kind="input", component="cdb_seek", query=l_[:200], real=x_, model=y_))
    def listed(text, dom):
        # independent reading of the documented rule: lower-cased entries of the text, exact or dot-suffix wildcard
        ents = set()
        for l_ in text.split(b"\n"):
            l_ = l_.lower().rstrip(b" \t")
            if l_ and not l_.startswith(b"#"): ents.add(l_)
        d_ = dom.lower()
        return d_ in ents or any(d_[k:] in ents for k in range(len(d_)) if d_[k:k + 1] == b".")
    img_text = {id(real): t for t, real in zip(texts, imgs) if real is not None}
    must = [(img, dom) for img, dom in sess if id(img) in img_text and (len(dom) > 30 or dom.startswith(b"h1") or dom in (b"more.dom", b"sub.more.dom", b"unlisted.dom"))]
    must = must[:60] if not ck.thorough else must
    rest = [x for x in sess if x not in must]
    sub = sess if ck.thorough else must + rng.sample(rest, min(len(rest), 90))
    rl, _, _ = vlib.run_lines(tdrv, ["rh %s %s %s" % (vlib.hx(rhbuf), vlib.hx(img), vlib.hx(b"joe@" + dom)) for img, dom in sub])
    for (img, dom), mr in zip(sub, rl):
        open(cdbp, "wb").write(img)
        data = b"MAIL FROM:<s@x.example>\r\nRCPT TO:<joe@" + dom + b">\r\nQUIT\r\n"
        out, rc, subs = S.run(crh, data, [0])
        codes = reply_codes(out)[1:]
        ck.evaluated(); ck.count("rcpthosts_on_files_" + mr)
        ck.nontrivial(("rhf", img, dom))
        want = {"Y": 250, "N": 553, "E": 421}[mr]
        got = codes[1] if len(codes) > 1 else None
        obj = dict(kind="input", config="rcpthosts=ok.dom,Plaza.Example; morercpthosts.cdb = %d bytes (hex %s...)" % (len(img), img[:24].hex()), session=data.decode("latin1"), observed_codes=codes, model=mr)
        if got == 250 and mr != "Y" and not any(k in dom.lower() for k in [b"ok.dom"]):
            fails.append(("smtpd:accepted-what-policy-refuses", obj, len(img)))
        elif id(img) in img_text and got != 250 and (listed(img_text[id(img)], dom) or dom.lower() in (b"ok.dom", b"plaza.example")):
            # the file is the one qmail-newmrh just compiled from a text that lists this domain
            fails.append(("smtpd:rejected-what-policy-accepts", dict(obj, morercpthosts_text=img_text[id(img)].decode("latin1")[:300]), len(dom)))
        elif got != want: mism.append(obj)
    if os.path.exists(cdbp): os.remove(cdbp)
    # constmap: structure and lookups
    cl = []
    for _ in range(60 if ck.thorough else 20):
        n_ = rng.choice([0, 1, 2, 5, 20, 63, 64, 65, 130])
        alpha = rng.choice([b"abAB@.", b"azAZ@.x", bytes(range(1, 256))])
        ls_ = [bytes(rng.choice(alpha) for _ in range(rng.choice([0, 1, 2, 3, 5, 9]))) for _ in range(n_)]
        buf = b"".join(l + b"\0" for l in ls_)
        cl.append("dump 0 %s" % vlib.hx(buf))
        for _ in range(5):
            k_ = rng.choice(ls_) if ls_ and rng.random() < 0.7 else bytes(rng.choice(alpha) for _ in range(rng.randint(0, 4)))
            k_ = bytes((c_ ^ 0x20) if (65 <= c_ <= 90 or 97 <= c_ <= 122) and rng.random() < 0.4 else c_ for c_ in k_)
            cl.append("cm 0 %s %s" % (vlib.hx(buf), vlib.hx(k_)))
    for c_ in range(256): cl.append("hash %02x61" % c_)
    ca, _, _ = vlib.run_lines(hcm, cl)
    cb, _, _ = vlib.run_lines(tdrv, [l.replace("hash ", "cmhash ") for l in cl])
    for l_, x_, y_ in zip(cl, ca, cb):
        ck.evaluated(); ck.count("constmap_" + l_.split()[0])
        if x_ != y_: mism.append(dict(kind="input", component="constmap", query=l_[:200], real=x_[:200], model=y_[:200]))
    for (c, data, exits, out, rc, subs), m in zip(jobs, ml):
        ck.evaluated(); ck.count("sessions")
        ck.nontrivial((str(sorted((k, str(v)) for k, v in c.items())), data))
        codes = reply_codes(out)[1:]
        rcodes, rsubs, rexit = ref_session(data, c, exits)
        obs_subs = []
        for msg, env in subs:
            mm = re.match(rb"^F([^\0]*)\0((?:T[^\0]*\0)*)\0?$", env, re.S)
            obs_subs.append((env, None if not mm else (mm.group(1), [x[1:] for x in mm.group(2).split(b"\0") if x])))
        cdesc = {k: (v if not isinstance(v, (bytes, list)) else (v.decode("latin1") if isinstance(v, bytes) else [x.decode("latin1") for x in v])) for k, v in c.items()}
        obj = dict(kind="input", config=cdesc, session=data.decode("latin1")[:1500], queue_exits=exits, observed_codes=codes, expected_codes=rcodes,
                   observed_submissions=[e.decode("latin1")[:300] for e, _ in obs_subs], expected_submissions=[(s[2].decode("latin1"), [r.decode("latin1") for r in s[3]], s[4]) for s in rsubs],
                   exit=rc, expected_exit=rexit, model=m[:600])
        bad = None
        if codes != rcodes or rc != rexit: bad = "smtpd:replies"
        # a submission counts when the queue program was handed a complete envelope (F.. T.. NUL); a DATA that was
        # refused or cut short may still have started the queue program with an incomplete envelope: that queues nothing
        oc = [(env, parsed) for env, parsed in obs_subs if env.endswith(b"\0\0") and parsed is not None]
        rc_ = [x for x in rsubs if x[4]]
        if len(oc) != len(rc_): bad = "smtpd:refused-message-queued" if len(oc) > len(rc_) else "smtpd:accepted-message-not-queued"
        else:
            for (env, parsed), (helo, body, sender, rcpts, complete) in zip(oc, rc_):
                if parsed[0] != sender or parsed[1] != rcpts:
                    bad = "smtpd:wrong-envelope-submitted"
        if bad:
            # sharpen the key for relay-policy failures
            if bad == "smtpd:replies":
                for a, b in zip(codes, rcodes):
                    if a != b:
                        if a == 250 and b in (553, 503, 555): bad = "smtpd:accepted-what-policy-refuses"
                        break
            fails.append((bad, obj, len(data)))
            continue
        # correspondence with the Coq model: codes, exit, and the submissions' envelope parts
        mc, msubs, mex = [x.strip() for x in m.split("|")]
        if [int(x) for x in mc.split(",") if x] != codes or (mex != "-" and int(mex) != rc):
            mism.append(obj)
    ck.cov["disagreements_checked"] = len(mism)
    ck.cov["rule"] = ("configurations (rcpthosts present/absent with exact and dot-wildcard entries, mixed case, morercpthosts.cdb compiled by qmail-newmrh, badmailfrom with address/@domain entries, "
                      "localiphost, databytes, RELAYCLIENT empty/suffix/unset, hostile TCPREMOTEHOST/TCPREMOTEINFO) x sessions of 1-10 commands over HELO/EHLO/MAIL/RCPT/DATA/RSET/NOOP/VRFY/HELP/unknown/QUIT "
                      "with addresses in bracket, bracketless, quoted, escaped, source-routed, no-@, empty, IP-literal and 880-1200-byte forms, CRLF and LF-only ends, pipelined DATA bodies (hop counts 98-101, sizes "
                      "around databytes, bare LF, truncated), queue exits 0/11/31/53/81. non-trivial = distinct (configuration, session)")
    ck.sample(dict(session=jobs[5][1].decode("latin1")[:400], codes=reply_codes(jobs[5][3])[1:]))
    fails.sort(key=lambda x: x[2])
    seen = set()
    for key, obj, _ in fails:
        if key in seen: continue
        seen.add(key)
        ck.violation(key, obj, what="real qmail-smtpd: " + key)
    if mism and not fails:
        ck.violation("correspondence", dict(kind="correspondence", broken="Smtp/Smtpd.v session = qmail-smtpd.c", first=mism[0], n=len(mism)),
                     nofail=True, what="model and implementation disagree but the reference oracle holds")
    ck.proof_failure_violation(bool(fails))
    ck.finish(trusted_base=[vlib.KERNEL_TB, vlib.EXTRACTION_TB, "checks/smtp_common.py (generators, the independent Python reference, running qmail-smtpd with harness/qqstub_multi.sh)"],
              assumptions=["ipme: the local addresses are 127.0.0.1 and 0.0.0.0 (what the sandbox's interfaces give)", "timeouts and resource exhaustion (421/451 timeout) are outside the model",
                           "reply texts are compared only through their codes"])

def replay(path):
    obj = json.load(open(path))
    print("re-run ./check C08 (deterministic for the same VERIF_SEED); recorded case:", json.dumps(obj)[:1200])
    return 0
