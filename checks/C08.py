"""C08 - SMTP transactions are well-sequenced and relaying is gated by policy.

proof: coq/Props/Properties_C08.v
tie:   the real qmail-smtpd (stand-in qmail-queue recording every submission) on generated command
       sequences x configurations (rcpthosts, morercpthosts.cdb built by the real qmail-newmrh,
       badmailfrom, localiphost, databytes, RELAYCLIENT): reply codes, submissions (sender, recipients
       in order) and exit status against the extracted session model; an independent Python reference
       of the documented behaviour is the oracle."""
import json, sys
import vlib
from smtp_common import *

PID = "C08"

def main():
    ck = vlib.Check(PID, "proof")
    rb = vlib.RepoBuild()
    if not rb.ok:
        print("repository does not build:\n" + rb.log[-2000:]); sys.exit(2)
    ck.proofs(srcdir=rb.dir)
    drv = vlib.build_driver("C08")
    S = Smtpd(rb)
    rng = ck.rng
    jobs = []
    for ci in range(60 if ck.thorough else 22):
        c = gen_cfg(rng)
        S.configure(c)
        for _ in range(25 if ck.thorough else 14):
            data = gen_session(rng, c)
            exits = [rng.choice([0, 0, 0, 31, 53, 11, 81]) for _ in range(4)]
            out, rc, subs = S.run(c, data, exits)
            jobs.append((c, data, exits, out, rc, subs))
    # directed: bad-sender list against senders whose local part contains @, quotes, escapes, source routes, case
    cb = dict(gen_cfg(rng), rcpthosts=[b"ok.dom"], morercpthosts=[], badmailfrom=[b"@bad.dom", b"spam@x.dom"], relayclient=None, databytes=0, localiphost=None)
    S.configure(cb)
    for snd in [b"<joe@bad.dom>", b"<JOE@BAD.DOM>", b"<\"joe@home\"@bad.dom>", b"<joe\\@home@bad.dom>", b"<@r.example:\"a@b\"@bad.dom>", b"<spam@x.dom>", b"<SPAM@X.dom>",
                b"<spam@x.dom@ok.dom>", b"<ok@ok.dom>", b"<@bad.dom>", b"<x@sub.bad.dom>", b"<joe@bad.dom.>", b"joe@bad.dom", b"<>"]:
        data = b"MAIL FROM:" + snd + b"\r\nRCPT TO:<joe@ok.dom>\r\nDATA\r\nhi\r\n.\r\nQUIT\r\n"
        out, rc, subs = S.run(cb, data, [0])
        jobs.append((cb, data, [0], out, rc, subs))
    # directed: every letter of the alphabet, in either case on either side, in both constmap-backed lists
    import string
    for L in string.ascii_lowercase:
        l = L.encode(); U = l.upper()
        cz = dict(gen_cfg(rng), rcpthosts=[b"ok.dom", b"a" + U + b"b.dom", b"." + U + U + b".dom", l + b"x.dom"], morercpthosts=[], badmailfrom=[b"@s" + l + b".dom", b"q" + U + b"@x.dom"],
                  relayclient=None, databytes=0, localiphost=None)
        S.configure(cz)
        for snd, rcp in [(b"a@s" + U + b".dom", b"joe@ok.dom"), (b"q" + l + b"@x.dom", b"joe@ok.dom"), (b"ok@x.example", b"joe@a" + l + b"b.dom"), (b"ok@x.example", b"joe@sub." + l + U + b".dom"),
                         (b"ok@x.example", b"joe@" + U + b"x.dom"), (b"ok@x.example", b"joe@" + l + b"y.dom")]:
            data = b"MAIL FROM:<" + snd + b">\r\nRCPT TO:<" + rcp + b">\r\nDATA\r\nhi\r\n.\r\nQUIT\r\n"
            out, rc, subs = S.run(cz, data, [0])
            jobs.append((cz, data, [0], out, rc, subs))
    ml, _, _ = vlib.run_lines(drv, ["sess %s %s %s" % (cfg_args(c), vlib.hx(d), ",".join("%d:-" % e for e in ex)) for c, d, ex, _, _, _ in jobs])
    fails, mism = [], []
    # directed: an unreadable / truncated compiled extra list.  The lookup then fails; whatever the server answers,
    # a recipient whose domain is on no list must not get 250 and nothing may be handed to the queue for it.
    cm = dict(gen_cfg(rng), rcpthosts=[b"ok.dom"], morercpthosts=[b"more.dom", b".more.dom"], badmailfrom=None, relayclient=None, databytes=0, localiphost=None)
    S.configure(cm)
    cdbp = os.path.join(S.cd, "morercpthosts.cdb")
    whole = open(cdbp, "rb").read()
    for cut in [0, 1, 7, 100, 1024, 2047, 2048, len(whole) // 2 + 1024, len(whole) - 1]:
        open(cdbp, "wb").write(whole[:cut])
        for dom in [b"unlisted.dom", b"sub.unlisted.dom", b"notok.dom"]:
            data = b"MAIL FROM:<s@x.example>\r\nRCPT TO:<joe@" + dom + b">\r\nDATA\r\nhi\r\n.\r\nQUIT\r\n"
            out, rc, subs = S.run(cm, data, [0])
            ck.evaluated(); ck.count("broken_cdb_sessions")
            codes = reply_codes(out)[1:]
            done = [env for _, env in subs if env.endswith(b"\0\0")]
            if (len(codes) > 1 and codes[1] == 250) or done:
                fails.append(("smtpd:accepted-what-policy-refuses", dict(kind="input", config="rcpthosts=ok.dom; morercpthosts.cdb = first %d of %d bytes of the file qmail-newmrh compiled from more.dom/.more.dom" % (cut, len(whole)),
                              session=data.decode(), observed_codes=codes, observed_submissions=[e.decode("latin1") for e in done]), cut))
    os.remove(cdbp)
    for (c, data, exits, out, rc, subs), m in zip(jobs, ml):
        ck.evaluated(); ck.count("sessions")
        ck.nontrivial((str(sorted((k, str(v)) for k, v in c.items())), data))
        codes = reply_codes(out)[1:]
        rcodes, rsubs, rexit = ref_session(data, c, exits)
        obs_subs = []
        for msg, env in subs:
            mm = re.match(rb"^F([^\0]*)\0((?:T[^\0]*\0)*)\0?$", env, re.S)
            obs_subs.append((env, None if not mm else (mm.group(1), [x[1:] for x in mm.group(2).split(b"\0") if x])))
        cdesc = {k: (v if not isinstance(v, (bytes, list)) else (v.decode("latin1") if isinstance(v, bytes) else [x.decode("latin1") for x in v])) for k, v in c.items()}
        obj = dict(kind="input", config=cdesc, session=data.decode("latin1")[:1500], queue_exits=exits, observed_codes=codes, expected_codes=rcodes,
                   observed_submissions=[e.decode("latin1")[:300] for e, _ in obs_subs], expected_submissions=[(s[2].decode("latin1"), [r.decode("latin1") for r in s[3]], s[4]) for s in rsubs],
                   exit=rc, expected_exit=rexit, model=m[:600])
        bad = None
        if codes != rcodes or rc != rexit: bad = "smtpd:replies"
        # a submission counts when the queue program was handed a complete envelope (F.. T.. NUL); a DATA that was
        # refused or cut short may still have started the queue program with an incomplete envelope: that queues nothing
        oc = [(env, parsed) for env, parsed in obs_subs if env.endswith(b"\0\0") and parsed is not None]
        rc_ = [x for x in rsubs if x[4]]
        if len(oc) != len(rc_): bad = "smtpd:refused-message-queued" if len(oc) > len(rc_) else "smtpd:accepted-message-not-queued"
        else:
            for (env, parsed), (helo, body, sender, rcpts, complete) in zip(oc, rc_):
                if parsed[0] != sender or parsed[1] != rcpts:
                    bad = "smtpd:wrong-envelope-submitted"
        if bad:
            # sharpen the key for relay-policy failures
            if bad == "smtpd:replies":
                for a, b in zip(codes, rcodes):
                    if a != b:
                        if a == 250 and b in (553, 503, 555): bad = "smtpd:accepted-what-policy-refuses"
                        break
            fails.append((bad, obj, len(data)))
            continue
        # correspondence with the Coq model: codes, exit, and the submissions' envelope parts
        mc, msubs, mex = [x.strip() for x in m.split("|")]
        if [int(x) for x in mc.split(",") if x] != codes or (mex != "-" and int(mex) != rc):
            mism.append(obj)
    ck.cov["disagreements_checked"] = len(mism)
    ck.cov["rule"] = ("configurations (rcpthosts present/absent with exact and dot-wildcard entries, mixed case, morercpthosts.cdb compiled by qmail-newmrh, badmailfrom with address/@domain entries, "
                      "localiphost, databytes, RELAYCLIENT empty/suffix/unset, hostile TCPREMOTEHOST/TCPREMOTEINFO) x sessions of 1-10 commands over HELO/EHLO/MAIL/RCPT/DATA/RSET/NOOP/VRFY/HELP/unknown/QUIT "
                      "with addresses in bracket, bracketless, quoted, escaped, source-routed, no-@, empty, IP-literal and 880-1200-byte forms, CRLF and LF-only ends, pipelined DATA bodies (hop counts 98-101, sizes "
                      "around databytes, bare LF, truncated), queue exits 0/11/31/53/81. non-trivial = distinct (configuration, session)")
    ck.sample(dict(session=jobs[5][1].decode("latin1")[:400], codes=reply_codes(jobs[5][3])[1:]))
    fails.sort(key=lambda x: x[2])
    seen = set()
    for key, obj, _ in fails:
        if key in seen: continue
        seen.add(key)
        ck.violation(key, obj, what="real qmail-smtpd: " + key)
    if mism and not fails:
        ck.violation("correspondence", dict(kind="correspondence", broken="Smtp/Smtpd.v session = qmail-smtpd.c", first=mism[0], n=len(mism)),
                     nofail=True, what="model and implementation disagree but the reference oracle holds")
    ck.proof_failure_violation(bool(fails))
    ck.finish(trusted_base=[vlib.KERNEL_TB, vlib.EXTRACTION_TB, "checks/smtp_common.py (generators, the independent Python reference, running qmail-smtpd with harness/qqstub_multi.sh)"],
              assumptions=["ipme: the local addresses are 127.0.0.1 and 0.0.0.0 (what the sandbox's interfaces give)", "timeouts and resource exhaustion (421/451 timeout) are outside the model",
                           "reply texts are compared only through their codes"])

def replay(path):
    obj = json.load(open(path))
    print("re-run ./check C08 (deterministic for the same VERIF_SEED); recorded case:", json.dumps(obj)[:1200])
    return 0
