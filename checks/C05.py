"""C05 - inbound SMTP DATA is decoded transparently and framed only by CRLF.CRLF.

proof: coq/Props/Properties_C05.v (theorems about Codec.sblast, the model of qmail-smtpd.c blast())
tie:   the real blast() (function harness, every read chunking for short streams) against the
       extracted sblast + hop counter; extracted oracle ok_C05 (= RFC 5321 reference decoder and
       framing) on the real output; round trip real-decoder(reference-encoder(m)) = m."""
import json, sys
import vlib
from codec_common import exhaustive, random_msgs

PID = "C05"
HDR = [b"Received: by x", b"received:", b"RECEIVED", b"ReCeIvEd: q", b"Delivered-To: a@b", b"DELIVERED-TO:", b"delivered",
       b"Receive", b"Delivere", b"X-Received: no", b" Received: folded", b"Subject: s", b"", b"Received", b"Delivered"]

def classify(s, res):
    if b".\r" in s:
        return "smtpd:dot-cr-nonlf"
    return "smtpd:decoding"

def gen_cases(ck):
    L = 10 if ck.thorough else 8
    cases = [(s, 0) for s in exhaustive(L)]
    ck.count("exhaustive_len<=%d" % L, len(cases))
    n0 = len(cases)
    for s in exhaustive(5):
        for ch in (1, 2, 3):
            cases.append((s, ch))
    ck.count("chunked_len<=5", len(cases) - n0)
    n0 = len(cases)
    for s in exhaustive(5, alpha=[13, 10, 46, 120, 0, 255]):
        if 0 in s or 255 in s:
            cases.append((s + b"\r\n.\r\n", 0))
    ck.count("exhaustive_with_NUL_0xff", len(cases) - n0)
    # terminated streams: random body + terminator + pipelined rest
    rng = ck.rng
    n0 = len(cases)
    for m in random_msgs(rng, 2000 if ck.thorough else 500, [0, 1, 5, 40, 1023, 1024, 1025, 3000]):
        cases.append((m + b"\r\n.\r\n" + rng.choice([b"", b"QUIT\r\n", b"MAIL FROM:<x>\r\n.\r\n"]), rng.choice([0, 0, 1, 5, 1024])))
    ck.count("random_terminated", len(cases) - n0)
    # header streams for the hop counter
    n0 = len(cases)
    for _ in range(3000 if ck.thorough else 800):
        k = rng.randint(0, 8)
        lines = [rng.choice(HDR) for _ in range(k)]
        eol = rng.choice([b"\r\n", b"\r\n", b"\r\n", b"\n"])
        s = eol.join(lines) + (eol if lines else b"") + rng.choice([b"\r\n", b"", b"x\r\n"]) + b"Received: in body\r\n.\r\n"
        cases.append((s, rng.choice([0, 1, 3])))
    ck.count("header_streams", len(cases) - n0)
    return cases

def main():
    ck = vlib.Check(PID, "proof")
    rb = vlib.RepoBuild()
    if not rb.ok:
        print("repository does not build:\n" + rb.log[-2000:]); sys.exit(2)
    ck.proofs()
    drv = vlib.build_driver("C06")
    h = rb.harness("h_sblast", "qmail-smtpd")
    cases = gen_cases(ck)
    impl, rc, err = vlib.run_lines(h, ["dec %s %d" % (vlib.hx(s), c) for s, c in cases])
    if len(impl) != len(cases):
        raise RuntimeError("harness died rc=%s %s" % (rc, err[-500:]))
    model, _, _ = vlib.run_lines(drv, ["dec %s" % vlib.hx(s) for s, c in cases])
    # blast() and put() as GENERATED from today's qmail-smtpd.c (coq/gen/CGen.v C_sblast, proved equal to the model in
    # Tie/Gen_codec.v when that file is in the build) run against the compiled function too: validation of the translator
    genmis = []
    try:
        gdrv = vlib.build_driver("GEN")
        pick = list(range(len(cases))) if len(cases) <= 6000 else sorted(ck.rng.sample(range(len(cases)), 6000))
        g, _, _ = vlib.run_lines(gdrv, ["sblast %s 0" % vlib.hx(cases[i][0]) for i in pick])
        for i, gr in zip(pick, g):
            ck.count("generated_sblast")
            a = impl[i]
            same = (gr == "X" and a == "X") or (gr.startswith("N ") and a.split()[:2] == gr.split()[:2]) or (gr.startswith("D ") and gr.rsplit(" ", 1)[0] == a and gr.endswith(" F0"))
            if not same: genmis.append(dict(stream=vlib.hx(cases[i][0]), real=a[:200], generated=gr[:200]))
    except RuntimeError as e:
        genmis.append(dict(what="generated functions do not build", log=str(e)[-600:]))
    def strip(r):            # "D body rest hops" -> ("D body rest", hops)
        w = r.split()
        return (" ".join(w[:3]), w[3]) if w and w[0] == "D" and len(w) == 4 else (r, None)
    impl2 = [strip(r) for r in impl]
    oracle, _, _ = vlib.run_lines(drv, ["ok05 %s %s" % (vlib.hx(s), r if r[0] in "DXN" else "D ff ff") for (s, c), (r, hp) in zip(cases, impl2)])
    # hop counter: model on the consumed bytes
    hop_idx = [i for i, (r, hp) in enumerate(impl2) if hp is not None]
    def consumed(i):
        s = cases[i][0]; rest = vlib.unhx(impl2[i][0].split()[2])
        return s[:len(s) - len(rest)]
    mh, _, _ = vlib.run_lines(drv, ["hops %s" % vlib.hx(consumed(i)) for i in hop_idx])
    hop_model = dict(zip(hop_idx, mh))
    ck.evaluated(len(cases))
    mism, fails, hopmis = [], [], []
    for i, ((s, c), (a, hp), b, o) in enumerate(zip(cases, impl2, model, oracle)):
        if a[0] == "D":
            ck.nontrivial(s)
        ck.count("result_" + a[0])
        if a.split()[0] != b.split()[0] or (a[0] == "D" and a != b):
            mism.append(i)
        if o != "1":
            fails.append(i)
        if hp is not None and hop_model[i] != hp:
            hopmis.append(i)
    # round trip through the reference (conforming) sender
    msgs = [m for m in exhaustive(7) if (len(m) == 0 or m[-1] == 10)] + \
           [m + b"\n" for m in random_msgs(ck.rng, 300, [0, 3, 100, 1024, 2048])]
    enc, _, _ = vlib.run_lines(drv, ["rfce %s" % vlib.hx(m) for m in msgs])
    dec, _, _ = vlib.run_lines(h, ["dec %s %d" % (e, ck.rng.choice([0, 1, 7])) for e in enc])
    rt_fail = [i for i, (m, d) in enumerate(zip(msgs, dec)) if not d.startswith("D %s - " % vlib.hx(m))]
    ck.evaluated(len(msgs)); ck.count("roundtrip_rfc_encode", len(msgs))
    # the size limit must not change the framing (databytes armed as smtp_data() does)
    dbc = []
    for s0 in list(exhaustive(6)) + [c[0] for c in cases[-300:]]:
        if s0.endswith(b"\r\n.\r\n") or len(s0) <= 6:
            for db in (1, 3):
                dbc.append((s0 + (b"" if s0.endswith(b"\r\n.\r\n") else b"\r\n.\r\nQUIT\r\n"), db))
    di, _, _ = vlib.run_lines(h, ["dec %s 0 %d" % (vlib.hx(s0), db) for s0, db in dbc])
    dm, _, _ = vlib.run_lines(drv, ["dec %s" % vlib.hx(s0) for s0, db in dbc])
    db_fail = []
    for k, ((s0, db), a, b) in enumerate(zip(dbc, di, dm)):
        wa, wb = a.split(), b.split()
        if wa[0] != wb[0]:
            db_fail.append(k); continue
        if wa[0] == "D":
            body = vlib.unhx(wb[1])
            exp_body = body if len(body) <= db else body[:db]
            if wa[2] != wb[2] or vlib.unhx(wa[1]) != exp_body or wa[4] != ("F1" if len(body) > db else "F0"):
                db_fail.append(k)
    ck.evaluated(len(dbc)); ck.count("databytes_armed", len(dbc))
    # ---- the 354 reply promises DATA mode: it must not be given when the queue program cannot be started (then the
    #      client's message would be read as commands).  The real qmail-smtpd with fork() failing in that process only.
    import smtp_common as sc
    S = sc.Smtpd(rb)
    cfg = dict(rcpthosts=None, badmailfrom=None, localiphost=None, databytes=0, morercpthosts=[], remoteip=b"10.0.0.9", remotehost=b"c.example", local=b"s.example", remoteinfo=None, relayclient=None)
    S.configure(cfg)
    sess = b"HELO c\r\nMAIL FROM:<a@b.example>\r\nRCPT TO:<u@s.example>\r\nDATA\r\nMAIL FROM:<mallory@x>\r\nRCPT TO:<victim@y>\r\nDATA\r\nforged\r\n.\r\nQUIT\r\n"
    fk_fail = []
    for nth in (1, 2):
        env = vlib.shim_env(S.home, extra={"SYSSHIM_FAIL": "fork::11:%d" % nth})
        out, rc2, subs = S.run(cfg, sess, exits=[0, 0], extra_env={k: v for k, v in env.items() if k.startswith(("LD_PRELOAD", "SYSSHIM"))})
        codes = sc.reply_codes(out)
        ck.evaluated(); ck.count("fork_failure_sessions"); ck.nontrivial(("forkfail", nth))
        # after the failed start of the queue program the DATA command must be answered 451, never 354
        k = [j for j, c in enumerate(codes) if c in (354, 451)]
        if nth == 1 and (not k or codes[k[0]] != 451):
            fk_fail.append(dict(kind="fault", fault="fork() fails in qmail-smtpd (EAGAIN), call %d" % nth, session=sess.decode(), replies=codes, queued=len(subs)))
    ck.cov["disagreements_checked"] = len(mism) + len(hopmis)
    ck.cov["rule"] = ("exhaustive {CR,LF,'.',x}* to the stated length, every read chunking 1..3 of streams to length 5, "
                      "streams with NUL/0xff, random terminated streams with pipelined rest, header streams for the hop counter, "
                      "round trips through the reference sender; non-trivial = distinct stream on which the real blast() returned (found a terminator)")
    ck.cov["exhaustive"] = True
    for s, c in cases[9:12] + cases[-2:]:
        ck.sample(dict(stream_hex=vlib.hx(s)[:160], length=len(s), read_chunk=c))
    fails.sort(key=lambda i: len(cases[i][0]))
    seen = set()
    for i in fails:
        s, c = cases[i]
        key = classify(s, impl[i])
        if key in seen:
            continue
        seen.add(key)
        ck.violation(key, dict(kind="input", input_hex=vlib.hx(s), read_chunk=c, observed=impl[i], expected=model[i],
                               oracle="ok_C05 (extracted: RFC 5321 reference decoder + framing) on the real blast() result", n_failing=len(fails)),
                     what="qmail-smtpd blast() violates C05 on stream %r" % s)
    for i in rt_fail[:1]:
        ck.violation("smtpd:roundtrip", dict(kind="input", input_hex=enc[i], message_hex=vlib.hx(msgs[i]), observed=dec[i]),
                     what="decode(encode(m)) != m for m=%r" % msgs[i])
    for k in db_fail[:1]:
        s0, db = dbc[k]
        ck.violation("smtpd:framing-under-databytes", dict(kind="input", input_hex=vlib.hx(s0), databytes=db, observed=di[k], expected=dm[k]),
                     what="with the size limit armed the decoder frames the stream differently (bytes after the limit are not consumed up to CRLF.CRLF)")
    for o in fk_fail[:1]:
        ck.violation("smtpd:354-without-queue", o, what="DATA was answered 354 although qmail-queue could not be started: the message that follows is read as SMTP commands")
    anyfail = bool(fails or rt_fail or db_fail or fk_fail)
    if (mism or hopmis) and not anyfail:
        i = min(mism + hopmis, key=lambda i: len(cases[i][0]))
        s, c = cases[i]
        ck.violation("correspondence", dict(kind="correspondence", broken="Codec.sblast/hops = qmail-smtpd.c blast()",
                                            input_hex=vlib.hx(s), read_chunk=c, observed=impl[i], expected=model[i],
                                            expected_hops=hop_model.get(i), n_disagreements=len(mism) + len(hopmis)), nofail=True,
                     what="model and implementation disagree (decoding or hop count) but ok_C05 holds on every implementation output")
    if genmis and not anyfail:
        ck.violation("correspondence-generated", dict(kind="correspondence", broken="coq/gen/CGen.v C_sblast (generated from qmail-smtpd.c by tools/c2gallina.py) = the compiled blast()",
                                                      first=genmis[0], n=len(genmis)), nofail=True, what="the generated function and the compiled function disagree (translator)")
    ck.proof_failure_violation(anyfail)
    ck.finish(trusted_base=[vlib.KERNEL_TB, vlib.EXTRACTION_TB,
                            "harness/h_sblast.c (ssin/ssout/qqt.ss replaced by memory buffers; _exit via longjmp; EOF on input = die_read)",
                            "modelled: qmail-smtpd.c blast() as Codec.sdec + Codec.hops; substdio/timeoutread assumed transparent (exercised with chunked reads)"],
              assumptions=["theorems are about Codec.sblast; the tie to blast() is differential (exhaustive small alphabet + random)",
                           "the 451 reply and the surrounding session (nothing queued on stray newline) are covered by C07/C08"])

def replay(path):
    obj = json.load(open(path))
    rb = vlib.RepoBuild()
    h = rb.harness("h_sblast", "qmail-smtpd")
    drv = vlib.build_driver("C06")
    s = obj["input_hex"]; c = obj.get("read_chunk", 0)
    impl, _, _ = vlib.run_lines(h, ["dec %s %d" % (s, c)])
    w = impl[0].split()
    r = " ".join(w[:3]) if w[0] == "D" else impl[0]
    ok, _, _ = vlib.run_lines(drv, ["ok05 %s %s" % (s, r)])
    print("input", s, "impl", impl[0], "ok_C05", ok[0])
    vlib._cleanup()
    return 0 if ok[0] == "1" else 1
