"""shared by C07/C08: configuration and session generators, the real qmail-smtpd runner, and an
independent Python reference of the documented SMTP server behaviour (DESIGN appendix C.2)"""
import os, re, shutil, subprocess
import vlib

DOMS = [b"ok.dom", b"sub.ok.dom", b"wild.dom", b"x.wild.dom", b"more.dom", b"other.dom", b"OK.DOM", b"z.more.dom", b"okxdom", b"notok.dom", b"jazz.dom", b"JAZZ.dom", b"a.zz.dom"]
USERS = [b"joe", b"Ann", b"a b", b"x+y", b"o'k", b"joe@home", b"spam"]

def gen_cfg(rng):
    c = {}
    c["rcpthosts"] = None if rng.random() < 0.15 else [rng.choice([b"ok.dom", b".wild.dom", b"Ok.Dom", b"other.dom", b"localhost", b"JaZZ.dom", b".ZZ.dom"]) for _ in range(rng.randint(0, 3))]
    c["morercpthosts"] = [] if c["rcpthosts"] is None or rng.random() < 0.6 else [rng.choice([b"more.dom", b".more.dom"])]
    c["badmailfrom"] = None if rng.random() < 0.5 else [rng.choice([b"spam@bad.dom", b"@bad.dom", b"Joe@Ok.Dom", b"@", b"nodomain", b"@JAZZ.dom", b"Joe@a.ZZ.dom"]) for _ in range(rng.randint(1, 2))]
    c["localiphost"] = rng.choice([None, b"lip.host"])
    c["databytes"] = rng.choice([0, 0, 10, 50, 200])
    c["relayclient"] = rng.choice([None, None, None, b"", b"@relay.hack"])
    c["remotehost"] = rng.choice([b"client.example", b"unknown", b"evil\"host(x)"])
    c["remoteip"] = b"192.0.2.7"
    c["remoteinfo"] = rng.choice([None, b"ident", b"id ent;x"])
    c["local"] = b"server.example"
    c["unterminated"] = rng.random() < 0.3
    return c

def gen_addr(rng):
    u = rng.choice(USERS); d = rng.choice(DOMS + [b"bad.dom", b"bad.dom", b"BAD.dom", b"[127.0.0.1]", b"[10.9.8.7]", b"[127.0.0.1]x", b"[300.0.0.257]"])
    a = u + b"@" + d
    form = rng.random()
    if form < 0.45: return b"<" + a + b">"
    if form < 0.55: return b"<@route.a,@route.b:" + a + b">"
    if form < 0.65: return b"<\"" + u + b"\"@" + d + b">"
    if b"@" in u: return b"<" + u.replace(b"@", b"\\@") + b"@" + d + b">"
    if form < 0.72: return b"<" + u.replace(b" ", b"\\ ") + b"@" + d + b"> SIZE=100"
    if form < 0.8: return a                       # bracketless: needs the colon form
    if form < 0.85: return b"<" + u + b">"       # no @
    if form < 0.9: return b"<>"
    if form < 0.95: return b"<" + b"a" * rng.choice([880, 895, 899, 900, 901, 1200]) + b"@ok.dom>"
    return bytes(rng.choice(b"<>@:\" \\ab.") for _ in range(rng.randint(0, 12)))

def gen_body(rng, databytes):
    k = rng.random()
    if k < 0.15 and databytes:
        n = rng.choice([databytes - 1, databytes, databytes + 1, databytes + 2])
        return b"x" * max(0, n - 1) + b"\n" if n > 0 else b""
    if k < 0.3:
        nh = rng.choice([98, 99, 100, 101])
        return b"".join(rng.choice([b"Received: by x\n", b"Delivered-To: y\n", b"received: z\n"]) for _ in range(nh)) + b"\nbody\n"
    lines = [rng.choice([b"Subject: hi", b"", b".dot", b"..two", b"text", b"From x", b"Received: q"]) for _ in range(rng.randint(0, 6))]
    return b"".join(l + b"\n" for l in lines)

def smtp_encode(body):
    out = b""
    for l in body.split(b"\n")[:-1] if body.endswith(b"\n") or body == b"" else body.split(b"\n"):
        out += (b"." if l.startswith(b".") else b"") + l + b"\r\n"
    return out + b".\r\n"

def gen_session(rng, cfg):
    cmds = []
    n = rng.randint(1, 10)
    for _ in range(n):
        v = rng.choice(["HELO", "EHLO", "MAIL", "MAIL", "RCPT", "RCPT", "RCPT", "DATA", "DATA", "RSET", "NOOP", "VRFY", "HELP", "XYZZY", "QUIT"])
        if v in ("HELO", "EHLO"): line = v.encode() + b" " + rng.choice([b"client.example", b"CLIENT.example", b"other.helo", b"bad helo\"(", b""])
        elif v == "MAIL": line = rng.choice([b"MAIL FROM:", b"mail from:", b"MAIL FROM: ", b"MAIL "]) + gen_addr(rng)
        elif v == "RCPT": line = rng.choice([b"RCPT TO:", b"rcpt to:", b"RCPT TO: "]) + gen_addr(rng)
        elif v == "DATA": line = b"DATA"
        else: line = v.encode() + rng.choice([b"", b" arg"])
        eol = rng.choice([b"\r\n", b"\r\n", b"\r\n", b"\n"])
        cmds.append(("cmd", line + eol))
        if v == "DATA":
            k = rng.random()
            body = gen_body(rng, cfg["databytes"])
            if k < 0.8: cmds.append(("body", smtp_encode(body)))
            elif k < 0.9: cmds.append(("body", b"bare\nlf\r\n.\r\n"))
            else: cmds.append(("body", smtp_encode(body)[:rng.randint(0, 5)]))          # client disconnects inside DATA
    if rng.random() < 0.7: cmds.append(("cmd", b"QUIT\r\n"))
    return b"".join(x for _, x in cmds)

class Smtpd:
    def __init__(self, rb):
        self.rb = rb; self.home = rb.make_home(); self.exe = rb.path("qmail-smtpd")
        self.qqout = os.path.join(vlib.scratch(), "qqs")
        self.cd = os.path.join(self.home, "control")
        open(os.path.join(self.cd, "me"), "wb").write(b"server.example\n")
    def configure(self, c):
        def put(name, val):
            p = os.path.join(self.cd, name)
            if val is None:
                if os.path.exists(p): os.remove(p)
            else: open(p, "wb").write(val)
        # the last line of a control file may lack its newline (files written with printf/echo -n): it still counts
        def lines_(l):
            t = b"".join(x + b"\n" for x in l)
            return t[:-1] if t and c.get("unterminated") else t
        put("rcpthosts", None if c["rcpthosts"] is None else lines_(c["rcpthosts"]))
        put("badmailfrom", None if c["badmailfrom"] is None else lines_(c["badmailfrom"]))
        put("localiphost", None if c["localiphost"] is None else c["localiphost"] + b"\n")
        put("databytes", None if not c["databytes"] else b"%d\n" % c["databytes"])
        put("morercpthosts", b"".join(x + b"\n" for x in c["morercpthosts"]))
        p = os.path.join(self.cd, "morercpthosts.cdb")
        if os.path.exists(p): os.remove(p)
        if c["morercpthosts"]:
            r = subprocess.run([self.rb.path("qmail-newmrh")], env=vlib.shim_env(self.home), cwd=self.home, stdout=subprocess.PIPE, stderr=subprocess.PIPE)
            if r.returncode: raise RuntimeError("qmail-newmrh failed: %s" % r.stderr)
    def run(self, c, data, exits=(), errs=None, prog=None, stub="qqstub_multi.sh", extra_env=None):
        for f in os.listdir(vlib.scratch()):
            if f.startswith("qqs."): os.remove(os.path.join(vlib.scratch(), f))
        open(self.qqout + ".exits", "w").write("".join("%d\n" % e for e in exits))
        for k, t in (errs or {}).items(): open(self.qqout + ".%d.err" % k, "wb").write(t)
        env = dict(os.environ, QMAILQUEUE=os.path.join(vlib.VERIF, "harness", stub), QQOUT=self.qqout,
                   TCPREMOTEIP=os.fsdecode(c["remoteip"]), TCPREMOTEHOST=os.fsdecode(c["remotehost"]), TCPLOCALHOST=os.fsdecode(c["local"]))
        env.update({k: v for k, v in vlib.shim_env(self.home).items() if k.startswith(("LD_PRELOAD", "SYSSHIM"))})
        if c["remoteinfo"] is not None: env["TCPREMOTEINFO"] = os.fsdecode(c["remoteinfo"])
        if c["relayclient"] is not None: env["RELAYCLIENT"] = os.fsdecode(c["relayclient"])
        if extra_env: env.update(extra_env)
        p = subprocess.run([prog or self.exe], input=data, stdout=subprocess.PIPE, stderr=subprocess.PIPE, env=env, timeout=60)
        subs = []
        n = 1
        while os.path.exists(self.qqout + ".%d.msg" % n):
            subs.append((open(self.qqout + ".%d.msg" % n, "rb").read(), open(self.qqout + ".%d.env" % n, "rb").read()))
            n += 1
        return p.stdout, p.returncode, subs

# ---------------------------------------------------------------- independent reference
def ref_addrparse(arg, c):
    term = b">"; i = arg.find(b"<")
    if i >= 0: arg = arg[i + 1:]
    else:
        term = b" "; k = arg.find(b":"); arg = arg[k + 1:] if k >= 0 else b""
        arg = arg.lstrip(b" ")
    if arg[:1] == b"@":
        k = arg.find(b":"); arg = arg[k + 1:] if k >= 0 else b""
    out, esc, quoted = [], False, False
    for ch in arg:
        ch = bytes([ch])
        if esc: out.append(ch); esc = False
        elif not quoted and ch == term: break
        elif ch == b"\\": esc = True
        elif ch == b'"': quoted = not quoted
        else: out.append(ch)
    a = b"".join(out)
    lh = c["localiphost"] if c["localiphost"] is not None else c["local"]      # qmail-control: localiphost defaults to me
    if lh is not None:
        j = a.rfind(b"@")
        if j >= 0:
            m = re.match(rb"^\[(\d+)\.(\d+)\.(\d+)\.(\d+)\]$", a[j + 1:])
            if m and tuple(int(x) % 256 for x in m.groups()) in ((127, 0, 0, 1), (0, 0, 0, 0)):
                a = a[:j + 1] + lh
    return None if len(a) + 1 > 900 else a

def ref_rcpthosts(a, c):
    if c["rcpthosts"] is None: return True
    j = a.rfind(b"@")
    if j < 0: return True
    d = a[j + 1:].lower()
    rh = {x.lower() for x in c["rcpthosts"]}
    sfx = [d[k:] for k in range(len(d)) if k == 0 or d[k:k + 1] == b"."]
    return any(s in rh for s in sfx) or any(s in set(c["morercpthosts"]) for s in sfx)

def ref_bmf(a, c):
    if c["badmailfrom"] is None: return False
    l = {x.lower() for x in c["badmailfrom"]}
    j = a.rfind(b"@")
    return a.lower() in l or (j >= 0 and a[j:].lower() in l)

def ref_decode(s):
    """RFC 5321 4.5.2; returns (kind, body, rest, raw consumed)"""
    pos = 0; out = b""
    while True:
        k = s.find(b"\r\n", pos)
        line = s[pos:] if k < 0 else s[pos:k]
        if b"\n" in line: return ("stray", None, None, None)
        if k < 0: return ("more", None, None, None)
        if line == b".": return ("done", out, s[k + 2:], s[:k + 2])
        out += (line[1:] if line.startswith(b".") else line) + b"\n"
        pos = k + 2

def ref_hops(raw):
    n = 0
    for line in raw.split(b"\n"):
        if line in (b"\r", b""): break
        l = line.lower()
        if l.startswith(b"received"): n += 1
        if l.startswith(b"delivered"): n += 1
    return n

def qq_class(e, txt, flagerr):
    if e in (115, 11, 31): return "D"
    if e == 0: return "Z" if flagerr else "ok"
    if e == 82 and len(txt) > 2: return "D" if txt[:1] == b"D" else "Z"
    if e in (51, 52, 53, 54, 55, 56, 61, 62, 63, 64, 65, 66, 71, 72, 73, 74, 81, 91, 120): return "Z"
    return "D" if 11 <= e <= 40 else "Z"

def ref_session(data, c, exits, errs=None):
    """returns (reply codes, submissions [(helo, body, sender, rcpts, complete)], exit)"""
    codes, subs = [], []
    seenmail = False; barf = False; mailfrom = b""; rcpts = []; helo = None
    nq = 0
    while True:
        k = data.find(b"\n")
        if k < 0: return codes, subs, 1
        line, data = data[:k], data[k + 1:]
        if line.endswith(b"\r"): line = line[:-1]
        line = line.split(b"\0")[0]
        sp = line.find(b" ")
        verb = (line if sp < 0 else line[:sp]).lower(); arg = b"" if sp < 0 else line[sp:].lstrip(b" ")
        if verb == b"rcpt":
            if not seenmail: codes.append(503); continue
            a = ref_addrparse(arg, c)
            if a is None: codes.append(555); continue
            if barf: codes.append(553); continue
            if c["relayclient"] is not None: a += c["relayclient"]
            elif not ref_rcpthosts(a, c): codes.append(553); continue
            rcpts.append(a); codes.append(250)
        elif verb == b"mail":
            a = ref_addrparse(arg, c)
            if a is None: codes.append(555); continue
            barf = ref_bmf(a, c); seenmail = True; rcpts = []; mailfrom = a; codes.append(250)
        elif verb == b"data":
            if not seenmail: codes.append(503); continue
            if not rcpts: codes.append(503); continue
            seenmail = False; codes.append(354)
            kind, body, rest, raw = ref_decode(data)
            if kind == "more": return codes, subs, 1
            if kind == "stray": codes.append(451); return codes, subs, 1
            data = rest
            toomany = ref_hops(raw) >= 100
            toobig = c["databytes"] and len(body) > c["databytes"]
            complete = not toomany and not toobig
            e = exits[nq] if nq < len(exits) else 0
            txt = (errs or {}).get(nq + 1, b"")
            nq += 1
            subs.append((helo, body, mailfrom, list(rcpts), complete))
            cls = qq_class(e, txt, not complete)
            if cls == "ok": codes.append(250)
            elif toomany: codes.append(554)
            elif toobig: codes.append(552)
            else: codes.append(554 if cls == "D" else 451)
        elif verb == b"quit": codes.append(221); return codes, subs, 0
        elif verb in (b"helo", b"ehlo"):
            codes.append(250); seenmail = False
            helo = None if arg.lower() == c["remotehost"].lower() else arg
        elif verb == b"rset": seenmail = False; codes.append(250)
        elif verb == b"help": codes.append(214)
        elif verb == b"noop": codes.append(250)
        elif verb == b"vrfy": codes.append(252)
        else: codes.append(502)

def reply_codes(out):
    """first line is the 220 greeting; multi-line replies count once"""
    codes = []
    for l in out.split(b"\r\n"):
        if len(l) >= 4 and l[:3].isdigit() and l[3:4] == b" ":
            codes.append(int(l[:3]))
    return codes

def cfg_args(c):
    H = vlib.hx
    def optl(v): return "N" if v is None else (",".join(H(x) for x in v) or "E")
    return "%s %s %s %s %s %d %s %s %s %s %s" % (
        H(c["local"]) if c["localiphost"] is None else H(c["localiphost"]), "127.0.0.1,0.0.0.0", optl(c["rcpthosts"]),
        ",".join(H(x) for x in c["morercpthosts"]) or "-", optl(c["badmailfrom"]), c["databytes"],
        "N" if c["relayclient"] is None else H(c["relayclient"]), H(c["remotehost"]), H(c["remoteip"]),
        "N" if c["remoteinfo"] is None else H(c["remoteinfo"]), H(c["local"]))

SAFE = set(b".@%+/=:-[]") | set(range(97, 123)) | set(range(65, 91)) | set(range(48, 58))
def safe(s): return bytes(ch if ch in SAFE else 63 for ch in s)
def expected_received(c, helo, proto=b"SMTP"):
    return (b"Received: from " + safe(c["remotehost"]) + (b" (HELO " + safe(helo) + b")" if helo is not None else b"") + b" (" +
            (safe(c["remoteinfo"]) + b"@" if c["remoteinfo"] is not None else b"") + safe(c["remoteip"]) + b")\n  by " + safe(c["local"]) + b" with " + proto + b"; ")
DATE_RE = rb"^\d{1,2} [A-Z][a-z]{2} \d{4} \d{2}:\d{2}:\d{2} -0000\n"
