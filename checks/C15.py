"""C15 - retries back off quadratically, expire with the queue lifetime, earliest first.

proof: coq/Props/Properties_C15.v (squareroot exact by loop invariant, nextretry in the future,
       heap invariant / minimum / multiset of the priority queue, schedule persistence)
tie:   real squareroot()/nextretry()/prioq_*()/pqfinish()+pqstart() (function harness that
       #includes qmail-send.c) against the extracted model; constants tie (chanskip, the
       flagdying and due-test expressions) regenerated from the sources each run."""
import itertools, json, os, signal, subprocess, sys, time
import vlib

PID = "C15"

def gen_sqrt(ck):
    xs = set(range(0, 70001))
    step = 1 if ck.thorough else 7
    for k in range(0, 65536, step):
        for d in (-1, 0, 1):
            v = k * k + d
            if 0 <= v < 2 ** 32:
                xs.add(v)
    for e in range(0, 33):
        for d in (-1, 0, 1):
            v = 2 ** e + d
            if 0 <= v < 2 ** 32:
                xs.add(v)
    for _ in range(200000 if ck.thorough else 40000):
        xs.add(ck.rng.randrange(0, 2 ** 32))
    xs.add(2 ** 32 - 1)
    return sorted(xs)

def gen_retry(ck):
    out = []
    rng = ck.rng
    births = [0, 1, 1000, 10 ** 9, 1700000000]
    for b in births:
        for age in [0, 1, 2, 3, 4, 99, 100, 101, 3599, 3600, 604799, 604800, 604801, 2 ** 31 - 1, 2 ** 31, 2 ** 32 - 1, -1, -5, -100000]:
            for c in (0, 1):
                out.append((b, b + age, c))
    for _ in range(20000 if ck.thorough else 4000):
        b = rng.randrange(0, 2 * 10 ** 9)
        age = rng.choice([rng.randrange(0, 100), rng.randrange(0, 10 ** 6), rng.randrange(0, 2 ** 32), -rng.randrange(1, 1000)])
        out.append((b, b + age, rng.randrange(2)))
    return out

def gen_pq(ck):
    seqs = []
    L = 9 if ck.thorough else 7
    keys = [5, 7, 9]
    for n in range(1, L + 1):
        for t in itertools.product("abcd", repeat=n):
            seqs.append(["d" if x == "d" else "i:%d" % keys["abc".index(x)] for x in t])
    ck.count("pq_exhaustive_len<=%d" % L, len(seqs))
    rng = ck.rng
    nr = 3000 if ck.thorough else 600
    for _ in range(nr):
        n = rng.choice([10, 30, 120, 400])
        pins = rng.choice([0.5, 0.65, 0.9])
        kr = rng.choice([3, 10, 1000, 2 ** 31])
        seqs.append(["i:%d" % rng.randrange(kr) if rng.random() < pins else "d" for _ in range(n)])
    # all permutations of 1..6 inserted, then drained
    for perm in itertools.permutations(range(1, 7)):
        seqs.append(["i:%d" % k for k in perm] + ["d"] * 6)
    ck.count("pq_random_and_permutations", nr + 720)
    out = []
    for s in seqs:
        nid = 0
        ops = []
        for o in s:
            if o == "d":
                ops.append("d")
            else:
                nid += 1
                ops.append("%s:%d" % (o, nid))
        out.append(",".join(ops))
    return out

def pq_oracle(ops, res):
    """direct oracle on the implementation's own answers: after every operation the reported
    minimum is a minimum of (inserted - deleted); the final array holds exactly that multiset."""
    try:
        mins, arr = res.split(" | ") if " | " in res else (res.rstrip(" |"), "")
        mins = mins.split()
        cur = []
        prev_min = None
        for o, m in zip(ops.split(","), mins):
            if o == "d":
                if cur:
                    if prev_min is None or prev_min not in cur:
                        return False
                    cur.remove(prev_min)
            else:
                _, d, i = o.split(":")
                cur.append((int(d), int(i)))
            if m == "m-":
                if cur:
                    return False
                prev_min = None
            else:
                d, i = m[1:].split(":")
                e = (int(d), int(i))
                if e not in cur or any(x[0] < e[0] for x in cur):
                    return False
                prev_min = e
        final = sorted((int(a.split(":")[0]), int(a.split(":")[1])) for a in arr.split(",") if a)
        return final == sorted(cur) and len(mins) == len(ops.split(","))
    except Exception:
        return False

def pq_abs(res):
    """abstraction compared with the model: dt of the minimum after each op + final multiset"""
    mins, _, arr = res.partition(" | ")
    return ([m.split(":")[0] for m in mins.split()], sorted(arr.split(",")) if arr else [])

def daemon_histories(ck, rb, drv, fails, mism):
    """the real qmail-send under a virtual clock (the interposer's time() reads a file): after a deferral the next
    attempt must not start one second before the model's retry time and must start at it; the schedule survives
    SIGTERM + restart; past the queue lifetime a deferral becomes a failure"""
    import queue_common as qc
    tf = os.path.join(vlib.scratch(), "clock")
    def setclock(t): open(tf + ".tmp", "w").write(str(int(t))); os.replace(tf + ".tmp", tf)
    def poke(W):
        fd = os.open(os.path.join(W.home, "queue", "lock", "trigger"), os.O_WRONLY | os.O_NONBLOCK); os.write(fd, b"\0"); os.close(fd)
    for lifetime in (None, 1000, 0, "at-retry", "one-below-retry"):
        V0 = int(time.time()); setclock(V0)
        W = qc.World(rb, "c15", extra_env={"SYSSHIM_TIMEFILE": tf})
        lt = os.path.join(W.home, "control", "queuelifetime")
        edge = lifetime if isinstance(lifetime, str) else None
        if lifetime is None or edge:
            if os.path.exists(lt): os.remove(lt)
        else: open(lt, "w").write("%d\n" % lifetime)
        R = qc.Runner(W, {}, default=b"Z"); R.start(); R.service(0.3)
        R.inject(b"s@x.example", [b"r@remote.example"]); 
        for _ in range(6):
            R.service(0.1)
            if R.cmds: break
        hist = ["virtual clock V0=%d lifetime=%s" % (V0, lifetime)]
        obj = lambda **kw: dict(fn="qmail-send under a virtual clock", queuelifetime=lifetime, history=list(hist[-30:]), **kw)
        if not R.cmds:
            mism.append(dict(fn="daemon history", note="no first attempt", history=hist)); R.kill(); continue
        n = R.cmds[0]["n"]
        birth = int(os.stat(qc.qpath(W.home, "info", n)).st_mtime)
        t_attempt = V0
        if edge:
            # lifetime exactly at / one second below the age the message will have at its next attempt
            due0 = int(vlib.run_lines(drv, ["retry %d %d 1" % (birth, t_attempt)])[0][0])
            lifetime = due0 - birth - (1 if edge == "one-below-retry" else 0)
            R.term(); open(lt, "w").write("%d\n" % lifetime); R.start(); R.service(0.3); hist.append("SIGTERM, queuelifetime := %d, restart" % lifetime)
        L = 604800 if lifetime is None else lifetime
        ok = True
        for rnd in range(3 if ck.thorough else 2):
            due = int(vlib.run_lines(drv, ["retry %d %d 1" % (birth, t_attempt)])[0][0])
            dying_expected = t_attempt > birth + L
            ck.evaluated(); ck.nontrivial(("dh", lifetime, rnd)); ck.count("daemon_retry_times")
            last = [c for c in R.cmds if c["rcpt"] == b"r@remote.example"]
            if last and last[-1]["verdict"] == b"Z" and not dying_expected and rnd > 0:
                R.service(0.2)
                if b"r@remote.example" not in R.still_todo():
                    hist.append("attempt at %d was NOT past birth+lifetime=%d, yet the deferral finished the recipient" % (t_attempt, birth + L))
                    fails.append(("sched:expired-too-early", obj(birth=birth, attempt_time=t_attempt))); break
            if last and last[-1]["verdict"] == b"Z" and dying_expected:
                # the deferral of a dying message must have become a failure: a bounce record or bounce message exists
                R.service(0.3); R.scan_bounces()
                gone = b"r@remote.example" not in R.still_todo()
                hist.append("attempt at %d was past birth+lifetime=%d: deferral must count as failure -> still to do: %s" % (t_attempt, birth + L, not gone))
                if not gone:
                    fails.append(("sched:dying-message-retried", obj(birth=birth, attempt_time=t_attempt))); ok = False
                break
            ncmd = len(R.cmds)
            if rnd == 1:
                # the schedule must survive a clean stop
                R.term(); R.start(); R.service(0.3); hist.append("SIGTERM + restart")
            setclock(due - 1); poke(W); R.service(0.3)
            early = len(R.cmds) > ncmd
            hist.append("clock %d (one second before the model's retry time %d): attempt started: %s" % (due - 1, due, early))
            if early:
                fails.append(("sched:retried-before-backoff", obj(birth=birth, previous_attempt=t_attempt, model_retry=due))); ok = False; break
            setclock(due); poke(W)
            for _ in range(8):
                R.service(0.1)
                if len(R.cmds) > ncmd: break
            started = len(R.cmds) > ncmd
            hist.append("clock %d (the retry time): attempt started: %s" % (due, started))
            if not started:
                fails.append(("sched:not-retried-when-due", obj(birth=birth, previous_attempt=t_attempt, model_retry=due))); ok = False; break
            t_attempt = due
            if rnd == 0 and lifetime is None:
                # a LATE attempt: the daemon was not poked until long after the due time; the next retry must be
                # computed from the time of this attempt, not from the time it had been scheduled for
                last = [c for c in R.cmds if c["rcpt"] == b"r@remote.example"]
                R.service(0.2)                                       # the Z report for the attempt just started
                due2 = int(vlib.run_lines(drv, ["retry %d %d 1" % (birth, t_attempt)])[0][0])
                late = due2 + 5000
                ncmd = len(R.cmds); setclock(late); poke(W)
                for _ in range(8):
                    R.service(0.1)
                    if len(R.cmds) > ncmd: break
                hist.append("clock %d (5000 s after the retry time %d): attempt started: %s" % (late, due2, len(R.cmds) > ncmd))
                if len(R.cmds) > ncmd:
                    R.service(0.3); n2 = len(R.cmds)
                    due3 = int(vlib.run_lines(drv, ["retry %d %d 1" % (birth, late)])[0][0])
                    poke(W); R.service(0.3); poke(W); R.service(0.3)
                    burst = len(R.cmds) - n2
                    hist.append("after the late attempt (deferred again) the model's next retry time is %d; further attempts while the clock still shows %d: %d" % (due3, late, burst))
                    ck.evaluated(); ck.count("late_attempts")
                    if burst > 0:
                        fails.append(("sched:retried-before-backoff", obj(birth=birth, previous_attempt=late, model_retry=due3, note="retry time computed from the scheduled time instead of the attempt time")))
                    t_attempt = late
                    break
        R.kill()

def main():
    ck = vlib.Check(PID, "proof")
    rb = vlib.RepoBuild()
    if not rb.ok:
        print("repository does not build:\n" + rb.log[-2000:]); sys.exit(2)
    ck.proofs(srcdir=rb.dir)
    drv = vlib.build_driver("C15")
    h = rb.harness("h_sched", "qmail-send")
    home = rb.make_home()
    hcmd = [h, os.path.join(home, "queue")]
    fails, mism = [], []

    xs = gen_sqrt(ck)
    a, _, _ = vlib.run_lines(hcmd, ["sqrt %d" % x for x in xs])
    b, _, _ = vlib.run_lines(drv, ["sqrt %d" % x for x in xs])
    # the translator: squareroot() as GENERATED from today's qmail-send.c (coq/gen/CGen.v, proved equal to the model in
    # Tie/Gen_numbers.v) runs against the compiled function too, and so do the other generated leaf functions
    import gen_common
    gen_common.translator_selfcheck(ck, rb, mism)
    try:
        sel = [(x, y) for x, y in zip(xs, a) if 0 <= x < 2 ** 32]
        sel = sel[:300] + ck.rng.sample(sel, min(len(sel), 3000 if ck.thorough else 700))
        g, _, _ = vlib.run_lines(vlib.build_driver("GEN"), ["squareroot %d" % x for x, _ in sel])
        for x, ga, gb in zip([x for x, _ in sel], [y for _, y in sel], g):
            ck.evaluated(); ck.count("generated_squareroot")
            if ga != gb: mism.append(dict(fn="squareroot (generated from C)", x=x, observed=ga, model=gb))
    except RuntimeError as e:
        mism.append(dict(fn="generated functions do not build", log=str(e)[-600:]))
    ck.evaluated(len(xs)); ck.count("sqrt_grid", len(xs))
    for x, ra, rb_ in zip(xs, a, b):
        r = int(ra)
        ck.nontrivial(("s", r))
        if not (r * r <= x < (r + 1) * (r + 1)):
            fails.append(("sched:squareroot", dict(fn="squareroot", x=x, observed=r)))
        if ra != rb_:
            mism.append(dict(fn="squareroot", x=x, observed=ra, expected=rb_))
    if ck.thorough:
        # every age 0 .. 2^32-1 on the real function, 16 processes, oracle evaluated in the harness's caller
        src = os.path.join(vlib.scratch(), "sqall.c")
        open(src, "w").write('#include <stdio.h>\n#include <stdlib.h>\n#define main x_main\n#include "qmail-send.c"\n#undef main\n'
                             'int main(int c,char**v){unsigned long lo=strtoul(v[1],0,10),hi=strtoul(v[2],0,10),x,bad=0,first=0;'
                             'for(x=lo;x<hi;x++){long r=squareroot((datetime_sec)x);if(!(r>=0&&(unsigned long)r*r<=x&&x<(unsigned long)(r+1)*(r+1))){if(!bad)first=x;bad++;}}'
                             'printf("%lu %lu\\n",bad,first);return 0;}')
        objs, libs = rb.link_deps("qmail-send")
        exe = rb.compile_harness(src, os.path.join(vlib.scratch(), "sqall"), objs=objs, libs=libs)
        procs = []
        n = 16
        for k in range(n):
            lo, hi = k * (2 ** 32 // n), (k + 1) * (2 ** 32 // n)
            procs.append(subprocess.Popen([exe, str(lo), str(hi)], stdout=subprocess.PIPE))
        tot = 0
        for p in procs:
            bad, first = p.communicate()[0].split()
            if int(bad):
                fails.append(("sched:squareroot", dict(fn="squareroot", x=int(first), n_bad=int(bad))))
        ck.evaluated(2 ** 32); ck.count("sqrt_all_2^32", 2 ** 32)
        ck.cov["sqrt_exhaustive_2^32"] = True

    rs = gen_retry(ck)
    a, _, _ = vlib.run_lines(hcmd, ["retry %d %d %d" % t for t in rs])
    b, _, _ = vlib.run_lines(drv, ["retry %d %d %d" % t for t in rs])
    ck.evaluated(len(rs)); ck.count("nextretry_grid", len(rs))
    for (birth, recent, c), ra, rb_ in zip(rs, a, b):
        t = int(ra)
        age = recent - birth
        if 0 <= age < 2 ** 32:
            import math
            exp = birth + (math.isqrt(age) + (10, 20)[c]) ** 2
            ck.nontrivial(("r", age % 100003, c))
            if not (t > recent and t == exp):
                fails.append(("sched:nextretry", dict(fn="nextretry", birth=birth, recent=recent, channel=c, observed=t, expected=exp)))
        if ra != rb_:
            mism.append(dict(fn="nextretry", birth=birth, recent=recent, channel=c, observed=ra, expected=rb_))

    pqs = gen_pq(ck)
    a, _, _ = vlib.run_lines(hcmd, ["pq " + s for s in pqs])
    b, _, _ = vlib.run_lines(drv, ["pq " + s for s in pqs])
    ck.evaluated(len(pqs))
    for s, ra, rb_ in zip(pqs, a, b):
        ck.nontrivial(("p", s) if len(s) < 60 else ("p", hash(s)))
        if not pq_oracle(s, ra):
            fails.append(("prioq:min-or-multiset", dict(fn="prioq", ops=s, observed=ra, expected=rb_)))
        if pq_abs(ra) != pq_abs(rb_):
            mism.append(dict(fn="prioq", ops=s, observed=ra, expected=rb_))

    # schedule persistence across a clean stop/start (pqfinish + pqstart on a real queue directory)
    rst = []
    rng = ck.rng
    for _ in range(400 if ck.thorough else 120):
        ids = rng.sample(range(1, 500), rng.randint(1, 8))
        ents = []
        for i in ids:
            chans = rng.choice([[0], [1], [0, 1], [0, 1]])
            for c in chans:
                ents.append((c, i, rng.randrange(10 ** 9, 2 * 10 ** 9)))
        rst.append(ents)
    a, _, _ = vlib.run_lines(hcmd, ["restart " + ",".join("%d:%d:%d" % e for e in ents) for ents in rst])
    b, _, _ = vlib.run_lines(drv, ["restart %s %s" % (",".join("%d:%d:%d" % e for e in ents), ",".join("%d:%d:1" % (c, i) for c, i, d in ents)) for ents in rst])
    ck.evaluated(len(rst)); ck.count("restart_histories", len(rst))
    for ents, ra, rb_ in zip(rst, a, b):
        got = sorted(ra.split()[0].split(",")) if ra and not ra.startswith("-") else []
        want = sorted("%d:%d:%d" % e for e in ents)
        ck.nontrivial(("t", tuple(want)))
        if got != want or "NOTEMPTY" in ra or "done=0 fail=0" not in ra:
            fails.append(("sched:restart-loses-schedule", dict(fn="pqfinish+pqstart", schedule=want, observed=ra)))
        if got != sorted(rb_.split(",")):
            mism.append(dict(fn="pqfinish+pqstart", schedule=want, observed=ra, expected=rb_))

    daemon_histories(ck, rb, drv, fails, mism)
    ck.cov["disagreements_checked"] = len(mism)
    ck.cov["rule"] = ("daemon histories under a virtual clock: the real qmail-send is poked just before and at each retry time computed by the model, across SIGTERM + restart, queuelifetime 0 / 1000 / default; squareroot: all x<=70000, k^2-1,k^2,k^2+1, powers of two +-1, seeded random (thorough: every x < 2^32 on the real function); "
                      "nextretry: (birth, recent, channel) grid incl. clock stepped back; prioq: every insert/delete sequence to the stated length over "
                      "3 keys, all permutations of 6, random long; restart: random two-channel schedules through the real pqfinish()+pqstart(). "
                      "non-trivial = distinct (function, case) classes as counted")
    ck.sample(dict(fn="squareroot", x=xs[len(xs) // 2]))
    ck.sample(dict(fn="nextretry", case=rs[7]))
    ck.sample(dict(fn="prioq", ops=pqs[3000]))
    ck.sample(dict(fn="restart", schedule=rst[0]))
    seen = set()
    for key, obj in fails:
        if key in seen:
            continue
        seen.add(key)
        ck.violation(key, dict(kind="input", **obj), what="real %s violates C15" % obj["fn"])
    if mism and not fails:
        ck.violation("correspondence", dict(kind="correspondence", broken="Send/Sched.v model = qmail-send.c/prioq.c", first=mism[0], n=len(mism)),
                     nofail=True, what="model and implementation disagree but the direct oracles hold")
    ck.proof_failure_violation(bool(fails))
    ck.finish(trusted_base=[vlib.KERNEL_TB, vlib.EXTRACTION_TB, "harness/h_sched.c (#include qmail-send.c with main renamed; real prioq.o)",
                            "tools/extract_params.py (regex translator for chanskip[], the flagdying expression and the due test) + Tie/Tie_C15.v"],
              assumptions=["datetime_sec is a 64-bit long (Z in the model); ages below 2^32",
                           "the daemon-level behaviour (a pass starts only when due, ALRM, dying handling of Z reports) is tied textually here and exercised in the daemon histories of C03/C04"])

def replay(path):
    obj = json.load(open(path))
    rb = vlib.RepoBuild(); h = rb.harness("h_sched", "qmail-send"); home = rb.make_home()
    fn = obj.get("fn")
    if fn == "squareroot": line = "sqrt %d" % obj["x"]
    elif fn == "nextretry": line = "retry %d %d %d" % (obj["birth"], obj["recent"], obj["channel"])
    elif fn == "prioq": line = "pq " + obj["ops"]
    else: line = "restart " + ",".join(obj["schedule"])
    out, _, _ = vlib.run_lines([h, os.path.join(home, "queue")], [line])
    print(line, "->", out[0])
    ok = True
    if fn == "prioq": ok = pq_oracle(obj["ops"], out[0])
    elif fn == "squareroot": r = int(out[0]); ok = r * r <= obj["x"] < (r + 1) ** 2
    vlib._cleanup()
    return 0 if ok else 1
