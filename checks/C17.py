"""C17 - address quoting and parsing agree; header recipients become the envelope.

proof: coq/Props/Properties_C17.v
tie:   (1) the real quote_need/quote2 (quote.c), addrmangle (qmail-remote.c), addrparse (qmail-smtpd.c),
       token822_parse/unquote/unparse (token822.c) and doheaderfield (qmail-inject.c: token822_addrlist +
       rwgeneric + the envelope lists) called in function harnesses, against the extracted models, on
       exhaustive short strings over the specials alphabet, seeded longer ones, and header fields rendered
       from an RFC 822 grammar whose mailboxes are known by construction;
       (2) the real qmail-inject program with a stand-in qmail-queue on whole messages in every -a/-h/-H/-f
       mode and QMAILINJECT flag combination.
oracles on the implementation alone: the two round trips give back the identical address; the envelope is
exactly the generated mailboxes after the documented rewriting; Bcc never reaches the message; the rewritten
field parses to the same addresses again."""
import itertools, json, os, subprocess, sys
import vlib

PID = "C17"
DH, DD, PD = b"dh.example", b"dd.example", b"pd.example"
hx = vlib.hx

def unhex(s):
    return b"" if s in ("-", "none") else bytes.fromhex(s)

# ------------------------------------------------------------------ RFC 822 grammar generator
class Gen:
    def __init__(self, rng, dh=DH, dd=DD, pd=PD):
        self.r = rng; self.dh, self.dd, self.pd = dh, dd, pd
    def ws(self):
        r = self.r.random()
        if r < 0.45: return b""
        if r < 0.7: return b" "
        if r < 0.78: return b"\t"
        if r < 0.86: return b"\n "
        if r < 0.93: return b" (" + self.ctext() + b") "
        return b"(" + self.ctext() + b"(" + self.ctext() + b")" + self.ctext() + b")"
    def ctext(self):
        return self.r.choice([b"", b"c", b"a comment", b"x@y, z", b"esc \\) \\( done", b"semi; colon: <a>", b"q\"uote"])
    def atom(self):
        return self.r.choice([b"joe", b"a+b", b"x_y", b"A", b"j0e!", b"#1", b"user-ext", b"m=n", b"Z9", b"it's", b"lists+"])
    def qstring(self):
        v = self.r.choice([b"a b", b"x,y", b"a@b", b"semi;colon:", b"<angle>", b"par(en)s", b"q\"uo\\te", b"", b"dot.", b".lead", b"a..b", b"tab\there", b"\x80\xff", b"[lit]", b"cr\rx"])
        t = b'"' + b"".join((b"\\" + bytes([c]) if c in b'"\\\r' else bytes([c])) for c in v) + b'"'
        return t, v
    def local(self):
        if self.r.random() < 0.3:
            return self.qstring()
        ws = [self.atom() for _ in range(self.r.choice([1, 1, 2, 3]))]
        return (self.ws() + b"." + self.ws()).join(ws), b".".join(ws)
    def label(self):
        return self.r.choice([b"example", b"host", b"sub", b"x", b"Mail", b"h-1", b"org", b"b"])
    def domain(self):
        """rendered text, value after the documented rewriting"""
        r = self.r.random()
        if r < 0.12:
            lit = self.r.choice([b"1.2.3.4", b"127.0.0.1", b"ip6:1", b"x y"])
            return b"[" + lit + b"]", b"[" + lit + b"]"
        if r < 0.27:                       # no dots: default domain
            l = self.label(); return l, l + b"." + self.dd
        if r < 0.40:                       # plus domain
            ls = [self.label() for _ in range(self.r.choice([1, 2]))]
            return b".".join(ls) + b"+", b".".join(ls) + b"." + self.pd
        ls = [self.label() for _ in range(self.r.choice([2, 2, 3]))]
        return (self.ws() + b"." + self.ws()).join(ls), b".".join(ls)
    def addr_spec(self):
        lt, lv = self.local()
        if self.r.random() < 0.12:         # lone box: default host (which has a dot)
            h = self.dh
            if h.endswith(b"+"): h = h[:-1] + b"." + self.pd
            elif b"." not in h: h = h + b"." + self.dd
            return lt, lv + b"@" + h
        dt, dv = self.domain()
        return lt + self.ws() + b"@" + self.ws() + dt, lv + b"@" + dv
    def word(self):
        return self.r.choice([b"Joe", b"Q.", b"Public", b'"quoted, phrase"', b'"a@b"', b"X", b'"\\"esc\\""'][0:1] + [b"Joe", b"Public", b'"quoted, phrase"', b'"a@b"', b"X", b'"\\"esc\\""'])
    def phrase(self):
        return self.ws().join([self.word() for _ in range(self.r.choice([1, 2, 3]))]) or b"X"
    def route(self):
        hs = [b"@" + self.label() + b"." + self.label() for _ in range(self.r.choice([1, 2]))]
        return b",".join(hs) + b":"
    def mailbox(self):
        r = self.r.random()
        t, v = self.addr_spec()
        if r < 0.45: return t, v
        if r < 0.55: return t + b" (" + self.ctext() + b")", v
        rt = self.route() if self.r.random() < 0.25 else b""
        ph = b"" if r < 0.62 else self.phrase() + b" "
        return ph + self.ws() + b"<" + self.ws() + rt + t + self.ws() + b">", v
    def item(self):
        if self.r.random() < 0.12:
            n = self.r.choice([0, 1, 2, 3])
            ms = [self.mailbox() for _ in range(n)]
            return self.phrase() + self.ws() + b":" + self.ws() + (b"," + self.ws()).join(m[0] for m in ms) + self.ws() + b";", [m[1] for m in ms]
        t, v = self.mailbox()
        return t, [v]
    def addrlist(self, lo=1, hi=5):
        items = [self.item() for _ in range(self.r.randint(lo, hi))]
        txt = b""
        for i, (t, _) in enumerate(items):
            if i:
                prev = items[i - 1][0].rstrip(b" \t")
                plain_left = prev[-1:] not in (b">", b";", b")") and b"<" not in items[i - 1][0] and b":" not in items[i - 1][0]
                plain_right = b"<" not in t and b":" not in t and t[:1] not in (b"(", b" ", b"\t", b"\n")
                after_angle = prev.endswith(b">") and b":" not in items[i - 1][0]
                if self.r.random() < 0.12 and ((plain_left and plain_right) or (after_angle and b":" not in t)):
                    txt += b" "                                  # the comma is missing: two words meet / an address follows '>'
                else:
                    txt += self.ws() + b"," + (b"," if self.r.random() < 0.08 else b"") + self.ws()
            txt += t
        return txt, [v for _, vs in items for v in vs]

def strip_angle_comments(f):
    """the same text with every comment that stands between '<' and '>' replaced by a space"""
    out = bytearray(); i = 0; ang = 0; n = len(f)
    while i < n:
        c = f[i:i+1]
        if c == b'"':
            j = i + 1
            while j < n and f[j:j+1] != b'"': j += 2 if f[j:j+1] == b"\\" else 1
            out += f[i:j+1]; i = j + 1; continue
        if c == b"(":
            j = i + 1; lv = 1
            while j < n and lv:
                if f[j:j+1] == b"\\": j += 2; continue
                if f[j:j+1] == b"(": lv += 1
                if f[j:j+1] == b")": lv -= 1
                j += 1
            out += b" " if ang else f[i:j]; i = j; continue
        if c == b"<": ang += 1
        if c == b">": ang = max(0, ang - 1)
        out += c; i += 1
    return bytes(out)

def parse_kv(line):
    if line in ("P", "E"): return line
    d = {}
    for w in line.split():
        k, _, v = w.partition("=")
        d[k] = v
    return d

def lst(s):
    return [] if s == "-" else [unhex(x) for x in s.split(",")]

ALPHA = [b'"', b"\\", b".", b"@", b" ", b"<", b">", b"(", b")", b"[", b"]", b",", b";", b":", b"\r", b"\t", b"a", b"+", b"\x80", b"\x7f", b"\n"]

def main():
    ck = vlib.Check(PID, "proof")
    rb = vlib.RepoBuild()
    if not rb.ok:
        print("repository does not build:\n" + rb.log[-2000:]); sys.exit(2)
    ck.proofs(srcdir=rb.dir)
    drv = vlib.build_driver("C17")
    try:
        h_inj = rb.harness("h_inject", "qmail-inject"); h_man = rb.harness("h_mangle", "qmail-remote"); h_ap = rb.harness("h_addrparse", "qmail-smtpd")
    except vlib.HarnessBuildError as e:
        ck.violation("harness-build", dict(kind="correspondence", broken="function harnesses no longer compile against the sources", log=str(e)[-1500:]), nofail=True,
                     what="harness does not build"); ck.finish(trusted_base=[], assumptions=[]); return
    rng = ck.rng
    fails, mism = [], []
    import gen_common; gen_common.translator_selfcheck(ck, rb, mism)

    def both(exe, lines, stream):
        real, _, _ = vlib.run_lines(exe, lines)
        mod, _, _ = vlib.run_lines(drv, lines)
        for l, a, b in zip(lines, real, mod):
            ck.evaluated()
            if a != b:
                mism.append(dict(stream=stream, input=l[:400], real=a[:400], model=b[:400]))
        return real

    # ---------------------------------------------------------------- 1. the two quoting round trips
    n_ex = 4 if ck.thorough else 3
    locs = [b"".join(t) for n in range(0, n_ex + 1) for t in itertools.product(ALPHA[:-1], repeat=n)]
    for _ in range(3000 if ck.thorough else 800):
        locs.append(b"".join(rng.choice(ALPHA[:-1] + [b"b", b"c", b"-"]) for _ in range(rng.randint(4, 40))))
    with_lf = [b"".join(rng.choice(ALPHA) for _ in range(rng.randint(1, 6))) for _ in range(300)]
    doms = [b"example.org", b"h", b"a.b-c.d", b"x+"]
    addrs = [l + b"@" + doms[i % len(doms)] for i, l in enumerate(locs)]
    ck.count("local_parts_exhaustive_len<=%d" % n_ex, sum(len(ALPHA[:-1]) ** n for n in range(n_ex + 1)))
    ck.count("local_parts_random", len(locs) - sum(len(ALPHA[:-1]) ** n for n in range(n_ex + 1)))
    both(h_inj, ["qn " + hx(l) for l in locs + with_lf], "quote_need")
    q2 = both(h_inj, ["q2 " + hx(a) for a in addrs + [b"noat", b"", b"@", b"a@", b"@b", b"a@b@c"] + with_lf], "quote2")
    man = both(h_man, ["mangle " + hx(a) for a in addrs], "addrmangle")
    # SMTP: what the client sends is parsed back by the server
    args = [rng.choice([b"FROM:<", b"TO:<", b"<", b"to: <"]) + unhex(m) + b">" for m in man]
    ap = both(h_ap, ["aparse " + hx(a) for a in args], "addrparse")
    for a, m, r in zip(addrs, man, ap):
        if len(a) < 890 and r != "S " + hx(a):
            fails.append(("roundtrip:smtp", dict(kind="input", address=hx(a), mangled=m, parsed=r), len(a)))
        ck.nontrivial(a)
    # header: quote2 -> parse -> unquote, and through doheaderfield (parse + addrlist + rwgeneric + unquote)
    tk = both(h_inj, ["tok " + q for q in q2[:len(addrs)]], "parse(quote2)")
    for a, q, t in zip(addrs, q2, tk):
        parts = t.split(" | ")
        if len(parts) != 3 or unhex(parts[1].strip()) != a:
            fails.append(("roundtrip:header-tokens", dict(kind="input", address=hx(a), quoted=q, tokens=t[:300]), len(a)))
    hf_in = [a for a in addrs if b"\n" not in a]
    sub = hf_in if ck.thorough else hf_in[::3] + hf_in[-400:]
    q2map = dict(zip(addrs, q2))
    fields = [b"To: " + unhex(q2map[a]) + b"\n" for a in sub]
    hf = both(h_inj, ["hf %s %s %s 0000 %s" % (hx(DH), hx(DD), hx(PD), hx(f)) for f in fields], "doheaderfield(quote2)")
    for a, f, r in zip(sub, fields, hf):
        d = parse_kv(r)
        exp = a
        if a.endswith(b"@h"): exp = a + b"." + DD
        if a.endswith(b"@x+"): exp = a[:-1] + b"." + PD
        if d in ("P", "E") or lst(d["hr"]) != [exp]:
            fails.append(("roundtrip:header-field", dict(kind="input", address=hx(a), field=hx(f), result=r[:300], expected=hx(exp)), len(a)))

    # ---------------------------------------------------------------- 2. the tokenizer on arbitrary strings
    TA = [b"a", b"\\", b'"', b"(", b")", b"[", b"]", b".", b",", b"@", b"<", b">", b":", b";", b" ", b"\n", b"\x80", b"+"]
    n_t = 4 if ck.thorough else 3
    strs = [b"".join(t) for n in range(0, n_t + 1) for t in itertools.product(TA, repeat=n)]
    for _ in range(6000 if ck.thorough else 1500):
        strs.append(b"".join(rng.choice(TA + [b"b", b"c", b"\t", b"\r"]) for _ in range(rng.randint(5, 60))))
    # long comma lists exercise the folding in token822_unparse
    for _ in range(300):
        strs.append(b"To: " + b", ".join(rng.choice([b"a@b.c", b"someone.long@a-rather-long-host.example.org", b"x", b"(c) q@r"]) for _ in range(rng.randint(2, 14))))
    both(h_inj, ["tok " + hx(s) for s in strs], "token822_parse/unquote/unparse")
    ck.count("tokenizer_strings", len(strs))

    # ---------------------------------------------------------------- 3. header fields from the grammar
    n_f = 6000 if ck.thorough else 1500
    names = [b"To", b"Cc", b"Bcc", b"to", b"CC", b"Apparently-To", b"Resent-To", b"Resent-Bcc", b"Resent-cc", b"From", b"Reply-To", b"Sender", b"Return-Path", b"Errors-To", b"To ", b"Subject", b"X-Other", b"Content-Length"]
    cfgs = [(DH, DD, PD), (b"lonehost", b"dom.example", b"plus.example"), (b"dh+", DD, PD)]
    lines, meta = [], []
    for i in range(n_f):
        dh, dd, pd = cfgs[0] if i % 4 else rng.choice(cfgs)
        g = Gen(rng, dh, dd, pd)
        name = rng.choice(names[:9]) if rng.random() < 0.7 else rng.choice(names)
        txt, vals = g.addrlist(0 if rng.random() < 0.05 else 1, 5)
        fl = "".join(rng.choice("01") if rng.random() < 0.2 else "0" for _ in range(4))
        f = name + b":" + g.ws() + txt + g.ws() + b"\n"
        lines.append("hf %s %s %s %s %s" % (hx(dh), hx(dd), hx(pd), fl, hx(f))); meta.append((name.strip().lower(), vals, f, fl, (dh, dd, pd)))
    res = both(h_inj, lines, "doheaderfield(grammar)")
    again, envdiff = [], []
    for (name, vals, f, fl, cfg), r in zip(meta, res):
        d = parse_kv(r)
        ck.count("field_" + name.decode())
        obj = dict(kind="input", field=hx(f), flags=fl, result=r[:400], expected=None if vals is None else [hx(v) for v in vals])
        if d in ("P", "E"):
            fails.append(("inject:valid-field-refused", obj, len(f))); continue
        deleted = (fl[0] == "1" and name == b"return-path") or (fl[1] == "1" and name == b"from")
        if deleted: continue
        if vals is not None:
            want = list(reversed(vals))
            got_hr, got_hrr = lst(d["hr"]), lst(d["hrr"])
            if name in (b"to", b"cc", b"bcc", b"apparently-to"):
                if got_hr != want or got_hrr: envdiff.append((obj, f, fl, cfg, want, "hr"))
            elif name in (b"resent-to", b"resent-cc", b"resent-bcc"):
                if got_hrr != want or got_hr: envdiff.append((obj, f, fl, cfg, want, "hrr"))
            elif got_hr or got_hrr:
                fails.append(("inject:non-recipient-field-feeds-envelope", obj, len(f)))
            if name == b"return-path" and vals:
                s = unhex(d["sender"]) if d["sender"] != "none" else None
                if s != want[0] + (b"-@[]" if fl[3] == "1" else b""): envdiff.append((obj, f, fl, cfg, want[0] + (b"-@[]" if fl[3] == "1" else b""), "sender"))
        if name in (b"bcc", b"resent-bcc", b"return-path", b"content-length"):
            if d["saved"] != "none": fails.append(("inject:bcc-kept", obj, len(f)))
        elif d["saved"] == "none":
            fails.append(("inject:field-lost", obj, len(f)))
        elif name in (b"to", b"cc", b"apparently-to", b"resent-to", b"resent-cc"):
            again.append((cfg, fl, d, unhex(d["saved"]), f))
        ck.nontrivial(f)
    # a wrong envelope that becomes right once the comments inside <...> are taken out is the recorded finding
    if envdiff:
        r3, _, _ = vlib.run_lines(h_inj, ["hf %s %s %s %s %s" % (hx(c[0]), hx(c[1]), hx(c[2]), fl, hx(strip_angle_comments(f))) for obj, f, fl, c, want, which in envdiff])
        for (obj, f, fl, c, want, which), r in zip(envdiff, r3):
            d3 = parse_kv(r)
            got3 = None if d3 in ("P", "E") else (unhex(d3["sender"]) if which == "sender" else lst(d3[which]))
            okay = got3 == want and strip_angle_comments(f) != f
            fails.append(("inject:comment-inside-angle-addr" if okay else ("inject:sender-differs-from-return-path" if which == "sender" else "inject:envelope-differs-from-header"), obj, len(f)))
    # the rewritten field parses again to the same addresses
    r2 = both(h_inj, ["hf %s %s %s %s %s" % (hx(c[0]), hx(c[1]), hx(c[2]), fl, hx(sv)) for c, fl, d, sv, f in again], "doheaderfield(rewritten)")
    for (c, fl, d, sv, f), r in zip(again, r2):
        d2 = parse_kv(r)
        if d2 in ("P", "E") or d2["hr"] != d["hr"] or d2["hrr"] != d["hrr"]:
            fails.append(("inject:rewritten-field-parses-differently", dict(kind="input", field=hx(f), rewritten=hx(sv), first=d["hr"] + "/" + d["hrr"], second=r[:300]), len(f)))
        elif d2["saved"] != d["saved"]:
            pass                               # folding may move; addresses are what the property fixes

    # ---------------------------------------------------------------- 4. the whole program
    home = rb.make_home()
    qq = os.path.join(vlib.VERIF, "harness", "qqstub.sh")
    qqout = os.path.join(vlib.scratch(), "c17qq")
    inj = rb.path("qmail-inject")
    n_m = 500 if ck.thorough else 140
    mlines, mmeta = [], []
    for i in range(n_m):
        g = Gen(rng)
        hdr, want_h, want_rh = [], [], []
        resent = False
        fieldspec = []
        for name in rng.sample([b"To", b"Cc", b"Bcc", b"Resent-To", b"Resent-Bcc", b"Apparently-To"], rng.randint(0, 4)):
            if name.startswith(b"Resent") and rng.random() < 0.6: continue
            txt, vals = g.addrlist(1, 3)
            fieldspec.append((name, txt, vals))
        rng.shuffle(fieldspec)
        base = [b"From: w@x.example\n", b"Date: 1 Jan 2000 00:00:00 -0000\n", b"Message-ID: <1@x.example>\n", b"Subject: s\n  folded\n", b"X-Weird:  a, b;\n"]
        allh = [(b, None, None) for b in base if rng.random() < 0.85]
        rp = None
        if rng.random() < 0.3:
            t, v = g.addr_spec(); rp = v; allh.append((b"Return-Path: <" + t + b">\n", None, None))
        for name, txt, vals in fieldspec:
            allh.append((name + b": " + txt + b"\n", name, vals))
            if name.startswith(b"Resent"): resent = True
        if resent and rng.random() < 0.5: allh.append((b"Resent-From: r@x.example\n", None, None))
        if rng.random() < 0.25:
            # any single Resent-* field makes the message a resent one: only the Resent-To/Cc/Bcc recipients count
            allh.append((rng.choice([b"Resent-Message-ID: <r1@x.example>\n", b"Resent-Date: 1 Jan 2000 00:00:00 -0000\n", b"Resent-Sender: rs@x.example\n",
                                     b"Resent-Reply-To: rr@x.example\n", b"Resent-From: rf@x.example\n", b"resent-message-id: <r2@x.example>\n"]), None, None))
            resent = True
        rng.shuffle(allh)
        for ftxt, name, vals in allh:
            if name is None: continue
            if name.startswith(b"Resent"): want_rh += list(reversed(vals))
            else: want_h += list(reversed(vals))
        allh = [x[0] for x in allh]
        body = rng.choice([b"\nbody\n", b"\nTo: not@a.header\n.\n", b"", b"\nunterminated", b"not a header line\nmore\n"])
        msg = b"".join(allh) + body
        mode = rng.choice(["", "-a", "-h", "-H", "-A"])
        argv_addrs = [rng.choice([b"arg1@a.example", b"lone", b"x@nodot", b"we ird@q.example", b"p@plus+", b"\"q\"@z.example", b".dot@a.example"]) for _ in range(rng.choice([0, 0, 1, 2]))]
        fl = "".join(c for c in "sfir" if rng.random() < 0.15)
        fopt = rng.choice([None, None, None, b"env@s.example", b"lonef", b"a b@s.example"])
        use_args = mode in ("-a", "-H") or (mode in ("", "-A") and bool(argv_addrs))
        use_hdr = mode in ("-h", "-H") or (mode in ("", "-A") and not argv_addrs)
        flags01 = "".join("1" if c in fl else "0" for c in "sfir")
        mlines.append("inject %s %s %s %s %d %d %s %s %s" % (hx(DH), hx(DD), hx(PD), flags01, use_args, use_hdr, "none" if fopt is None else hx(fopt),
                                                         ",".join(hx(a) for a in argv_addrs) or "-", hx(msg)))
        mmeta.append((msg, mode, argv_addrs, fl, fopt, use_args, use_hdr, want_rh if resent else want_h, rp, resent))
    mod, _, _ = vlib.run_lines(drv, mlines)
    for (msg, mode, argv_addrs, fl, fopt, use_args, use_hdr, want, rp, resent), m in zip(mmeta, mod):
        for p in (qqout + ".msg", qqout + ".env"):
            if os.path.exists(p): os.remove(p)
        env = dict(os.environ, QMAILQUEUE=qq, QQOUT=qqout, QMAILDEFAULTHOST=DH.decode(), QMAILDEFAULTDOMAIN=DD.decode(), QMAILPLUSDOMAIN=PD.decode(),
                   QMAILIDHOST="id.example", QMAILUSER="juser", QMAILHOST="mh.example", QMAILNAME="J User")
        for k in ("QMAILSUSER", "QMAILSHOST", "QMAILMFTFILE", "QMAILINJECT", "MAILUSER", "MAILHOST"): env.pop(k, None)
        if fl: env["QMAILINJECT"] = fl
        cmd = [inj] + ([mode] if mode else []) + (["-f", fopt.decode("latin1")] if fopt is not None else []) + ["--"] + [a.decode("latin1") for a in argv_addrs]
        try:
            p = subprocess.run(cmd, input=msg, env=env, stdout=subprocess.PIPE, stderr=subprocess.PIPE, timeout=30)
        except subprocess.TimeoutExpired:
            fails.append(("inject:hang", dict(kind="input", msg=hx(msg), argv=cmd[1:]), len(msg))); continue
        ck.evaluated(); ck.count("inject_mode_" + (mode or "default")); ck.count("inject_flags_" + (fl or "none"))
        obj = dict(kind="input", msg=hx(msg), argv=cmd[1:], QMAILINJECT=fl, rc=p.returncode, model=m[:600])
        if p.returncode == 100 or m == "P":
            if (p.returncode == 100) != (m == "P"):
                mism.append(dict(stream="qmail-inject", input=obj, real="rc=%d" % p.returncode, model=m[:100]))
            if p.returncode == 100:
                fails.append(("inject:valid-message-refused", dict(obj, stderr=p.stderr.decode("latin1")[:200]), len(msg)))
            continue
        if p.returncode != 0 or not os.path.exists(qqout + ".env"):
            fails.append(("inject:failed", dict(obj, stderr=p.stderr.decode("latin1")[:200]), len(msg))); continue
        envb = open(qqout + ".env", "rb").read(); out = open(qqout + ".msg", "rb").read()
        parts = envb.split(b"\0")
        sender = parts[0][1:] if parts and parts[0][:1] == b"F" else None
        rcpts = [x[1:] for x in parts[1:] if x[:1] == b"T"]
        obj.update(envelope_sender=None if sender is None else hx(sender), envelope_rcpts=[hx(r) for r in rcpts])
        d = parse_kv(m)
        # -- model against the program
        if lst(d["rcpts"]) != rcpts or (d["sender"] != "none" and unhex(d["sender"]) != sender):
            mism.append(dict(stream="qmail-inject", input=obj, real="env", model=m[:300]))
        tail = unhex(d["saved"]) + unhex(d["body"])
        if not out.endswith(tail):
            mism.append(dict(stream="qmail-inject message", input=obj, real=hx(out[-300:]), model=hx(tail[-300:])))
        else:
            gen = out[:len(out) - len(tail)]
            for l in gen.split(b"\n"):
                if l and not l.startswith((b" ", b"\t")) and not l.lower().startswith((b"date:", b"message-id:", b"from:", b"cc: recipient list not shown", b"resent-date:", b"resent-message-id:", b"resent-from:", b"resent-cc: recipient list not shown")):
                    mism.append(dict(stream="qmail-inject generated fields", input=obj, real=hx(gen[:300]), model="only Date/Message-ID/From/Cc placeholders expected"))
                    break
        # -- direct oracles
        def rw(a):
            if b"@" not in a: a = a + b"@" + DH
            l, _, dom = a.rpartition(b"@")
            if dom.endswith(b"+"): dom = dom[:-1] + b"." + PD
            if b"." not in dom and not dom.startswith(b"["): dom = dom + b"." + DD
            return l + b"@" + dom
        want_all = ([rw(a) for a in argv_addrs] if use_args else []) + (want if use_hdr else [])
        if rcpts != want_all:
            key = "inject:envelope-differs-from-header"
            msg2 = strip_angle_comments(msg)
            if msg2 != msg:
                p2 = subprocess.run(cmd, input=msg2, env=env, stdout=subprocess.PIPE, stderr=subprocess.PIPE, timeout=30)
                if p2.returncode == 0:
                    e2 = open(qqout + ".env", "rb").read().split(b"\0")
                    if [x[1:] for x in e2[1:] if x[:1] == b"T"] == want_all: key = "inject:comment-inside-angle-addr"
            fails.append((key, dict(obj, expected=[hx(x) for x in want_all]), len(msg)))
        exp_sender = None
        if fopt is not None: exp_sender = rw(fopt)
        elif rp is not None and "s" not in fl: exp_sender = rp + (b"-@[]" if "r" in fl else b"")
        elif rp is None or "s" in fl: exp_sender = b"juser" + (b"-" if "r" in fl else b"") + b"@mh.example" + (b"-@[]" if "r" in fl else b"")
        if exp_sender is not None and sender != exp_sender:
            fails.append(("inject:sender-wrong", dict(obj, expected=hx(exp_sender)), len(msg)))
        hpart = out.split(b"\n\n")[0].lower()
        if any(l.startswith((b"bcc:", b"resent-bcc:")) for l in hpart.split(b"\n")):
            fails.append(("inject:bcc-kept", obj, len(msg)))
        ck.nontrivial(msg + repr(cmd).encode())

    ck.cov["disagreements_checked"] = len(mism)
    ck.cov["rule"] = ("local parts over {\" \\ . @ SP < > ( ) [ ] , ; : CR TAB a + 0x80 0x7f} exhaustively to length %d plus seeded longer ones x 4 domains through quote2/addrmangle/addrparse/token822/doheaderfield; "
                      "tokenizer strings over 18 specials exhaustively to length %d plus seeded; %d header fields rendered from an RFC 822 grammar (comments, quoted strings, literals, routes, groups, folding, doubled commas) "
                      "x 18 field names x flag combinations x 3 default-host configurations; %d whole messages through the real qmail-inject in every -a/-h/-H/-A/default mode, with and without -f, QMAILINJECT letters s f i r. "
                      "non-trivial = addresses round-tripped / fields and messages with a known expected envelope") % (n_ex, n_t, n_f, n_m)
    ck.sample(dict(field=hx(meta[0][2]), result=res[0][:300]))
    fails.sort(key=lambda x: x[2])
    seen = set()
    for key, obj, _ in fails:
        if key in seen: continue
        seen.add(key)
        ck.violation(key, obj, what="real quote/token822/qmail-inject/qmail-smtpd code: " + key)
    real_fails = [f for f in fails if f[0] not in ck.known]
    if mism and not real_fails:
        ck.violation("correspondence", dict(kind="correspondence", broken="Addr/Quote.v, Addr/Tok.v, Addr/Inject822.v = quote.c, token822.c, qmail-inject.c (" + mism[0]["stream"] + ")", first=mism[0], n=len(mism)),
                     nofail=True, what="model and implementation disagree (%s)" % mism[0]["stream"])
    ck.proof_failure_violation(bool(real_fails))
    ck.finish(trusted_base=[vlib.KERNEL_TB, vlib.EXTRACTION_TB, "harness/h_inject.c, h_mangle.c, h_addrparse.c (call the real functions; _exit -> longjmp)", "stand-in qmail-queue harness/qqstub.sh",
                            "tools/extract_params.py (ok[] table and hname[] parsed from today's quote.c/hfield.c; Tie/Tie_C17.v proves the model uses the same)"],
              assumptions=["stralloc/alloc never fail (out-of-memory exits are not modelled)", "Date/Message-ID/From fields generated by qmail-inject are opaque (only their presence is compared)",
                           "the default sender (QMAILSUSER/QMAILSHOST machinery) and Mail-Followup-To are checked by direct oracle only, not modelled"])

def replay(path):
    obj = json.load(open(path))
    print("re-run ./check C17 (deterministic for the same VERIF_SEED); recorded case:", json.dumps(obj)[:1500])
    return 0
