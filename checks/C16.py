"""C16 - new mail wakes the daemon: no lost trigger, no busy loop.

proof: coq/Props/Properties_C16.v (Send/Trigger.v: interleaving model of qmail-queue's publish-then-signal
       with qmail-send's re-arm-then-scan over a FIFO; the select timeout arithmetic of main())
tie:   (1) the order of link / open-write-close of lock/trigger in the real qmail-queue and of select / close /
       open lock/trigger / opendir todo / readdir in the real qmail-send is read from the interposer's log on
       every run and compared with the model's two programs; if it differs the model's interpreter searches all
       interleavings of the OBSERVED order for a lost wake-up and the schedule found is replayed on the real
       processes;  (2) gate-scheduled interleavings of the real processes (the interposer stops each process
       before each of those calls; the controller releases them one at a time): after every schedule the
       injected message must be picked up without the periodic rescan;  (3) every select timeout of the real
       daemon in quiescent states is compared with the model's timeout function; an idle daemon must not spin."""
import itertools, json, os, re, sys, time
import vlib
import daemon_common as dc

PID = "C16"

def observed_programs(lines, send_pid):
    """program order of the gated calls, from the interposer log"""
    inj, dae = {}, []
    trig = {}
    for l in lines:
        w = l.split()
        if len(w) < 2: continue
        pid = int(w[0]) if w[0].isdigit() else None
        if pid is None: continue
        if pid == send_pid:
            if w[1] == "select" and w[2] == "=" and w[3] != "0": dae.append("S")
            elif w[1] == "open" and w[2].endswith("lock/trigger") and w[5] != "-1":
                dae.append("O"); trig[pid] = w[5]
            elif w[1] == "close" and trig.get(pid) == w[2]: dae.append("C"); trig[pid] = None
            elif w[1] == "opendir" and w[2] == "todo": dae.append("D")
            elif w[1] == "readdir" and w[2] == "todo": dae.append("R")
        else:
            p = inj.setdefault(pid, [])
            if w[1] == "link" and "todo/" in w[3]: p.append("L")
            elif w[1] == "open" and w[2].endswith("lock/trigger"):
                p.append("W"); trig[pid] = w[5]
            elif w[1] == "write" and w[2] == "trigger": p.append("B")
            elif w[1] == "close" and trig.get(pid) is not None and trig.get(pid) == w[2]: p.append("X"); trig[pid] = None
    return dae, inj

def cycle_of(dae):
    """the daemon's wake cycle: from a select that returned to the next one, repeated readdirs collapsed"""
    cycles = []
    cur = None
    for c in dae:
        if c == "S":
            if cur: cycles.append(cur)
            cur = "S"
        elif cur is not None:
            if not (c == "R" and cur.endswith("R")): cur += c
    if cur: cycles.append(cur)
    full = [c for c in cycles if set("CODR") <= set(c)]
    return full

class Arena:
    """one daemon under the gate; injections scheduled against it"""
    def __init__(self, rb, home, ck):
        self.rb, self.home, self.ck = rb, home, ck
        self.sock = os.path.join(vlib.scratch(), "gate.sock")
        self.gs = dc.GateServer(self.sock)
        self.log = os.path.join(vlib.scratch(), "gate.log")
        self.env = vlib.shim_env(home, self.log, extra={"SYSSHIM_GATE": self.sock})
        self.d = dc.Daemon(rb, home, self.env)
        self.idle()
    def idle(self, limit=6.0):
        """free-run until the daemon waits at a select with a positive timeout and nothing else is pending"""
        end = time.time() + limit
        quiet = 0
        while time.time() < end:
            self.gs.poll(0.03); self.d.pump(0.01)
            p = self.gs.pending.get(self.d.send_pid)
            others = [pid for pid in self.gs.pending if pid != self.d.send_pid]
            for pid in others: self.gs.ack(pid)
            if p and p[1] == "select" and not others:
                quiet += 1
                if quiet >= 3: return True
                continue
            quiet = 0
            if p: self.gs.ack(self.d.send_pid)
        return False
    def todo_ids(self):
        return sorted(x for x in os.listdir(os.path.join(self.home, "queue", "todo")) if x.isdigit())
    def run_schedule(self, sched):
        """sched: string over 'a' (first injector), 'b' (second injector), 'd' (daemon).  Returns dict."""
        gs, d = self.gs, self.d
        pids = {}
        t0 = len(gs.trace)
        for k in "ab":
            if k in sched:
                pids[k] = dc.inject(self.rb, self.home, self.env, rcpt=b"u" + k.encode() + b"@local.example", wait=False)
        # wait for the injectors to arrive at their first gated call
        end = time.time() + 3
        while time.time() < end and not all(p in gs.pending for p in pids.values()):
            gs.poll(0.05)
        applied = []
        for c in sched:
            if c == "h":
                # SIGHUP: qmail-send rereads locals/virtualdomains at the top of its loop; it must not lose a pending trigger
                os.kill(d.send_pid, 1); applied.append("h:SIGHUP")
                end = time.time() + 0.3
                while time.time() < end:
                    gs.poll(0.02); d.pump(0.0)
                    if d.send_pid in gs.pending: break
                continue
            pid = d.send_pid if c == "d" else pids[c]
            if pid not in gs.pending:
                gs.poll(0.02)
            if pid not in gs.pending:
                applied.append(c.upper() + "-"); continue
            op = gs.ack(pid); applied.append(c + ":" + op)
            # quiescence: that process posts its next request, exits, or (daemon in select) blocks
            end = time.time() + (0.12 if (c == "d" and op == "select") else 1.0)
            while time.time() < end:
                gs.poll(0.02); d.pump(0.0)
                if pid in gs.pending or pid in gs.gone: break
        # free run: everything may finish; the periodic rescan is 1500 s away
        rcs = {}
        end = time.time() + 4.0
        while time.time() < end:
            gs.poll(0.02); d.pump(0.0)
            for pid in list(gs.pending):
                if pid == d.send_pid and gs.pending[pid][1] == "select":
                    continue
                gs.ack(pid)
            for k, pid in pids.items():
                if k not in rcs:
                    try:
                        p, st = os.waitpid(pid, os.WNOHANG)
                        if p: rcs[k] = os.waitstatus_to_exitcode(st)
                    except ChildProcessError: rcs[k] = None
            p = gs.pending.get(d.send_pid)
            if len(rcs) == len(pids) and not self.todo_ids() and p and p[1] == "select": break
            if len(rcs) == len(pids) and p and p[1] == "select":
                # the daemon sits at its idle select: let it enter the real select; it comes back at once if the FIFO is readable
                gs.ack(d.send_pid)
                e2 = time.time() + 0.25
                while time.time() < e2:
                    gs.poll(0.02); d.pump(0.0)
                    if d.send_pid in gs.pending: break
                if d.send_pid not in gs.pending:
                    break                      # really blocked in select
        left = self.todo_ids()
        if left:
            # a lost wake-up stays lost for 1500 s; a merely slow machine catches up: give it time before judging
            end = time.time() + 5.0
            while time.time() < end and self.todo_ids():
                gs.poll(0.05); d.pump(0.0)
                for pid in list(gs.pending): gs.ack(pid)
            left = self.todo_ids()
            if not left: self.idle()
        return dict(applied=applied, exit=rcs, todo_left=left, trace=[(op) for (_, op, _) in gs.trace[t0:]][:80])
    def recover(self):
        """after a lost wake-up the daemon is inside the real select: wake it with a plain injection"""
        env = {k: v for k, v in self.env.items() if k != "SYSSHIM_GATE"}
        dc.inject(self.rb, self.home, env)
        self.idle()
    def close(self):
        self.d.stop(); self.gs.close()

def main():
    ck = vlib.Check(PID, "proof")
    rb = vlib.RepoBuild()
    if not rb.ok:
        print("repository does not build:\n" + rb.log[-2000:]); sys.exit(2)
    ck.proofs(srcdir=rb.dir)
    drv = vlib.build_driver("C16")
    rng = ck.rng
    fails, mism = [], []
    home = rb.make_home()
    os.chmod(vlib.scratch(), 0o755)
    for f, v in [("me", "local.example"), ("locals", "local.example"), ("rcpthosts", "local.example")]:
        open(os.path.join(home, "control", f), "w").write(v + "\n")
    model_progs = vlib.run_lines(drv, ["progs"])[0][0].split()

    # ---------------------------------------------------------------- 1. program order + timeouts, ungated, frozen clock
    T = int(time.time())
    log1 = os.path.join(vlib.scratch(), "order.log")
    env1 = vlib.shim_env(home, log1, extra={"SYSSHIM_TIME": str(T)})
    d = dc.Daemon(rb, home, env1)
    d.pump(0.6)
    n_inj = 3
    for i in range(n_inj):
        rc = dc.inject(rb, home, env1, rcpt=b"u%d@local.example" % i)
        if rc != 0: fails.append(("inject-failed", dict(kind="input", rc=rc), 0))
        d.pump(0.4)
    # a deferred remote delivery leaves a retry time in the channel heap
    d.autoreply = b"Z"
    dc.inject(rb, home, env1, rcpt=b"x@remote.example")
    d.pump(1.0)
    n_before = len(open(log1).read().split("\n"))
    time.sleep(0.5); d.pump(0.1)
    lines = open(log1).read().split("\n")
    spin = sum(1 for l in lines[n_before:] if " select tv=" in l)
    send_pid = d.send_pid
    remote_info = None
    for root, _, fs in os.walk(os.path.join(home, "queue", "info")):
        for f in fs: remote_info = os.path.join(root, f)
    birth = int(os.stat(remote_info).st_mtime) if remote_info else None
    d.stop()
    ck.evaluated(n_inj + 1)
    if spin > 2:
        fails.append(("send:busy-loop-when-idle", dict(kind="history", selects_in_half_a_second_of_idleness=spin), 0))
    dae, inj = observed_programs(lines, send_pid)
    cycles = cycle_of(dae)
    obs_d = sorted(set(cycles), key=cycles.count)[-1] if cycles else ""
    inj_progs = sorted(set("".join(v) for v in inj.values() if "L" in v))
    obs_i = inj_progs[0] if len(inj_progs) == 1 else "|".join(inj_progs)
    ck.count("observed_daemon_cycles", len(cycles)); ck.count("observed_injector_runs", len(inj))
    ck.sample(dict(observed_daemon_program=obs_d, observed_injector_program=obs_i, model=model_progs))
    order_differs = [obs_d, obs_i] != model_progs
    # select timeouts in quiescent states: (idle, nothing queued) and (one deferred remote message)
    idle_tv = [int(m.group(1)) for l in lines for m in [re.search(r" select tv=(\d+)$", l)] if m and l.startswith(str(send_pid) + " ") and int(m.group(1)) > 0]
    ck.count("idle_selects", len(idle_tv))
    tlines, texp = [], []
    if idle_tv:
        # first idle select: nothing queued, nexttodorun = T + 1500, cleanuptime = T + 86400
        tlines.append("timeout %d 0 0 1 - - - 0 %d 0 %d" % (T, T + 1500, T + 86400)); texp.append(idle_tv[0])
    if birth is not None and len(idle_tv) >= 2:
        retry = vlib.run_lines(vlib.build_driver("C15"), ["retry %d %d 1" % (birth, T)])[0][0]
        tlines.append("timeout %d 0 0 1 %s - - 0 %d 0 %d" % (T, retry, T + 1500, T + 86400)); texp.append(idle_tv[-1])
    touts, _, _ = vlib.run_lines(drv, tlines)
    for l, o, e in zip(tlines, touts, texp):
        ck.evaluated(); ck.nontrivial(l)
        tv, work, mind = o.split()
        if int(tv) != e:
            mism.append(dict(stream="select timeout", input=l, real=e, model=o))
        if mind != "-" and e > int(mind) - T + 1:
            fails.append(("send:sleeps-past-due", dict(kind="history", state=l, select_timeout=e, earliest_due=int(mind), recent=T), 0))
        if e <= 0:
            fails.append(("send:zero-timeout-when-idle", dict(kind="history", state=l, select_timeout=e), 0))

    # ---------------------------------------------------------------- 1b. no busy loop while a channel is saturated in the middle of a pass
    import queue_common as qc
    W2 = qc.World(rb, "sat", conc=(1, 4))
    R2 = qc.Runner(W2, {b"s1@local.example": [None], b"s2@local.example": [b"K"], b"t1@local.example": [b"K"]}); R2.start(); R2.service(0.3)
    R2.inject(b"s@x.example", [b"s1@local.example", b"s2@local.example"]); R2.service(0.3)      # the only local slot is now taken and never answered
    R2.inject(b"s@x.example", [b"t1@local.example"]); R2.service(0.3)                           # a second message is due on the same channel
    n0 = sum(1 for l in W2.loglines() if l.startswith("%d select tv=" % W2.d.send_pid))
    time.sleep(0.5)
    sel = [l for l in W2.loglines() if l.startswith("%d select tv=" % W2.d.send_pid)][n0:]
    ck.evaluated(); ck.nontrivial("saturated-pass"); ck.count("saturated_pass_selects", len(sel))
    if len(sel) > 5:
        fails.append(("send:busy-loop-with-stalled-pass", dict(kind="history", scenario="concurrencylocal=1, first delivery of a two-recipient message never reported, second message due on the same channel",
                                                               selects_in_half_a_second=len(sel), timeouts=sorted(set(x.split("tv=")[1] for x in sel))[:5]), 0))
    R2.kill()
    # ---------------------------------------------------------------- 2. gated schedules on the real processes
    ar = Arena(rb, home, ck)
    model_cex = None
    def try_sched(s, origin):
        r = ar.run_schedule(s)
        ck.evaluated(); ck.nontrivial(s); ck.count("schedules_" + origin)
        done = all(v == 0 for v in r["exit"].values()) and len(r["exit"]) == len(set(s) - {"d", "h"})
        if done and r["todo_left"]:
            fails.append(("lost-wakeup", dict(kind="schedule", schedule=s, origin=origin, detail=r,
                                              meaning="letters: a/b = release the next gated call (link todo, open/write/close lock/trigger) of injection a/b; d = release the daemon's next gated call (select, close/open lock/trigger, opendir todo, readdir); afterwards everything ran free: the injections had exited 0, the entries named in todo_left were still in todo/ and qmail-send was blocked in select (periodic rescan 1500 s away)"), len(s)))
            ar.recover(); return False
        if not done:
            mism.append(dict(stream="gated run", input=s, real=r, model="every injection exits 0"))
            ar.idle()
        return True
    try:
        if not ar.idle():
            mism.append(dict(stream="gated run", input="start", real="daemon never became idle", model=""))
        # (a) what the model's interpreter says about the observed order: search all interleavings for a lost wake-up
        model_cex = None
        if order_differs and obs_d and obs_i and "|" not in obs_i and set(obs_d) <= set("SCODR") and set(obs_i) <= set("LWBX"):
            for n, fuel in ((1, 20), (2, 18)):
                res = vlib.run_lines(drv, ["search %s %s %d %d" % (obs_d, obs_i, n, fuel)])[0][0]
                if res != "none" and res != "?" and not res.startswith("ERR"):
                    model_cex = dict(injectors=n, schedule=res, daemon_program=obs_d, injector_program=obs_i)
                    ck.count("model_counterexamples"); break
        # (b) one injection wakes the daemon, the second one is interleaved with the whole wake cycle
        dsteps = 10
        all_s = []
        for pos in itertools.combinations(range(dsteps + 4), 4):
            all_s.append("aaaa" + "".join("b" if i in pos else "d" for i in range(dsteps + 4)))
        fixed = ["aaaa" + "d" * k + "bbbb" + "d" * (dsteps - k) for k in range(dsteps + 1)] + \
                ["aaaa" + "d" * k + "bbb" + "d" * (dsteps - k) + "b" for k in range(dsteps)] + \
                ["aaaa" + "d" * k + "b" + "d" * (dsteps - k) + "bbb" for k in range(dsteps)] + \
                ["a" + "d" * 3 + "aaa" + "d" * 8, "aaa" + "d" * 9 + "a", "d" * 4 + "aaaa" + "d" * 8, "aa" + "d" * 6 + "aa" + "d" * 6] + \
                ["d" + "h" + "aaaa" + "d" * 10] + \
                ["dh" + "d" * k + "aaaa" + "d" * 10 for k in (1, 2, 3)] + ["dhaa" + "d" + "aa" + "d" * 10, "aaaa" + "dd" + "h" + "bbbb" + "d" * 12, "dh" + "a" + "dd" + "aaa" + "d" * 10]
        n_rand = 400 if ck.thorough else 12
        chosen = fixed + [all_s[rng.randrange(len(all_s))] for _ in range(n_rand)]
        if ck.thorough: chosen = fixed + all_s
        for s in chosen:
            if not try_sched(s, "fixed" if s in fixed else "enumerated"): break
    finally:
        ar.close()

    if order_differs and not fails and model_cex:
        fails.append(("lost-wakeup", dict(kind="schedule", level="model interpreter run on the order of calls observed in the real binaries", **model_cex,
                                          meaning="i<k> = injector k performs its next call, d = the daemon performs its next step; after this schedule the daemon left alone blocks in select with a completed injection still in todo/"), 0))
    if order_differs and not fails:
        mism.insert(0, dict(stream="program order", input="interposer log of one wake cycle / one injection", real=[obs_d, obs_i], model=model_progs))
    ck.cov["disagreements_checked"] = len(mism)
    ck.cov["rule"] = ("program order of the gated calls read from the real qmail-queue and qmail-send; gate-scheduled interleavings of the real processes: injection a wakes the daemon, the four calls of injection b are placed "
                      "at every position of the daemon's wake cycle (select, close, open, opendir, readdir x4, select; %s schedules of %d, plus single-injection schedules); select timeouts of the real daemon "
                      "(idle; one deferred message) against the model's timeout function; idle daemon must not call select repeatedly. non-trivial = distinct schedules / timeout states") % ("all" if ck.thorough else "a fixed family and a seeded sample", 1001)
    fails.sort(key=lambda x: x[2])
    seen = set()
    for key, obj, _ in fails:
        if key in seen: continue
        seen.add(key)
        ck.violation(key, obj, what="real qmail-queue/qmail-send: " + key)
    real_fails = [f for f in fails if f[0] not in ck.known]
    if mism and not real_fails:
        ck.violation("correspondence", dict(kind="correspondence", broken="Send/Trigger.v programs/timeout = qmail-queue.c main, qmail-send.c todo_do/main, trigger.c (" + mism[0]["stream"] + ")", first=mism[0], n=len(mism)),
                     nofail=True, what="model and implementation disagree (%s)" % mism[0]["stream"])
    ck.proof_failure_violation(bool(real_fails))
    ck.finish(trusted_base=[vlib.KERNEL_TB, vlib.EXTRACTION_TB, "shim/sysshim.c (logs and gates link/open/write/close of lock/trigger, opendir/readdir of todo, select; freezes time())",
                            "checks/daemon_common.py (wires the real qmail-send to the real qmail-clean and to scripted spawners)"],
              assumptions=["FIFO semantics as measured on this kernel (ENXIO without reader, data kept while any descriptor is open, readable iff data or hang-up) are assumed by the model and exercised by the gated runs",
                           "readdir returns every entry linked before opendir (glibc reads the directory at the first readdir; entries linked later may or may not be returned - the model allows both)",
                           "the clock does not reach the periodic rescan during a run (1500 s)"])

def replay(path):
    obj = json.load(open(path))
    if obj.get("kind") != "schedule" or "detail" not in obj:
        print("recorded case:", json.dumps(obj)[:1500]); return 0
    rb = vlib.RepoBuild()
    home = rb.make_home(); os.chmod(vlib.scratch(), 0o755)
    for f, v in [("me", "local.example"), ("locals", "local.example"), ("rcpthosts", "local.example")]:
        open(os.path.join(home, "control", f), "w").write(v + "\n")
    ck = vlib.Check(PID, "proof")
    ar = Arena(rb, home, ck)
    try:
        ar.idle()
        r = ar.run_schedule(obj["schedule"])
    finally:
        ar.close()
    print("schedule", obj["schedule"], "->", json.dumps({k: v for k, v in r.items() if k != "trace"}))
    lostw = bool(r["todo_left"]) and all(v == 0 for v in r["exit"].values())
    print("lost wake-up reproduced" if lostw else "not reproduced on this tree")
    vlib._cleanup()
    return 1 if lostw else 0
