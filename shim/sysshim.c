/* LD_PRELOAD interposer used by the checks (trusted harness code).
   SYSSHIM_LOG=<file>   : append one line per interposed call:  "<pid> <call> <args...> = <ret> <errno>"
   SYSSHIM_FAIL=<rules> : ';'-separated rules "<call>:<path-substring>:<errno>[:<nth>]" - the matching call
                          (nth occurrence counted per rule from 1; 0/absent = every time) fails with errno
   SYSSHIM_KILL=<call>:<path-substring>:<nth> : _exit(137) immediately BEFORE that call (crash point)
   SYSSHIM_PASSWD=<file>: getpwnam() is served from "name:uid:gid:home" lines (NULL if absent)
   SYSSHIM_GROUP=<file> : getgrnam() is served from "name:gid" lines
   SYSSHIM_LOGWRITE=<fd>|all: also log write() calls on that descriptor / on every descriptor (first 64 bytes, hex);
                          write() and read() take fault rules with the pseudo-path "fd<N>"
   SYSSHIM_SIGNAL=<call>:<path-substring>:<nth>:<signo> : raise(signo) right AFTER that call returned
   also interposed (logged, faultable): ftruncate (path fd<N>), alarm (logged only)
   SYSSHIM_PID=<n> / SYSSHIM_TIME=<t> : getpid() / time() return these (for name-collision scenarios)
   SYSSHIM_GATE=<unix socket path> : scheduling gate for the trigger protocol (C16).  Before each of
     link(*,*todo/*) | open(*lock/trigger) ["openw"/"openr"] | write/close on that descriptor |
     opendir("todo") | readdir on it | select with a timeout > 0
   the process sends "<pid> <op> <detail>\n" on its connection and waits for one byte.  Every select is
   logged with its timeout ("select tv=<sec>").
   SYSSHIM_KILLAT=<k> : the process dies (_exit 137) just before its k-th mutating call (unlink, link, rename,
     open for writing/creating, write to a descriptor other than 0, fsync, ftruncate, utimes), counted per process
   SYSSHIM_LOGDATA=<n> : bytes of data shown per logged write (default 64); SYSSHIM_LOGREAD=<fd,fd> : log reads on these
   SYSSHIM_GATEALL=1 (with SYSSHIM_GATE): every unlink/link/rename/open-for-writing also stops at the gate ("mut")
   faults: also fork ("fork::<errno>[:nth]"), stat/lstat ("stat:<pathsub>:<errno>[:nth]"); read rules match "fd<N> <path the descriptor was opened with>"
   The shim changes nothing unless told to. */
#define _GNU_SOURCE
#include <dlfcn.h>
#include <errno.h>
#include <fcntl.h>
#include <stdarg.h>
#include <stdio.h>
#include <stdlib.h>
#include <string.h>
#include <unistd.h>
#include <sys/stat.h>
#include <sys/time.h>
#include <sys/types.h>
#include <pwd.h>
#include <grp.h>

static int logfd = -2;
struct rule { char call[16]; char sub[128]; int err; int nth; int seen; };
static struct rule rules[32]; static int nrules = -1;
static struct rule krule; static int have_k = -1;
static struct rule srule; static int have_s = -1;
#include <signal.h>
static void after(const char *call, const char *path) {
  if (have_s < 0) {
    const char *e = getenv("SYSSHIM_SIGNAL"); have_s = 0;
    if (e) { char buf[256]; char *b, *c, *d; strncpy(buf, e, sizeof buf - 1); buf[sizeof buf - 1] = 0;
      b = strchr(buf, ':'); if (b) { *b++ = 0; c = strchr(b, ':'); if (c) { *c++ = 0; d = strchr(c, ':'); if (d) { *d++ = 0;
        strncpy(srule.call, buf, 15); strncpy(srule.sub, b, 127); srule.nth = atoi(c); srule.err = atoi(d); srule.seen = 0; have_s = 1; } } } }
  }
  if (have_s == 1 && !strcmp(srule.call, call) && strstr(path ? path : "", srule.sub))
    if (++srule.seen == srule.nth) raise(srule.err);
}

static void init_rules(void) {
  const char *e; nrules = 0;
  e = getenv("SYSSHIM_FAIL");
  if (e) {
    char buf[2048]; char *t, *sv;
    strncpy(buf, e, sizeof buf - 1); buf[sizeof buf - 1] = 0;
    for (t = strtok_r(buf, ";", &sv); t && nrules < 32; t = strtok_r(0, ";", &sv)) {
      struct rule *r = &rules[nrules]; char *a = t, *b, *c, *d;
      b = strchr(a, ':'); if (!b) continue; *b++ = 0;
      c = strchr(b, ':'); if (!c) continue; *c++ = 0;
      d = strchr(c, ':'); if (d) *d++ = 0;
      strncpy(r->call, a, 15); strncpy(r->sub, b, 127); r->err = atoi(c); r->nth = d ? atoi(d) : 0; r->seen = 0;
      nrules++;
    }
  }
  have_k = 0;
  e = getenv("SYSSHIM_KILL");
  if (e) {
    char buf[256]; char *b, *c;
    strncpy(buf, e, sizeof buf - 1); buf[sizeof buf - 1] = 0;
    b = strchr(buf, ':'); if (b) { *b++ = 0; c = strchr(b, ':'); if (c) { *c++ = 0;
      strncpy(krule.call, buf, 15); strncpy(krule.sub, b, 127); krule.nth = atoi(c); krule.seen = 0; have_k = 1; } }
  }
}
static void slog_inner(const char *fmt, va_list ap);
static void slog(const char *fmt, ...) {            /* never disturbs errno (a failing log open must not change what the program sees) */
  int se = errno; va_list ap; va_start(ap, fmt); slog_inner(fmt, ap); va_end(ap); errno = se;
}
static void slog_inner(const char *fmt, va_list ap) {
  char buf[20000]; int n;
  if (logfd == -2) {
    const char *p = getenv("SYSSHIM_LOG");
    int (*ropen)(const char *, int, ...) = dlsym(RTLD_NEXT, "open");
    logfd = p ? ropen(p, O_WRONLY | O_APPEND | O_CREAT | O_CLOEXEC, 0644) : -1;
    if (logfd >= 0 && logfd < 100) { int f2 = fcntl(logfd, F_DUPFD_CLOEXEC, 200); if (f2 >= 0) { close(logfd); logfd = f2; } }
  }
  if (logfd < 0) return;
  { pid_t (*rgetpid)(void) = dlsym(RTLD_NEXT, "getpid"); n = snprintf(buf, sizeof buf, "%d ", (int) rgetpid()); }
  n += vsnprintf(buf + n, sizeof buf - n - 1, fmt, ap);
  if (n > (int) sizeof buf - 2) n = sizeof buf - 2;
  buf[n++] = '\n';
  { ssize_t (*rwrite)(int, const void *, size_t) = dlsym(RTLD_NEXT, "write"); rwrite(logfd, buf, n); }
}
static char *fdpath[1024];           /* path each descriptor was opened with (for path-matched read faults) */
static volatile long killat = -2, mutcount = 0;
/* SYSSHIM_KILLSIG=1: on SIGUSR2 the process dies before its NEXT mutating call, so that every call it completed
   is in the log (a SIGKILL at a random instant can land between a call and its log line) */
static void on_usr2(int sig) { (void) sig; killat = mutcount + 1; }
__attribute__((constructor)) static void shim_ctor(void) {
  if (getenv("SYSSHIM_KILLSIG")) { struct sigaction sa; memset(&sa, 0, sizeof sa); sa.sa_handler = on_usr2; sigaction(SIGUSR2, &sa, 0); }
}
static void gate(const char *op, const char *detail);
static void mutating(const char *call, const char *path) {
  { static int ga = -1; if (ga < 0) ga = getenv("SYSSHIM_GATEALL") ? 1 : 0;
    if (ga && (!strcmp(call, "unlink") || !strcmp(call, "link") || !strcmp(call, "rename") || !strcmp(call, "open"))
        && path && !strstr(path, "lock/")) { char b[300]; snprintf(b, sizeof b, "%s:%s", call, path); gate("mut", b); } }
  if (killat == -2) { const char *e = getenv("SYSSHIM_KILLAT"); if (killat == -2) killat = e ? atol(e) : -1; }
  if (killat < 0) return;
  if (++mutcount == killat) { slog("KILLAT %ld before %s %s", killat, call, path ? path : ""); _exit(137); }
}
/* returns errno to inject (>0) or 0 */
static int fault(const char *call, const char *path) {
  int i;
  if (nrules < 0) init_rules();
  if (!strcmp(call, "unlink") || !strcmp(call, "link") || !strcmp(call, "rename") || !strcmp(call, "fsync") || !strcmp(call, "ftruncate") || !strcmp(call, "utimes"))
    mutating(call, path);
  if (have_k && !strcmp(krule.call, call) && strstr(path ? path : "", krule.sub)) {
    if (++krule.seen == krule.nth) { slog("KILL before %s %s", call, path ? path : ""); _exit(137); }
  }
  for (i = 0; i < nrules; i++)
    if (!strcmp(rules[i].call, call) && strstr(path ? path : "", rules[i].sub)) {
      rules[i].seen++;
      if (rules[i].nth == 0 || rules[i].nth == rules[i].seen) return rules[i].err;
    }
  return 0;
}
#define REAL(name) static typeof(name) *real; if (!real) real = dlsym(RTLD_NEXT, #name)

/* ---- scheduling gate ---- */
#include <sys/socket.h>
#include <sys/un.h>
#include <sys/syscall.h>
#include <sys/select.h>
#include <dirent.h>
static int gate_fd = -2;
static int trig_fd = -1, trig_w = 0;
static DIR *todo_dir = 0;
static void gate(const char *op, const char *detail) {
  char buf[300], ack; int n;
  if (gate_fd == -2) {
    const char *g = getenv("SYSSHIM_GATE");
    gate_fd = -1;
    if (g) {
      struct sockaddr_un a; int fd = socket(AF_UNIX, SOCK_STREAM | SOCK_CLOEXEC, 0);
      memset(&a, 0, sizeof a); a.sun_family = AF_UNIX; strncpy(a.sun_path, g, sizeof a.sun_path - 1);
      if (fd >= 0 && connect(fd, (struct sockaddr *) &a, sizeof a) == 0) {
        int f2 = fcntl(fd, F_DUPFD_CLOEXEC, 210); if (f2 >= 0) { syscall(SYS_close, fd); fd = f2; }
        gate_fd = fd;
      } else if (fd >= 0) syscall(SYS_close, fd);
    }
  }
  if (gate_fd < 0) return;
  n = snprintf(buf, sizeof buf, "%d %s %s\n", (int) syscall(SYS_getpid), op, detail ? detail : "");
  if (syscall(SYS_write, gate_fd, buf, n) != n) { gate_fd = -1; return; }
  while (syscall(SYS_read, gate_fd, &ack, 1) == -1 && errno == EINTR) ;
}
static int is_trigger(const char *p) { size_t n = strlen(p); return n >= 12 && !strcmp(p + n - 12, "lock/trigger"); }
DIR *opendir(const char *name) { REAL(opendir); DIR *d; int se;
  if (!strcmp(name, "todo")) gate("opendir", name);
  d = real(name); se = errno; slog("opendir %s = %s", name, d ? "ok" : "NULL"); if (d && !strcmp(name, "todo")) todo_dir = d; errno = se; return d; }
struct dirent *readdir(DIR *d) { REAL(readdir); struct dirent *e; int se;
  if (d == todo_dir && d) gate("readdir", "todo");
  e = real(d); se = errno; if (d == todo_dir) slog("readdir todo = %s", e ? e->d_name : "END"); errno = se; return e; }
struct dirent64 *readdir64(DIR *d) { REAL(readdir64); struct dirent64 *e; int se;
  if (d == todo_dir && d) gate("readdir", "todo");
  e = real(d); se = errno; if (d == todo_dir) slog("readdir todo = %s", e ? e->d_name : "END"); errno = se; return e; }
int closedir(DIR *d) { REAL(closedir); if (d == todo_dir && d) { slog("closedir todo"); todo_dir = 0; } return real(d); }
int select(int n, fd_set *r, fd_set *w, fd_set *x, struct timeval *tv) { REAL(select); int rc, se; long sec = tv ? (long) tv->tv_sec : -1;
  slog("select tv=%ld", sec);
  if (sec > 0) { char b[32]; snprintf(b, sizeof b, "%ld", sec); gate("select", b); }
  rc = real(n, r, w, x, tv); se = errno; slog("select = %d", rc); errno = se; return rc; }

int unlink(const char *p) { REAL(unlink); int e = fault("unlink", p), r;
  if (e) { errno = e; slog("unlink %s = -1 %d INJECTED", p, e); return -1; }
  r = real(p); { int se = errno; slog("unlink %s = %d %d", p, r, r ? se : 0); errno = se; } return r; }
int link(const char *a, const char *b) { REAL(link); int e, r;
  if (strstr(b, "todo/")) gate("link", b);
  e = fault("link", b);
  if (e) { errno = e; slog("link %s %s = -1 %d INJECTED", a, b, e); return -1; }
  r = real(a, b); { int se = errno; slog("link %s %s = %d %d", a, b, r, r ? se : 0); errno = se; } after("link", b); return r; }
int rename(const char *a, const char *b) { REAL(rename); int e = fault("rename", b), r;
  if (e) { errno = e; slog("rename %s %s = -1 %d INJECTED", a, b, e); return -1; }
  r = real(a, b); { int se = errno; slog("rename %s %s = %d %d", a, b, r, r ? se : 0); errno = se; } return r; }
int open(const char *p, int fl, ...) { REAL(open); mode_t m = 0; int e, r; int trg = is_trigger(p);
  if (fl & O_CREAT) { va_list ap; va_start(ap, fl); m = va_arg(ap, mode_t); va_end(ap); }
  if (trg) gate((fl & O_ACCMODE) == O_WRONLY ? "openw" : "openr", p);
  if ((fl & O_ACCMODE) != O_RDONLY || (fl & O_CREAT)) mutating("open", p);
  e = fault("open", p);
  if (!e && (fl & O_ACCMODE) == O_RDONLY) e = fault("openr", p);       /* "openr": read-only opens only */
  if (e) { errno = e; slog("open %s %o = -1 %d INJECTED", p, fl, e); return -1; }
  r = real(p, fl, m); { int se = errno; slog("open %s %o = %d %d", p, fl, r, r < 0 ? se : 0); if (trg && r >= 0) { trig_fd = r; trig_w = (fl & O_ACCMODE) == O_WRONLY; }
    if (r >= 0 && r < 1024) { if (fdpath[r]) free(fdpath[r]); fdpath[r] = strdup(p); } errno = se; } return r; }
int open64(const char *p, int fl, ...) { REAL(open64); mode_t m = 0; int e, r; int trg = is_trigger(p);
  if (fl & O_CREAT) { va_list ap; va_start(ap, fl); m = va_arg(ap, mode_t); va_end(ap); }
  if (trg) gate((fl & O_ACCMODE) == O_WRONLY ? "openw" : "openr", p);
  if ((fl & O_ACCMODE) != O_RDONLY || (fl & O_CREAT)) mutating("open", p);
  e = fault("open", p);
  if (!e && (fl & O_ACCMODE) == O_RDONLY) e = fault("openr", p);       /* "openr": read-only opens only */
  if (e) { errno = e; slog("open %s %o = -1 %d INJECTED", p, fl, e); return -1; }
  r = real(p, fl, m); { int se = errno; slog("open %s %o = %d %d", p, fl, r, r < 0 ? se : 0); if (trg && r >= 0) { trig_fd = r; trig_w = (fl & O_ACCMODE) == O_WRONLY; }
    if (r >= 0 && r < 1024) { if (fdpath[r]) free(fdpath[r]); fdpath[r] = strdup(p); } errno = se; } return r; }
int fsync(int fd) { REAL(fsync); char nm[32]; int e, r; snprintf(nm, sizeof nm, "fd%d", fd); e = fault("fsync", nm);
  if (e) { errno = e; slog("fsync %d = -1 %d INJECTED", fd, e); return -1; }
  r = real(fd); { int se = errno; slog("fsync %d = %d %d", fd, r, r ? se : 0); errno = se; } after("fsync", nm); return r; }
int ftruncate(int fd, off_t len) { REAL(ftruncate); char nm[32]; int e, r; snprintf(nm, sizeof nm, "fd%d", fd); e = fault("ftruncate", nm);
  if (e) { errno = e; slog("ftruncate %d %ld = -1 %d INJECTED", fd, (long) len, e); return -1; }
  r = real(fd, len); { int se = errno; slog("ftruncate %d %ld = %d %d", fd, (long) len, r, r ? se : 0); errno = se; } return r; }
#include <sys/file.h>
int flock(int fd, int op) { REAL(flock); char nm[32]; int e, r; snprintf(nm, sizeof nm, "fd%d", fd); e = fault("flock", nm);
  if (e) { errno = e; slog("flock %d %d = -1 %d INJECTED", fd, op, e); return -1; }
  r = real(fd, op); { int se = errno; slog("flock %d %d = %d %d", fd, op, r, r ? se : 0); errno = se; } return r; }
int close(int fd) { REAL(close); char nm[32]; int e, r;
  if (fd == logfd) return 0;
  if (fd >= 0 && fd < 1024 && fdpath[fd]) { free(fdpath[fd]); fdpath[fd] = 0; }
  if (fd == gate_fd && fd >= 0) return 0;
  if (fd == trig_fd && fd >= 0) { gate(trig_w ? "closew" : "closer", "lock/trigger"); trig_fd = -1; }
  if (nrules > 0) { snprintf(nm, sizeof nm, "fd%d", fd); e = fault("close", nm);
    if (e) { real(fd); errno = e; slog("close %d = -1 %d INJECTED", fd, e); return -1; } }
  r = real(fd); if (fd >= 3) { int se = errno; slog("close %d = %d", fd, r); errno = se; } return r; }
#include <time.h>
pid_t getpid(void) { REAL(getpid); const char *e = getenv("SYSSHIM_PID"); return e ? (pid_t) atol(e) : real(); }
/* SYSSHIM_TIME=<t>: frozen clock.  SYSSHIM_TIMEFILE=<path>: the clock is whatever decimal number that file holds now
   (a virtual clock stepped by the controller); falls back to the real time if the file cannot be read */
time_t time(time_t *t) { REAL(time); const char *e = getenv("SYSSHIM_TIME"); const char *f = getenv("SYSSHIM_TIMEFILE"); time_t v;
  if (f) { char b[32]; int fd = syscall(SYS_open, f, O_RDONLY); ssize_t n = fd >= 0 ? syscall(SYS_read, fd, b, sizeof b - 1) : -1;
    if (fd >= 0) syscall(SYS_close, fd);
    if (n > 0) { b[n] = 0; v = (time_t) atol(b); } else v = real(0); }
  else v = e ? (time_t) atol(e) : real(0);
  if (t) *t = v; return v; }
int setgroups(size_t n, const gid_t *l) { REAL(setgroups); int e = fault("setgroups", ""), r;
  if (e) { errno = e; slog("setgroups %zu %u = -1 %d INJECTED", n, n ? (unsigned) l[0] : 0u, e); return -1; }
  r = real(n, l); { int se = errno; slog("setgroups %zu %u = %d %d", n, n ? (unsigned) l[0] : 0u, r, r ? se : 0); errno = se; } return r; }
int setgid(gid_t g) { REAL(setgid); int e = fault("setgid", ""), r;
  if (e) { errno = e; slog("setgid %u = -1 %d INJECTED", (unsigned) g, e); return -1; }
  r = real(g); { int se = errno; slog("setgid %u = %d %d", (unsigned) g, r, r ? se : 0); errno = se; } return r; }
int setuid(uid_t u) { REAL(setuid); int e = fault("setuid", ""), r;
  if (e) { errno = e; slog("setuid %u = -1 %d INJECTED", (unsigned) u, e); return -1; }
  r = real(u); { int se = errno; slog("setuid %u = %d %d", (unsigned) u, r, r ? se : 0); errno = se; } return r; }
pid_t fork(void) { REAL(fork); int e = fault("fork", ""); if (e) { errno = e; slog("fork = -1 %d INJECTED", e); return -1; } return real(); }
int execv(const char *path, char *const argv[]) { REAL(execv); slog("execv %s uid=%u gid=%u", path, (unsigned) getuid(), (unsigned) getgid()); return real(path, argv); }
unsigned int alarm(unsigned int secs) { REAL(alarm); slog("alarm %u", secs); return real(secs); }
ssize_t read(int fd, void *buf, size_t n) { REAL(read); char nm[300]; int e;
  /* a read rule matches "fd<N>" and, for descriptors opened through this shim, the path: "fd11 local/7/123" */
  snprintf(nm, sizeof nm, "fd%d %s", fd, (fd >= 0 && fd < 1024 && fdpath[fd]) ? fdpath[fd] : "");
  if (nrules > 0 || nrules < 0 || have_k) { e = fault("read", nm); if (e) { errno = e; slog("read %d = -1 %d INJECTED", fd, e); return -1; } }
  { static int rfds[8], nr = -1; ssize_t r; int i, hit = 0;
    if (nr < 0) { const char *x = getenv("SYSSHIM_LOGREAD"); nr = 0; while (x && *x && nr < 8) { rfds[nr++] = atoi(x); x = strchr(x, ','); if (x) x++; } }
    r = real(fd, buf, n);
    for (i = 0; i < nr; i++) if (rfds[i] == fd) hit = 1;
    if (hit) { char hex[8200]; size_t k, m = r > 0 ? (size_t) r : 0; int se = errno; if (m > 4096) m = 4096;
      for (k = 0; k < m; k++) sprintf(hex + 2 * k, "%02x", ((unsigned char *) buf)[k]);
      hex[2 * m] = 0; if (!m) strcpy(hex, "-"); slog("read %d %s = %zd %d", fd, hex, r, r < 0 ? se : 0); errno = se; }
    return r; } }
off_t lseek(int fd, off_t off, int wh) { REAL(lseek); off_t r = real(fd, off, wh); int se = errno; if (fd >= 3) slog("lseek %d %ld %d = %ld", fd, (long) off, wh, (long) r); errno = se; return r; }
off_t lseek64(int fd, off_t off, int wh) { REAL(lseek64); off_t r = real(fd, off, wh); int se = errno; if (fd >= 3) slog("lseek %d %ld %d = %ld", fd, (long) off, wh, (long) r); errno = se; return r; }
int stat(const char *p, struct stat *st) { REAL(stat); int e = fault("stat", p);
  if (e) { errno = e; slog("stat %s = -1 %d INJECTED", p, e); return -1; } return real(p, st); }
int lstat(const char *p, struct stat *st) { REAL(lstat); int e = fault("stat", p);
  if (e) { errno = e; slog("lstat %s = -1 %d INJECTED", p, e); return -1; } return real(p, st); }
int utimes(const char *p, const struct timeval tv[2]) { REAL(utimes); int e = fault("utimes", p), r;
  if (e) { errno = e; slog("utimes %s = -1 %d INJECTED", p, e); return -1; }
  r = real(p, tv); { int se = errno; slog("utimes %s %ld = %d %d", p, tv ? (long) tv[1].tv_sec : -1L, r, r ? se : 0); errno = se; } return r; }

struct passwd *getpwnam(const char *name) {
  static struct passwd pw; static char line[512]; static char nm[64], home[256];
  const char *f = getenv("SYSSHIM_PASSWD"); FILE *fp;
  if (!f) { REAL(getpwnam); return real(name); }
  fp = fopen(f, "r"); if (!fp) return 0;
  while (fgets(line, sizeof line, fp)) {
    unsigned long uid, gid;
    if (sscanf(line, "%63[^:]:%lu:%lu:%255[^\n]", nm, &uid, &gid, home) == 4 && !strcmp(nm, name)) {
      fclose(fp); pw.pw_name = nm; pw.pw_passwd = "x"; pw.pw_uid = uid; pw.pw_gid = gid; pw.pw_gecos = ""; pw.pw_dir = home; pw.pw_shell = "/bin/sh";
      return &pw; }
  }
  fclose(fp); errno = 0; return 0;
}
struct group *getgrnam(const char *name) {
  static struct group gr; static char line[256]; static char nm[64]; static char *mem[1] = { 0 };
  const char *f = getenv("SYSSHIM_GROUP"); FILE *fp;
  if (!f) { REAL(getgrnam); return real(name); }
  fp = fopen(f, "r"); if (!fp) return 0;
  while (fgets(line, sizeof line, fp)) {
    unsigned long gid;
    if (sscanf(line, "%63[^:]:%lu", nm, &gid) == 2 && !strcmp(nm, name)) {
      fclose(fp); gr.gr_name = nm; gr.gr_passwd = "x"; gr.gr_gid = gid; gr.gr_mem = mem; return &gr; }
  }
  fclose(fp); return 0;
}
ssize_t write(int fd, const void *buf, size_t n) {
  REAL(write); static int wfd = -2; ssize_t r; char nm[32]; int e;
  if (wfd == -2) { const char *x = getenv("SYSSHIM_LOGWRITE"); wfd = x ? (!strcmp(x, "all") ? -3 : atoi(x)) : -1; }
  if (fd == trig_fd && fd >= 0 && trig_w) { gate("write", "lock/trigger"); }
  if (fd != 0 && fd != logfd && fd != gate_fd) { snprintf(nm, sizeof nm, "fd%d", fd); mutating("write", nm); }
  if (fd != logfd && (nrules != 0 || have_k != 0)) {
    snprintf(nm, sizeof nm, "fd%d", fd); e = fault("write", nm);
    if (e == 999) { if (n > 1) n = n / 2; e = 0; }          /* error code 999: a short write - half of what was offered is taken, no error */
    if (e) { errno = e; if (wfd != -1) slog("write %d %zu - = -1 %d INJECTED", fd, n, e); return -1; }
  }
  r = real(fd, buf, n);
  if (fd == trig_fd && fd >= 0 && trig_w) { int se = errno; slog("write trigger = %zd %d", r, r < 0 ? se : 0); errno = se; }
  if ((fd == wfd || wfd == -3) && fd != logfd) { static long cap = -1; char hex[8200]; size_t i, m; int se = errno;
    if (cap < 0) { const char *x = getenv("SYSSHIM_LOGDATA"); cap = x ? atol(x) : 64; if (cap > 4096) cap = 4096; }
    m = n < (size_t) cap ? n : (size_t) cap;
    for (i = 0; i < m; i++) sprintf(hex + 2 * i, "%02x", ((const unsigned char *) buf)[i]);
    hex[2 * m] = 0; if (!m) strcpy(hex, "-"); slog("write %d %zu %s = %zd %d", fd, n, hex, r, r < 0 ? se : 0); errno = se; }
  return r;
}
